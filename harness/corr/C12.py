"""C12 — backends and lazy access give the same data as eager access.

Streams
  C12.hist   a hand-written netCDF-4 file of 1-3 integer variables (value = variable*100000 + flat
             offset), read with cfdm.read(netcdf_backend=), then a history of Data operations
             (copy / subspace / to_memory / array / assignment / equals / first,last,second element /
             str / transpose / insert_dimension / squeeze / flatten / metadata queries).  After every operation: what it
             returned, whether the result lives on disk or in memory (Data.source()), the calls of the
             file arrays' __getitem__ it caused (file, address, positions) and the number of open
             descriptors (/proc/self/fd).  Compared with the Lean model; judged by a numpy simulation
             that knows nothing of cfdm (eager access) plus the property's fetch rules.
  C12.read   a generated dataset (hand-encoded: data types, fill values, packing, char and string
             variables, unlimited and zero-length dimensions, 0-d variables, groups, DSG ragged arrays,
             gathering, geometries, UGRID; or written by cfdm.write from harness/gen/fields.py; or a seed
             of cfdm/test/create_test_files.py re-encoded as netCDF-4) read through
             netcdf_backend in {None, 'netCDF4', 'h5netcdf'}.  The residency of every variable's data
             after read, the fetch log of read and the descriptor count go to the Lean model of the
             reader; the oracle compares the three reads (independent fingerprint: values, mask, dtype,
             fill value, properties + cfdm equals both ways), the values with netCDF4-python, and runs a
             field-level history (copy, repr/str/dump, subspace lazily vs in memory, to_memory,
             equals) under the property's fetch rules.
  C12.err    operations that raise: a data access after the file has gone, reads of things that are not
             datasets, invalid backends, malformed indices: descriptors must be back to the baseline and
             the objects unchanged (oracle only).
"""
import atexit
import gc
import hashlib
import itertools
import json
import os
import re
import shutil
import tempfile
import traceback

import numpy as np

from .. import fw
from ..fw import Case
from ..gen import ncfiles_C12 as G
from . import C03 as IX

REQUIRED = [
    "C12_lazy_read_partial",
    "C12_read_realises_counterexample",
    "C12_fetch_only_on_access",
    "C12_memory_data_never_fetch",
    "C12_subspace_fetches_only_that_part",
    "C12_element_access_fetches_one_element",
    "C12_subspace_commutes",
    "C12_takeAll_compose",
    "C12_lazy_refines_eager",
    "C12_to_memory_neutral",
    "C12_handles",
    "C12_read_handles",
    "C12_backend_reads_superset",
    "C12_h5_old_counterexample",
    "C12_old_getitem_leaks_counterexample",
    "C12_h5_negative_step_slice",
    "C12_h5_wrong_anchor_counterexample",
    "C12_h5_variable_subspace_axis",
    "C12_h5_variable_subspace",
    "C12_h5_index_refines",
    "C12_h5_reads_sorted_distinct",
    "C12_h5_old_index_counterexample",
    "C12_dtype_consistent",
    "C12_dtype_old_partial",
    "C12_dtype_old_counterexamples",
    "C12_dtype_promotion",
]
BUDGET = {"quick": 1300, "thorough": 22000}
QUICK_JOBS = 6
RULE = (
    "hist: 1-3 variables of rank 0-3 (extents 1-5) in 1-2 files x backend {None, netCDF4, h5netcdf} x histories of "
    "1-9 Data operations with C03's index grammar (int, slice any sign/out of range, unsorted/negative/repeated "
    "lists, bool arrays, Ellipsis, omitted axes); vs: a field of rank 1-3 (extents up to 13 / 7 / 4) whose data variable and "
    "every coordinate variable with its bounds are read lazily, subspaced with negative-step slices of every residue of "
    "(start-stop-1) mod |step| (steps 1-5 and size+1, bounds absent / negative / out of range / empty selections), positive "
    "steps, sorted / descending / unsorted / repeated / negative integer lists, boolean arrays and integers, through "
    "Field.__getitem__ or construct by construct, on h5netcdf (3/5), netCDF4 and the default backend; dtype: one target "
    "variable in each of 6 roles x 10 stored types x scale_factor / add_offset absent or of any of the 10 types with neutral "
    "or non-neutral value x _Unsigned x unpack x mask x byte order x fill value x backend; promote: all 100 type pairs; "
    "read: 10 kinds of hand-encoded dataset + cfdm.write of random "
    "fields + re-encoded test-suite seeds x the three backends x a field-level history; err: raising operations. "
    "non-trivial = hist with at least one operation that inspects values / read of a dataset with at least two "
    "variables; distinct = distinct (stream, dataset description, backend, history)"
)
ASSUMPTIONS = [
    "array values in the history stream are 32-bit integers that name their source element; masks, data types, fill "
    "values, packing and strings are exercised by the read stream and compared across backends and with netCDF4-python "
    "by the oracle only",
    "'scalar coordinate variable' includes the bounds variable of a 0-d coordinate variable (the reader inserts the "
    "size-1 dimension into coordinate and bounds together)",
    "count / index variables of ragged arrays (DSG row sizes, node_count, part_node_count) are necessarily looked at "
    "by the reader to learn the shape of the decoded arrays: the model logs those fetches, the property is read as "
    "'no array is left in memory and no other variable is touched'",
    "for compressed data (ragged, gathered, geometry, UGRID bounds) only laziness of read, value identity across "
    "backends / access orders and descriptor counts are checked; 'fetches only that part' is demanded of "
    "uncompressed file arrays, where a part of the file is a rectangular selection",
    "the fetch log is observed at NetCDF4Array.__getitem__ / H5netcdfArray.__getitem__ (the level the property "
    "names); implementation log must be contained in the model's, values must be identical",
    "user indices follow C03's exclusion for slices with negative step and start below -size (open C03 finding)",
    "descriptor counts are those of /proc/self/fd after the call returned or its exception was dropped; library "
    "internal caching is not visible",
    "the model is the code after fixes/C12-h5netcdf-index-order.patch (applied: 4483ba2); on a tree without it the "
    "h5netcdf refusals surface as violations",
    "vs stream: what the backend variable (netCDF4.Variable / h5netcdf variable) is asked for by the first access is "
    "observed through a forwarding proxy handed to netcdf_indexer and compared, as ordered per-axis positions, with "
    "the model of _variable_subspace (h5py: the distinct requested positions in storage order); the oracle demands "
    "of it only that nothing outside the requested part is read when at most one axis has a list index",
    "dtype stream: values are small whole numbers; the reference for the delivered values is netCDF4-python's own "
    "unpacking (compared as float64); the byte order, fill value and mask setting are sampled, not modelled; strings "
    "and variable-length types are exercised by the read stream only; the model mirrors _create_netcdfarray / "
    "_unpacked_dtype as at /repo HEAD (a007f9a) and prints what the code before that repair advertised beside it "
    "(evidence only); the oracle (Data.dtype == dtype of the array == dtype after to_memory / subspace / copy, "
    "equals, same file read twice, what cfdm.write stores) decides the property",
]

_cfdm = None


def cfdm():
    global _cfdm
    if _cfdm is None:
        import cfdm as m
        _cfdm = m
        instrument()
    return _cfdm


# ---------------------------------------------------------------- instrumentation
LOG = []


def instrument():
    from cfdm.data.h5netcdfarray import H5netcdfArray
    from cfdm.data.netcdf4array import NetCDF4Array
    for cls in (NetCDF4Array, H5netcdfArray):
        if cls.__dict__.get("_verif_c12"):
            continue
        orig = cls.__getitem__

        def gi(self, indices, _orig=orig):
            try:
                LOG.append((self.get_filename(None), self.get_address(None), indices, tuple(self.shape)))
            except Exception:
                LOG.append((None, None, indices, ()))
            return _orig(self, indices)

        cls.__getitem__ = gi
        cls._verif_c12 = True
    instrument_variable_level()


VLOG = []


class _VarProxy:
    """Forwards everything to the backend variable; notes what it is asked for."""

    def __init__(self, var):
        object.__setattr__(self, "_v", var)

    def __getattr__(self, k):
        return getattr(object.__getattribute__(self, "_v"), k)

    def __setattr__(self, k, v):
        setattr(object.__getattribute__(self, "_v"), k, v)

    def __getitem__(self, key):
        v = object.__getattribute__(self, "_v")
        try:
            VLOG.append((tuple(int(n) for n in v.shape), key, str(getattr(v, "name", "")).split("/")[-1]))
        except Exception:
            pass
        return v[key]

    def __len__(self):
        return len(object.__getattribute__(self, "_v"))


def instrument_variable_level():
    """Level 2 (never part of the verdict): the index the backend variable itself receives."""
    try:
        import cfdm.data.h5netcdfarray as H
        import cfdm.data.netcdf4array as N
        from cfdm.data.netcdfindexer import netcdf_indexer

        class LoggingIndexer(netcdf_indexer):
            def __init__(self, variable, *a, **k):
                super().__init__(_VarProxy(variable), *a, **k)

        if getattr(N, "netcdf_indexer", None) is netcdf_indexer:
            N.netcdf_indexer = LoggingIndexer
        if getattr(H, "netcdf_indexer", None) is netcdf_indexer:
            H.netcdf_indexer = LoggingIndexer
    except Exception:
        pass


def file_array_types():
    from cfdm.data.h5netcdfarray import H5netcdfArray
    from cfdm.data.netcdf4array import NetCDF4Array
    return (NetCDF4Array, H5netcdfArray)


def nfd():
    return len(os.listdir("/proc/self/fd"))


def positions(indices, shape):
    """Per-axis positions of a logged index (independent of cfdm: Python/numpy semantics)."""
    if indices is Ellipsis:
        return [list(range(n)) for n in shape]
    if not isinstance(indices, tuple):
        indices = (indices,)
    out = []
    ix = list(indices)
    if any(i is Ellipsis for i in ix):
        k = [i is Ellipsis for i in ix].index(True)
        ix = ix[:k] + [slice(None)] * (len(shape) - (len(ix) - 1)) + ix[k + 1:]
    ix = ix + [slice(None)] * (len(shape) - len(ix))
    for i, n in zip(ix, shape):
        if isinstance(i, slice):
            out.append(list(range(n))[i])
        elif isinstance(i, (int, np.integer)):
            out.append([int(i) % n])
        else:
            a = np.asarray(i)
            if a.dtype == bool:
                out.append([int(k) for k in np.where(a)[0]])
            else:
                out.append([int(k) % n for k in a.flatten()])
    return out


def elements(pos):
    return set(itertools.product(*pos))


_scratch = None


def scratch():
    global _scratch
    if _scratch is None:
        _scratch = tempfile.mkdtemp(prefix="verif_c12_")
        atexit.register(shutil.rmtree, _scratch, True)
    return _scratch


def pre():
    """Called by ./check in the main process before the workers are forked: one scratch directory for the whole
    run, removed when the main process exits."""
    scratch()


def be_name(be):
    return {None: "nc4", "netCDF4": "nc4", "h5netcdf": "h5"}[be]


# ================================================================ C12.hist
VBASE = 100000
OPS_W = [("sub", 22), ("arr", 12), ("copy", 8), ("tomem", 9), ("set", 7), ("eq", 8), ("first", 5), ("last", 5),
         ("second", 3), ("str", 5), ("tr", 5), ("ins", 4), ("sq", 4), ("fl", 4), ("edit", 7)]


def _safe_index(rng, shape, be):
    """C03's index grammar, minus the open C03 finding (negative step with start < -size)."""
    if any(n == 0 for n in shape):
        return [("e",)]
    for _ in range(20):
        ix = IX.gen_index(rng, shape, kinds=("i", "s", "s", "s", "l", "l", "b"))
        if IX._neg_start_below(ix, shape):
            continue
        return ix
    return [("e",)]


def h5_unsafe(ix, shape):
    """Would h5py refuse this (already expanded) index: negative step or a non-increasing list?"""
    full = IX._full_ix(ix, shape)
    sig = None
    for t, n in zip(full, shape):
        if t[0] == "s" and t[3] is not None and t[3] < 0:
            return "h5netcdf-backend-negative-step-slice"
        if t[0] == "l" and len(t[1]) > 1:
            q = [v % n for v in t[1]]
            if any(b <= a for a, b in zip(q, q[1:])):
                sig = "h5netcdf-backend-unsorted-or-repeated-list-index"
    return sig


def gen_hist(rng):
    nv = rng.choice([1, 1, 2, 2, 3])
    nfiles = rng.choice([1, 1, 1, 2])
    vars_ = []
    for k in range(nv):
        shape = IX.gen_shape(rng)
        shape = [min(s, 5) for s in shape][:3]
        vars_.append([rng.randrange(nfiles), shape])
    be = rng.choice([None, "netCDF4", "h5netcdf", "h5netcdf"])
    shapes = [list(v[1]) for v in vars_]
    derived = [{k} for k in range(nv)]  # family of handles likely to be equal
    ops = []
    nops = rng.randint(1, 9)
    names = [o for o, _ in OPS_W]
    weights = [w for _, w in OPS_W]
    for _ in range(nops):
        kind = rng.choices(names, weights)[0]
        i = rng.randrange(len(shapes))
        shp = shapes[i]
        if kind == "sub":
            ix = _safe_index(rng, shp, be)
            if shp and all(n > 0 for n in shp) and rng.random() < 0.04:
                # a list index out of range: refused after the dataset has been opened
                ax = rng.randrange(len(shp))
                ix = [("s", None, None, None)] * len(shp)
                ix[ax] = ("l", [0, shp[ax] + rng.randint(0, 3)])
                ops.append(["sub", i, [list(t) for t in ix]])
                continue
            ops.append(["sub", i, [list(t) for t in ix]])
            shapes.append([len(q) for q in IX.expand(ix, shp)])
        elif kind == "copy":
            ops.append(["copy", i])
            shapes.append(list(shp))
        elif kind == "tomem":
            inplace = rng.random() < 0.5
            ops.append(["tomem", i, int(inplace)])
            if not inplace:
                shapes.append(list(shp))
        elif kind == "set":
            ix = _safe_index(rng, shp, None)
            ops.append(["set", i, [list(t) for t in ix], 900000 + len(ops)])
        elif kind == "eq":
            cands = [j for j in range(len(shapes)) if shapes[j] == shp]
            j = rng.choice(cands) if cands and rng.random() < 0.8 else rng.randrange(len(shapes))
            ops.append(["eq", i, j])
        elif kind in ("arr", "first", "last", "str", "edit"):
            ops.append([kind, i])
        elif kind == "second":
            if int(np.prod(shp)) < 2:
                ops.append(["arr", i])
            else:
                ops.append(["second", i])
        elif kind == "tr":
            inplace = rng.random() < 0.4
            ops.append(["tr", i, int(inplace)])
            if inplace:
                shapes[i] = shp[::-1]
            else:
                shapes.append(shp[::-1])
        elif kind == "ins":
            if len(shp) >= 4:
                ops.append(["arr", i])
                continue
            inplace = rng.random() < 0.4
            ops.append(["ins", i, int(inplace)])
            if inplace:
                shapes[i] = [1] + shp
            else:
                shapes.append([1] + shp)
        elif kind in ("sq", "fl"):
            inplace = rng.random() < 0.4
            ops.append([kind, i, int(inplace)])
            new = [n for n in shp if n != 1] if kind == "sq" else (list(shp) if len(shp) <= 1 else [int(np.prod(shp))])
            if inplace:
                shapes[i] = new
            else:
                shapes.append(new)
    return dict(be=be, vars=vars_, ops=ops, eseed=rng.randrange(1 << 30))


def enc_shape(shape):
    return "x".join(map(str, shape)) if shape else "0d"


def enc_op(op):
    k = op[0]
    if k in ("sub",):
        return f"sub~{op[1]}~{IX.enc_ix([tuple(t) for t in op[2]])}"
    if k == "set":
        return f"set~{op[1]}~{IX.enc_ix([tuple(t) for t in op[2]])}~{op[3]}"
    return "~".join(str(x) for x in op)


def norm_ix(ix):
    return [tuple(list(t[:1]) + [list(x) if isinstance(x, (list, tuple)) else x for x in t[1:]]) for t in ix]


def mk_hist(p):
    p = json.loads(json.dumps(p))
    for op in p["ops"]:
        if op[0] in ("sub", "set"):
            op[2] = [list(t) for t in norm_ix(op[2])]
    line = (f"C12.hist be={be_name(p['be'])} vars={';'.join(f'{f}:{enc_shape(s)}' for f, s in p['vars'])} "
            f"ops={'/'.join(enc_op(o) for o in p['ops']) if p['ops'] else '-'}")
    inspect = [o for o in p["ops"] if o[0] not in ("copy", "edit")]
    tags = ["hist:be=" + str(p["be"])] + ["op:" + o[0] for o in p["ops"]]
    return Case("C12.hist", p, line, key=line + str(p["be"]), nontrivial=bool(inspect), tags=tags)


_hist_files = {}


def hist_files(vars_):
    """One netCDF-4 file per file index; variable k is `v<k>`, values k*VBASE + flat offset."""
    import netCDF4
    key = json.dumps(vars_)
    if key not in _hist_files:
        h = hashlib.sha1(key.encode()).hexdigest()[:12]
        paths = {}
        for fi in sorted({f for f, _ in vars_}):
            path = os.path.join(scratch(), f"h_{h}_{fi}_{os.getpid()}.nc")
            ds = netCDF4.Dataset(path, "w", format="NETCDF4")
            for k, (f, shape) in enumerate(vars_):
                if f != fi:
                    continue
                for a, n in enumerate(shape):
                    ds.createDimension(f"d{k}_{a}", n)
                v = ds.createVariable(f"v{k}", "i4", tuple(f"d{k}_{a}" for a in range(len(shape))))
                v.long_name = f"variable {k}"
                n = int(np.prod(shape)) if shape else 1
                v[...] = (np.arange(n) + k * VBASE).reshape(shape).astype("i4")
            ds.close()
            paths[fi] = path
        _hist_files[key] = paths
    return _hist_files[key]


def _state(d):
    src = d.source(None)
    return "D" if isinstance(src, file_array_types()) else "M"


def _fmt_axis(q):
    return ",".join(map(str, q)) if q else "_"


def fmt_fetch(fi, addr, pos):
    return f"{fi}.{addr}@" + (";".join(_fmt_axis(q) for q in pos) if pos else "-")


def exc_name(e):
    tb = "".join(traceback.format_exception(type(e), e, e.__traceback__))
    if ("h5py" in tb or "h5netcdf/" in tb) and isinstance(e, (ValueError, TypeError)):
        return "raised:backend"
    if isinstance(e, IndexError):
        return "raised:IndexError"
    if isinstance(e, ValueError):
        return "raised:ValueError"
    return "raised:" + fw.exc_enum(e)


def impl_hist(c):
    was = gc.isenabled()
    gc.disable()  # descriptors must go when the call ends, not whenever the cyclic collector runs
    try:
        return _impl_hist(c)
    finally:
        if was:
            gc.enable()


def _impl_hist(c):
    C = cfdm()
    p = c.payload
    paths = hist_files(p["vars"])
    by_path = {os.path.abspath(v): k for k, v in paths.items()}
    base = nfd()
    recs = []
    c.extra = dict(recs=recs, read_log=[], read_fd=0)
    LOG.clear()
    heap = [None] * len(p["vars"])
    for fi, path in paths.items():
        for f in C.read(path, netcdf_backend=p["be"]):
            k = int(f.nc_get_variable()[1:])
            heap[k] = f.data
        del f
    c.extra["read_log"] = [(a, positions(i, s)) for (_, a, i, s) in LOG]
    c.extra["read_fd"] = nfd() - base
    c.extra["read_states"] = [_state(d) for d in heap]
    outs = []
    for op in p["ops"]:
        LOG.clear()
        VLOG.clear()
        kind, i = op[0], op[1]
        obs = "ok"
        res = i
        try:
            d = heap[i]
            if kind == "copy":
                heap.append(d.copy())
                res = len(heap) - 1
                obs = f"h{res}"
            elif kind == "edit":
                sel = op[1] + len(outs)
                q = sel % 6
                if q == 0:
                    d.nc_set_hdf5_chunksizes("contiguous")
                    d.nc_clear_hdf5_chunksizes()
                elif q == 1:
                    _ = (d.shape, d.ndim, d.size, d.dtype)
                elif q == 2:
                    _ = d.get_filenames()
                elif q == 3:
                    _ = d.source(None)
                elif q == 4:
                    _ = (d.get_units(None), d.get_calendar(None), d.get_fill_value(None), d.nc_hdf5_chunksizes())
                else:
                    _ = d.get_compression_type()
            elif kind == "sub":
                heap.append(d[IX.py_ix([tuple(t) for t in op[2]])])
                res = len(heap) - 1
                obs = f"h{res}"
            elif kind == "tomem":
                if op[2]:
                    d.to_memory(inplace=True)
                else:
                    heap.append(d.to_memory())
                    res = len(heap) - 1
                    obs = f"h{res}"
            elif kind == "arr":
                a = np.ma.asanyarray(d.array)
                if np.ma.is_masked(a):
                    obs = "masked"
                else:
                    obs = f"v:{fw.fmt_list(a.shape)}:{fw.fmt_list(np.ma.getdata(a).flatten().tolist())}"
            elif kind == "set":
                d[IX.py_ix([tuple(t) for t in op[2]])] = op[3]
            elif kind == "eq":
                obs = "b:" + ("true" if d.equals(heap[op[2]]) else "false")
            elif kind == "first":
                obs = f"e:[{int(d.first_element())}]"
            elif kind == "last":
                obs = f"e:[{int(d.last_element())}]"
            elif kind == "second":
                obs = f"e:[{int(d.second_element())}]"
            elif kind == "str":
                s = str(d)
                obs = "e:" + fw.fmt_list([int(x) for x in re.findall(r"-?\d+", s)])
                # the model lists them in the order they are fetched: first, last, middle
                xs = [int(x) for x in re.findall(r"-?\d+", s)]
                if len(xs) == 3:
                    xs = [xs[0], xs[2], xs[1]]
                obs = "e:" + fw.fmt_list(xs)
            elif kind == "tr":
                if op[2]:
                    d.transpose(inplace=True)
                else:
                    heap.append(d.transpose())
                    res = len(heap) - 1
                    obs = f"h{res}"
            elif kind == "ins":
                if op[2]:
                    d.insert_dimension(0, inplace=True)
                else:
                    heap.append(d.insert_dimension(0))
                    res = len(heap) - 1
                    obs = f"h{res}"
            elif kind in ("sq", "fl"):
                meth = d.squeeze if kind == "sq" else d.flatten
                if op[2]:
                    meth(inplace=True)
                else:
                    heap.append(meth())
                    res = len(heap) - 1
                    obs = f"h{res}"
            else:
                raise fw.HarnessError("unknown op " + kind)
        except fw.HarnessError:
            raise
        except Exception as e:
            obs = exc_name(e)
            del e
        d = None
        log = []
        for (fn, addr, ind, shp) in LOG:
            fi = by_path.get(os.path.abspath(fn)) if fn else None
            log.append((fi, int(addr[1:]) if addr else -1, positions(ind, shp)))
        st = _state(heap[res]) if res < len(heap) and heap[res] is not None else "-"
        fd = nfd() - base
        vlog = []
        for shp, key, _nm in VLOG:
            try:
                vlog.append(positions(key, shp))
            except Exception:
                vlog.append(None)
        recs.append(dict(obs=obs, st=st, log=log, fd=fd, states=[_state(x) for x in heap], vlog=vlog))
        outs.append(f"{obs} st={st} new={'+'.join(fmt_fetch(*l) for l in log) if log else 'none'} h={fd}")
    final = ",".join(_state(x) for x in heap)
    heap.clear()
    return " | ".join(outs) + " || states=" + final


def parse_fetches(s):
    out = {}
    if s == "none":
        return out
    for ent in s.split("+"):
        var, pos = ent.split("@")
        if pos == "-":
            el = {()}
        else:
            axes = [[] if a == "_" else [int(x) for x in a.split(",")] for a in pos.split(";")]
            el = elements(axes)
        out.setdefault(var, set()).update(el)
    return out


_OPRE = re.compile(r"^(.*) st=(\S+) new=(\S+) h=(-?\d+)(?: rd=(\S+))?$")


def variable_level(c):
    """Level-2 comparison for the evidence only: does the first access to the backend variable ask for what
    the model's `backendReads` says (as element sets)?  -> (matches, differs)"""
    same = diff = 0
    try:
        mo = c.model_out.split(" || ")[0].split(" | ")
        for y, r in zip(mo, (c.extra or {}).get("recs", [])):
            my = _OPRE.match(y)
            if not my or not my.group(5) or not r.get("vlog") or r["vlog"][0] is None:
                continue
            rd = my.group(5)
            axes = [] if rd == "-" else [[] if a == "_" else [int(x) for x in a.split(",")] for a in rd.split(";")]
            if elements(r["vlog"][0]) == elements(axes):
                same += 1
            else:
                diff += 1
    except Exception:
        pass
    return same, diff


def agree_hist(c):
    a, b = c.impl_out, c.model_out
    if a is None or b is None:
        return False
    try:
        ao, af = a.split(" || ")
        bo, bf = b.split(" || ")
    except ValueError:
        return a == b
    if af != bf:
        return False
    al = ao.split(" | ") if ao else []
    bl = bo.split(" | ") if bo else []
    if len(al) != len(bl):
        return False
    for x, y in zip(al, bl):
        mx, my = _OPRE.match(x), _OPRE.match(y)
        if not mx or not my:
            return False
        if (mx.group(1), mx.group(2), mx.group(4)) != (my.group(1), my.group(2), my.group(4)):
            return False
        fx, fy = parse_fetches(mx.group(3)), parse_fetches(my.group(3))
        for var, el in fx.items():
            if var not in fy:
                return False
            # a refused index has no well-defined element set: the variable alone is compared
            if not mx.group(1).startswith("raised") and not el <= fy[var]:
                return False
    return True


def _np_take(a, pos):
    r = a
    for ax, q in enumerate(pos):
        r = np.take(r, q, axis=ax) if len(q) else r[(slice(None),) * ax + (slice(0, 0),)]
    return r


def _unravel(shape, flat):
    return tuple(int(x) for x in np.unravel_index(flat, shape)) if shape else ()


def oracle_hist(c):
    """Eager numpy simulation + the property's fetch rules.  Knows nothing of cfdm or the model."""
    p = c.payload
    ex = c.extra
    if not isinstance(ex, dict) or "recs" not in ex:
        return "implementation failed before the history: " + str(c.impl_out)
    nv = len(p["vars"])
    # read: nothing fetched (no scalar coordinate variables here), every array on disk, no descriptor left
    if ex["read_log"]:
        return f"read fetched data of {sorted({a for a, _ in ex['read_log']})}"
    if ex["read_fd"] != 0:
        return f"read left {ex['read_fd']} descriptor(s) open"
    if any(s != "D" for s in ex["read_states"]):
        return "read brought an array into memory"
    sim = [(np.arange(int(np.prod(s)) if s else 1) + k * VBASE).reshape(s) for k, (_, s) in enumerate(p["vars"])]
    # backing[i] = (variable, per-axis positions into it) while handle i may still denote file data
    back = [(k, [list(range(n)) for n in s]) for k, (_, s) in enumerate(p["vars"])]
    known = h5_known_sig(p)
    if len(ex["recs"]) != len(p["ops"]):
        return "history not completed"
    for n, (op, r) in enumerate(zip(p["ops"], ex["recs"])):
        kind, i = op[0], op[1]
        where = f"op {n} {enc_op(op)}: "
        if r["fd"] != 0 and not (kind == "sub" and _out_of_range(op[2], list(sim[i].shape))):
            if r["obs"] == "raised:backend":
                return where + f"KNOWNLEAK {r['fd']} descriptor(s) left open by an access that raised"
            return where + f"{r['fd']} descriptor(s) left open"
        fetched = {}
        for (fi, addr, pos) in r["log"]:
            fetched.setdefault(addr, set()).update(elements(pos))
        allowed = {}

        def allow(bk, sub=None):
            if bk is None:
                return
            k, pos = bk
            if sub is not None:
                pos = [[pos[a][j] for j in q] for a, q in enumerate(sub)]
            allowed.setdefault(k, set()).update(elements(pos))

        a = sim[i]
        shp = list(a.shape)
        exp = None
        new_sim = None
        new_back = None
        raised_ok = False
        if kind in ("copy", "edit"):
            exp = None
            if kind == "copy":
                new_sim, new_back = a.copy(), back[i]
        elif kind == "sub" and _out_of_range(op[2], shp):
            # numpy raises IndexError; the access may have been attempted on the variable concerned
            allow(back[i])
            if r["fd"] != 0:
                return where + f"KNOWNLEAK {r['fd']} descriptor(s) left open by an access that raised"
            if r["obs"] != "raised:IndexError":
                return where + f"out-of-range list index: expected IndexError, got {r['obs']}"
            continue
        elif kind == "sub":
            pos = IX.expand([tuple(t) for t in op[2]], shp)
            allow(back[i], pos)
            new_sim = _np_take(a, pos)
            new_back = None if back[i] is None else (back[i][0], [[back[i][1][ax][j] for j in q] for ax, q in enumerate(pos)])
        elif kind == "tomem":
            allow(back[i])
            if op[2]:
                back[i] = None
            else:
                new_sim, new_back = a.copy(), None
        elif kind == "arr":
            allow(back[i])
            exp = f"v:{fw.fmt_list(a.shape)}:{fw.fmt_list(a.flatten().tolist())}"
        elif kind == "set":
            pos = IX.expand([tuple(t) for t in op[2]], shp)
            allow(back[i])
            a = a.copy()
            for t in itertools.product(*pos):
                a[t] = op[3]
            sim[i] = a
            back[i] = None
        elif kind == "eq":
            j = op[2]
            allow(back[i])
            allow(back[j])
            b = sim[j]
            exp = "b:" + ("true" if a.shape == b.shape and bool((a == b).all()) else "false")
        elif kind in ("first", "last", "second"):
            if a.size == 0:
                raised_ok = True
            else:
                flat = {"first": 0, "last": a.size - 1, "second": 1}[kind]
                idx = _unravel(shp, flat)
                allow(back[i], [[j] for j in idx])
                exp = f"e:[{int(a[idx])}]"
        elif kind == "str":
            if a.size == 0:
                exp = "e:[]"
            else:
                shown = [0]
                if a.size > 1:
                    shown.append(a.size - 1)
                if 1 < a.size <= 3 and shp[-1:] == [3]:
                    shown.append(1)
                for flat in shown:
                    allow(back[i], [[j] for j in _unravel(shp, flat)])
                exp = "e:" + fw.fmt_list([int(a.flatten()[f]) for f in shown])
        elif kind == "tr":
            if a.ndim > 1:
                allow(back[i])
                nb = None
            else:
                nb = back[i]
            if op[2]:
                sim[i] = a.T.copy()
                back[i] = nb
            else:
                new_sim, new_back = a.T.copy(), nb
        elif kind == "ins":
            allow(back[i])
            if op[2]:
                sim[i] = a[np.newaxis].copy()
                back[i] = None
            else:
                new_sim, new_back = a[np.newaxis].copy(), None
        elif kind in ("sq", "fl"):
            # nothing to do (no size one axis / at most one axis): nothing may be fetched, the data stay where they are
            noop = (1 not in a.shape) if kind == "sq" else a.ndim <= 1
            r_ = a.copy() if noop else (np.squeeze(a) if kind == "sq" else a.reshape(a.size)).copy()
            if noop:
                nb = back[i]
            else:
                allow(back[i])
                nb = None
            if op[2]:
                sim[i] = r_
                back[i] = nb
            else:
                new_sim, new_back = r_, nb
            if noop and r["log"]:
                return where + f"{kind} with nothing to do fetched data"
        # ---- fetch rules
        for var, el in fetched.items():
            if var not in allowed:
                return where + f"fetched from variable v{var} although the operation neither inspects nor modifies it"
            extra = el - allowed[var]
            if extra:
                return where + f"fetched {len(extra)} element(s) of v{var} outside the part concerned, e.g. {sorted(extra)[0]}"
        # ---- results
        obs = r["obs"]
        if obs.startswith("raised"):
            if raised_ok:
                continue
            if known and obs == "raised:backend" and kind in ("sub",) and p["be"] == "h5netcdf" and back[i] is not None \
                    and h5_unsafe([tuple(t) for t in op[2]], shp):
                return where + "KNOWN " + h5_unsafe([tuple(t) for t in op[2]], shp)
            return where + f"{obs} where eager access succeeds"
        if raised_ok:
            return where + "no exception for an element of empty data"
        if new_sim is not None:
            if not obs.startswith("h"):
                return where + "no new object: " + obs
            sim.append(new_sim)
            back.append(new_back)
            if new_back is None and r["st"] != "M" and kind in ("tomem",):
                return where + "to_memory result still on disk"
        elif kind == "tomem" and op[2] and r["st"] != "M":
            return where + "to_memory(inplace) left the data on disk"
        if exp is not None and obs != exp:
            return where + f"expected {exp} got {obs}"
    # every handle: lazy content equals eager content (checked through later `arr` operations in the history, and here)
    return None


def _out_of_range(ix, shape):
    full = IX._full_ix([tuple(t) for t in ix], shape)
    return any(t[0] == "l" and len(t[1]) > 1 and any(not (-n <= v < n) for v in t[1]) for t, n in zip(full, shape))


def h5_known_sig(p):
    return p["be"] == "h5netcdf"


# ================================================================ C12.read
READ_KINDS = G.KINDS + ["cfwrite", "cfwrite", "cfwrite", "seed", "external", "external", "external"]
# (_make_indexed_contiguous_file is left out: realising it element by element through h5netcdf takes minutes)
SEEDS = ["_make_contiguous_file", "_make_indexed_file", "_make_gathered_file",
         "_make_geometry_1_file", "_make_geometry_2_file", "_make_geometry_3_file", "_make_geometry_4_file",
         "_make_interior_ring_file", "_make_interior_ring_file_2", "_make_subsampled_1", "_make_ugrid_1",
         "_make_ugrid_2"]
_seed_funcs = None


def seed_funcs():
    """The dataset makers of the test suite, with every Dataset created as NETCDF4."""
    global _seed_funcs
    if _seed_funcs is None:
        import ast
        import netCDF4

        class NC:
            def __getattr__(self, k):
                return getattr(netCDF4, k)

            @staticmethod
            def Dataset(filename, mode="r", **kw):
                if mode.startswith("w"):
                    kw["format"] = "NETCDF4"
                return netCDF4.Dataset(filename, mode, **kw)

        src = (fw.REPO / "cfdm" / "test" / "create_test_files.py").read_text()
        tree = ast.parse(src)
        ns = dict(netCDF4=NC(), np=np, VN="1.11", os=os)
        _seed_funcs = {}
        for node in tree.body:
            if isinstance(node, ast.FunctionDef) and node.name in SEEDS:
                try:
                    exec(compile(ast.Module(body=[node], type_ignores=[]), "create_test_files.py", "exec"), ns)
                    _seed_funcs[node.name] = ns[node.name]
                except Exception:
                    pass
    return _seed_funcs


def gen_read(rng):
    kind = rng.choice(READ_KINDS)
    p = dict(kind=kind, gseed=rng.randrange(1 << 30), be=rng.choice([None, "netCDF4", "h5netcdf"]),
             fseed=rng.randrange(1 << 30), mask=rng.random() >= 0.12, unpack=rng.random() >= 0.15)
    if kind == "seed":
        p["seed"] = rng.choice(SEEDS)
    return p


def read_path(p):
    h = hashlib.sha1(json.dumps([p["kind"], p["gseed"], p.get("seed")]).encode()).hexdigest()[:12]
    return os.path.join(scratch(), f"r_{h}_{os.getpid()}.nc")


def build_file(p):
    """Create the dataset of a read case; returns (path, error-or-None)."""
    path = read_path(p)
    if os.path.exists(path):
        return path, None
    rng = fw.rng_for(p["gseed"], "C12.read", p["kind"])
    try:
        if p["kind"] == "cfwrite":
            from ..gen import fields as F
            C = cfdm()
            f = F.random_field(rng)
            C.write(f, path)
            del f
            # the writer's dataset object is only released by the cyclic collector
            gc.collect()
        elif p["kind"] == "seed":
            fn = seed_funcs().get(p["seed"])
            if fn is None:
                return path, "seed maker not loadable"
            cwd = os.getcwd()
            try:
                os.chdir(scratch())
                fn(path)
            finally:
                os.chdir(cwd)
        elif p["kind"] == "external":
            spec = G.gen_spec(rng, "external")
            G.write_spec(spec, path)
            for k, fs in enumerate(spec["ext_files"]):
                G.write_spec(fs, ext_path(path, k))
        else:
            G.write_spec(G.gen_spec(rng, p["kind"]), path)
    except Exception as e:
        if os.path.exists(path):
            os.remove(path)
        return path, "not generated: " + repr(e)[:120]
    return path, None


def ext_path(path, k):
    return f"{path}.x{k}.nc"


def external_plan(p, path):
    """(list for cfdm.read(external=), model flags: one per distinct file, '1' = holds a named variable)"""
    if p["kind"] != "external":
        return None, None
    spec = G.gen_spec(fw.rng_for(p["gseed"], "C12.read", "external"), "external")
    lst = [ext_path(path, k) for k in spec["ext_list"]]
    flags = "".join("1" if spec["ext_files"][k]["held"] else "0" for k in sorted(set(spec["ext_list"])))
    return lst, flags or "-"


def mk_read(p):
    p = dict(p)
    path, err = build_file(p)
    line = None
    tags = ["read:" + p["kind"], "read:be=" + str(p["be"])]
    nontrivial = False
    if err is None:
        try:
            roles = G.infer_roles(path)
        except Exception as e:
            roles = None
            err = "roles: " + repr(e)[:100]
        if roles:
            names = sorted(roles)
            line = f"C12.read be={be_name(p['be'])} vars=" + ";".join(
                f"{k}:{enc_shape(roles[n][0])}:{roles[n][1]}" for k, n in enumerate(names))
            _, flags = external_plan(p, path)
            if flags is not None:
                line += f" ext={flags}"
                tags.append("read:external-files=" + str(0 if flags == "-" else len(flags)))
                if "0" in flags:
                    tags.append("read:external-file-without-wanted-variable")
            if any(n.startswith("/") for n in names):
                line += " grp=1"
            nontrivial = len(names) >= 2
            tags += sorted({"role:" + r for _, r in roles.values()})
    if err:
        tags.append("read:skipped")
    p.setdefault("mask", True)
    p.setdefault("unpack", True)
    if not p["mask"]:
        tags.append("read:mask=False")
    if not p["unpack"]:
        tags.append("read:unpack=False")
    key = json.dumps([p["kind"], p["gseed"], p.get("seed"), p["be"], p["fseed"], p["mask"], p["unpack"]])
    return Case("C12.read", p, line, key=key, nontrivial=nontrivial, tags=tags)


def walk_data(f):
    """(ncvar, Data) for the field data, every construct's data, bounds, interior ring and the count /
    index / list variables of compressed arrays."""
    out = []

    def comp(d, ncvar):
        out.append((ncvar, d))
        try:
            ct = d.get_compression_type()
        except Exception:
            ct = ""
        if ct:
            src = d.source(None)
            for m in ("get_count", "get_index", "get_list"):
                try:
                    x = getattr(src, m)()
                except Exception:
                    continue
                try:
                    nv = x.nc_get_variable(None)
                    xd = x.get_data(None)
                except Exception:
                    continue
                if nv is not None and xd is not None:
                    out.append((nv, xd))

    d = f.get_data(None) if hasattr(f, "get_data") else None
    if d is not None:
        comp(d, f.nc_get_variable(None))
    for k, c in f.constructs.filter_by_data(todict=True).items():
        d = c.get_data(None)
        if d is not None:
            comp(d, c.nc_get_variable(None))
        b = c.get_bounds(None) if hasattr(c, "get_bounds") else None
        if b is not None and b.get_data(None) is not None:
            comp(b.get_data(None), b.nc_get_variable(None))
        r = c.get_interior_ring(None) if hasattr(c, "get_interior_ring") else None
        if r is not None and r.get_data(None) is not None:
            comp(r.get_data(None), r.nc_get_variable(None))
    return out


def residency(d):
    """'D' when the variable's own values are still only in the file (following Data.source() /
    CompressedArray.source() down to the array that holds them), else 'M'."""
    x = d
    for _ in range(8):
        if isinstance(x, file_array_types()):
            return "D"
        src = getattr(x, "source", None)
        if src is None:
            return "M"
        try:
            nxt = src(None)
        except TypeError:
            try:
                nxt = src()
            except Exception:
                return "M"
        except Exception:
            return "M"
        if nxt is None or nxt is x:
            return "M"
        x = nxt
    return "M"


def open_paths(prefix):
    out = []
    for x in os.listdir("/proc/self/fd"):
        try:
            t = os.readlink(f"/proc/self/fd/{x}")
        except OSError:
            continue
        if t.startswith(prefix):
            out.append(os.path.basename(t))
    return sorted(out)


def read_one(path, be, roles, mask=True, unpack=True, external=None):
    """cfdm.read under one backend: fields, per-variable residency, fetch log, descriptor delta."""
    C = cfdm()
    LOG.clear()
    n0 = nfd()
    if external is None:
        fs = C.read(path, netcdf_backend=be, mask=mask, unpack=unpack)
    else:
        fs = C.read(path, netcdf_backend=be, mask=mask, unpack=unpack, external=external)
    fd = nfd() - n0
    log = {}
    for (fn, addr, ind, shp) in LOG:
        log.setdefault(addr, set()).update(elements(positions(ind, shp)))
    LOG.clear()
    res = {}
    for f in fs:
        for nv, d in walk_data(f):
            if nv is None:
                continue
            r = residency(d)
            if res.get(nv) != "M":
                res[nv] = r
    return fs, res, log, fd


def impl_read(c):
    gc.collect()  # whatever earlier cases left to the cyclic collector goes now, not in the middle of this case
    was = gc.isenabled()
    gc.disable()
    try:
        return _impl_read(c)
    finally:
        if was:
            gc.enable()


def _impl_read(c):
    C = cfdm()
    p = c.payload
    path, err = build_file(p)
    c.extra = dict(skip=err)
    if err:
        return "skipped"
    try:
        roles = G.infer_roles(path)
        names = sorted(roles)
        c.extra["roles"] = {n: [list(roles[n][0]), roles[n][1]] for n in names}
        out = None
        per = {}
        fields = {}
        for be in [p["be"]] + [b for b in (None, "netCDF4", "h5netcdf") if b != p["be"]]:
            try:
                ext_list, _ = external_plan(p, path)
                fs, res, log, fd = read_one(path, be, roles, p.get("mask", True), p.get("unpack", True), ext_list)
            except Exception as e:
                per[str(be)] = dict(error=exc_name(e) + " " + str(e)[:80])
                if be == p["be"]:
                    out = exc_name(e)
                del e
                # harness hygiene: a failed read may leave its dataset to the cyclic collector; release it
                # before the file is removed (HDF5 identifies open files by inode)
                gc.collect()
                continue
            fields[be] = fs
            per[str(be)] = dict(res=res, log={k: sorted(v) for k, v in log.items()}, fd=fd, n=len(fs))
            if fd:
                per[str(be)]["still_open"] = open_paths(path)
            if ext_list is not None:
                # every data access after a read with external files: descriptors back to the level before the read
                acc = []
                base_acc = nfd() - fd
                for f in fs:
                    todo = [("data of " + str(f.nc_get_variable(None)), f)]
                    todo += [("cell measure " + str(m.nc_get_variable(None)), m)
                             for m in f.cell_measures(todict=True).values() if m.has_data()]
                    for what, x in todo:
                        try:
                            x.array
                        except Exception as e:
                            acc.append(f"{what}: array raised {exc_name(e)}")
                            del e
                        d = nfd() - base_acc
                        if d:
                            acc.append(f"after the {what} was accessed {d} descriptor(s) are open: {open_paths(path)}")
                            break
                per[str(be)]["acc"] = acc
                LOG.clear()
            if be == p["be"]:
                # a variable from which no returned construct was built has no observable residency
                # … nor has one that was fetched in full while reading but is held by no reachable construct
                def full(n):
                    shp = roles[n][0]
                    return n in log and len(log[n]) == (int(np.prod(shp)) if shp else 1) and len(log[n]) > 0
                st = ",".join(f"{k}:{'?' if (res.get(n) == 'D' and full(n) and roles[n][1] in ('connT', 'connS', 'conn')) else res.get(n, '?')}"
                              for k, n in enumerate(names))
                ents = []
                for nv in sorted(log):
                    if nv in names:
                        k = names.index(nv)
                        shape = roles[nv][0]
                        # element set as one fetch per element row is verbose: print as element list
                        ents.append((k, sorted(log[nv])))
                c.extra["log_main"] = ents
                out = f"st={st} log={fmt_elem_log(ents)} h={fd}"
        c.extra["per"] = per
        if not fields:
            # no backend can read this dataset at all (C01 / C13 territory): nothing for this property to compare
            c.extra["skip"] = "unreadable by every backend: " + "; ".join(sorted({r.get("error", "") for r in per.values()}))[:200]
            return "skipped"
        # ---- cross-backend comparison and field histories (for the oracle)
        c.extra["cmp"] = compare_backends(fields)
        c.extra["ref"] = (compare_reference(path, fields.get(p["be"]), roles)
                          if p.get("mask", True) and p.get("unpack", True) else [])
        if p["be"] in fields:
            c.extra["fh"] = field_history(C, fields[p["be"]], p, roles)
        return out
    finally:
        import glob
        for q in [path] + glob.glob(path + ".x*.nc"):
            try:
                os.remove(q)
            except OSError:
                pass


def fmt_elem_log(ents):
    if not ents:
        return "none"
    return "+".join(f"0.{k}#" + "/".join(",".join(map(str, e)) if e else "-" for e in els) for k, els in ents)


def parse_elem_log(s):
    out = {}
    if s == "none":
        return out
    for ent in s.split("+"):
        var, els = ent.split("#")
        out[var] = {tuple(int(x) for x in e.split(",")) if e != "-" else () for e in els.split("/")}
    return out


def agree_read(c):
    a, b = c.impl_out, c.model_out
    if a is None or b is None:
        return False
    if a == "skipped":
        return True
    ma = re.match(r"^st=(\S*) log=(\S+) h=(-?\d+)$", a)
    mb = re.match(r"^st=(\S*) log=(\S+) h=(-?\d+)$", b)
    if not ma or not mb:
        return False
    if ma.group(3) != mb.group(3):
        return False
    sa, sb = ma.group(1).split(","), mb.group(1).split(",")
    if len(sa) != len(sb) or any(x != y and not x.endswith("?") for x, y in zip(sa, sb)):
        return False
    la = parse_elem_log(ma.group(2))
    lb = parse_fetches(mb.group(2))
    for var, el in la.items():
        if not el <= lb.get(var, set()):
            return False
    return True


def compare_backends(fields):
    """Independent fingerprint (values, mask, dtype, fill value, properties) + cfdm equals, pairwise."""
    from .. import fingerprint as FP
    out = []
    fps = {}
    errs = {}
    for be, fs in fields.items():
        try:
            fps[be] = sorted(FP.fp_str(f) for f in fs)
        except Exception as e:
            errs[be] = f"backend {be}: realising the data raised {exc_name(e)}: {str(e)[:60]}"
            del e
            gc.collect()
    if errs and fps:
        # some backends deliver the data, others cannot
        out += list(errs.values())
    elif errs:
        # no backend can realise these data (e.g. a non-standardised interpolation): nothing to compare
        return []
    bes = list(fps)
    for x, y in zip(bes, bes[1:]):
        if fps[x] != fps[y]:
            d = "?"
            try:
                for s, t in zip(fps[x], fps[y]):
                    if s != t:
                        d = "; ".join(FP.diff(json.loads(s), json.loads(t))[:2])
                        break
            except Exception:
                pass
            out.append(f"backends {x} and {y} give different constructs/data: {d[:200]}")
    keyf = lambda f: (str(f.nc_get_variable(None)), repr(f.shape) if hasattr(f, "shape") else "")
    for x, y in zip(bes, bes[1:]):
        if None in (x, y) and len(bes) > 2:
            continue  # the default backend is compared by fingerprint; equals runs between the two named backends
        fx = sorted(fields[x], key=keyf)
        fy = sorted(fields[y], key=keyf)
        if len(fx) != len(fy):
            out.append(f"backends {x} and {y} return {len(fx)} and {len(fy)} fields")
            continue
        for f, g in zip(fx, fy):
            try:
                if not (f.equals(g) and g.equals(f)):
                    out.append(f"{f.nc_get_variable(None)}: equals is False between backends {x} and {y}")
            except Exception as e:
                out.append(f"{f.nc_get_variable(None)}: equals between backends {x} and {y} raised {exc_name(e)}")
                del e
                gc.collect()
            gc.collect()
    return out


def compare_reference(path, fs, roles):
    """Uncompressed numeric/string variables against netCDF4-python (auto mask and scale)."""
    if fs is None:
        return []
    out = []
    try:
        ref = G.reference(path)
    except Exception:
        return []
    for f in fs:
        for nv, d in walk_data(f):
            if nv not in ref or nv not in roles or isinstance(ref[nv], Exception):
                continue
            if roles[nv][1] in ("sample", "nodesFlat", "connT", "connS", "conn", "count", "index", "listVar"):
                if d.get_compression_type() or roles[nv][1] in ("nodesFlat", "connT", "connS", "conn"):
                    continue
            try:
                if d.get_compression_type():
                    continue
                a = np.ma.asanyarray(d.array)
            except Exception as e:
                out.append(f"{nv}: array raised {exc_name(e)}")
                del e
                gc.collect()
                continue
            r = np.ma.asanyarray(ref[nv])
            if roles[nv][1] in ("scalarCoord", "scalarBounds") and a.ndim == r.ndim + 1:
                a = a[0]
            if a.shape != r.shape:
                out.append(f"{nv}: shape {a.shape} != netCDF4 {r.shape}")
                continue
            ma, mr = np.ma.getmaskarray(a), np.ma.getmaskarray(r)
            if (ma != mr).any():
                out.append(f"{nv}: mask differs from netCDF4-python")
                continue
            da, dr = np.ma.getdata(a), np.ma.getdata(r)
            if da.dtype.kind in "SUO" or dr.dtype.kind in "SUO":
                same = (da.astype(str)[~ma] == dr.astype(str)[~mr]).all()
            else:
                same = bool(np.array_equal(da[~ma], dr[~mr]))
                if same and da.dtype != dr.dtype and not (da.dtype.kind == dr.dtype.kind == "f"):
                    out.append(f"{nv}: dtype {da.dtype} != netCDF4 {dr.dtype}")
            if not same:
                out.append(f"{nv}: values differ from netCDF4-python")
    return out


def _plain(d):
    return isinstance(d.source(None), file_array_types())


def field_history(C, fs, p, roles):
    """Field-level interleaving of copy / print / subspace / to_memory / equals; returns the failures
    of the property's rules (fetch only what is inspected, descriptors, lazy == eager)."""
    from .. import fingerprint as FP
    fails = []
    rng = fw.rng_for(p["fseed"], "C12.fh")
    base = nfd()

    state = dict(base=base)

    def check_fd(what):
        d = nfd() - state["base"]
        if d:
            fails.append(f"{what}: {d} descriptor(s) left open")
            settle()

    def settle():
        # harness hygiene after a failure: release what the failed call left to the collector, start afresh
        gc.collect()
        state["base"] = nfd()

    def fetched():
        out = {}
        for (fn, addr, ind, shp) in LOG:
            out.setdefault(addr, set()).update(elements(positions(ind, shp)))
        LOG.clear()
        return out

    for f in fs[: (2 if rng.random() < 0.3 else 1)]:
        name = f.nc_get_variable(None)
        try:
            FP.fp_str(f)
        except Exception:
            # eager access itself fails (reported by the backend comparison when it is one-sided)
            settle()
            LOG.clear()
            continue
        LOG.clear()
        plain = {nv: d for nv, d in walk_data(f) if nv is not None and _plain(d)
                 and roles.get(nv, (None, "?"))[1] in ("data", "coord", "bounds", "measure")}
        shapes = {nv: tuple(d.shape) for nv, d in plain.items()}
        LOG.clear()
        # -- copy, construct selection, metadata: nothing is inspected
        try:
            g = f.copy()
            _ = f.constructs.filter_by_type("dimension_coordinate", "auxiliary_coordinate", todict=True)
            _ = [c.identity() for c in f.constructs.filter_by_data(todict=True).values()]
            _ = (f.shape, f.dtype, f.ndim, f.get_filenames())
            _ = repr(f)
        except Exception as e:
            fails.append(f"{name}: copy/selection/repr raised {exc_name(e)}")
            del e
            settle()
            continue
        got = fetched()
        if got:
            fails.append(f"{name}: copy / construct selection / repr fetched data of {sorted(got)}")
        check_fd(f"{name}: copy")
        # -- str and dump show first/last(/middle) elements only
        for what, fn in (("str", lambda: str(f)), ("dump", lambda: f.dump(display=False))):
            try:
                fn()
            except Exception as e:
                fails.append(f"{name}: {what} raised {exc_name(e)}")
                del e
                settle()
                LOG.clear()
                continue
            got = fetched()
            for nv, el in got.items():
                if nv in shapes:
                    shp = shapes[nv]
                    size = int(np.prod(shp)) if shp else 1
                    ok = {_unravel(shp, 0), _unravel(shp, size - 1)} if size else set()
                    if size > 1:
                        ok.add(_unravel(shp, 1))
                    if not el <= ok:
                        fails.append(f"{name}: {what} fetched {len(el - ok)} element(s) of {nv} that it does not show")
            check_fd(f"{name}: {what}")
        # -- subspace: lazily, and of a copy brought into memory first
        try:
            mem = f.copy()
            mem.to_memory(inplace=True) if hasattr(mem, "to_memory") else None
            for c in mem.constructs.filter_by_data(todict=True).values():
                if hasattr(c, "to_memory"):
                    c.to_memory(inplace=True)
                else:
                    c.data.to_memory(inplace=True)
        except Exception as e:
            fails.append(f"{name}: to_memory raised {exc_name(e)}: {str(e)[:60]}")
            del e
            settle()
            LOG.clear()
            continue
        LOG.clear()
        check_fd(f"{name}: to_memory")
        # nothing of the in-memory copy may touch the file again
        try:
            fm = FP.fp_str(mem)
            got = fetched()
            if got:
                fails.append(f"{name}: data brought into memory fetched again from {sorted(got)}")
            ff = FP.fp_str(f)
            LOG.clear()
            if fm != ff:
                d = "; ".join(FP.diff(json.loads(ff), json.loads(fm))[:2])
                fails.append(f"{name}: to_memory changed the construct: {d[:160]}")
            if not (mem.equals(f) and f.equals(mem)):
                fails.append(f"{name}: to_memory changed equality")
            LOG.clear()
        except Exception as e:
            fails.append(f"{name}: comparing lazy and in-memory copies raised {exc_name(e)}: {str(e)[:60]}")
            del e
            settle()
            LOG.clear()
        check_fd(f"{name}: equals")
        shape = list(f.shape) if f.get_data(None) is not None else []
        if shape and all(n > 0 for n in shape):
            for _ in range(1):
                ix = _safe_index(rng, shape, p["be"])
                if p["be"] == "h5netcdf" and h5_unsafe(ix, shape):
                    continue
                pos = IX.expand(ix, shape)
                if any(len(q) == 0 for q in pos):
                    continue
                LOG.clear()
                try:
                    h1 = f[IX.py_ix(ix)]
                    got = fetched()
                    h2 = mem[IX.py_ix(ix)]
                    got2 = fetched()
                except Exception as e:
                    fails.append(f"{name}: subspace {IX.enc_ix(ix)} raised {exc_name(e)}: {str(e)[:60]}")
                    del e
                    settle()
                    LOG.clear()
                    continue
                if got2:
                    fails.append(f"{name}: subspace of in-memory data fetched from {sorted(got2)}")
                # the field's own data variable: only the requested part
                dn = f.nc_get_variable(None)
                if dn in got and dn in plain and tuple(shapes[dn]) == tuple(shape):
                    extra = got[dn] - elements(pos)
                    if extra:
                        fails.append(f"{name}: subspace {IX.enc_ix(ix)} fetched {len(extra)} element(s) of {dn} outside the part")
                # every uncompressed metadata construct: only the part that goes with the selected cells
                try:
                    data_axes = list(f.get_data_axes())
                    caxes = f.constructs.data_axes()
                    for key, con in f.constructs.filter_by_data(todict=True).items():
                        for what, comp in (("", con), ("bounds", con.get_bounds(None) if hasattr(con, "get_bounds") else None)):
                            if comp is None or comp.get_data(None) is None:
                                continue
                            nv = comp.nc_get_variable(None)
                            if nv not in got or nv not in plain or nv == dn:
                                continue
                            axes = caxes.get(key, ())
                            cshape = shapes[nv]
                            part = [pos[data_axes.index(a)] if a in data_axes else list(range(cshape[i]))
                                    for i, a in enumerate(axes)]
                            part += [list(range(n)) for n in cshape[len(part):]]  # trailing (bounds) dimensions
                            if len(part) != len(cshape):
                                continue
                            extra = got[nv] - elements(part)
                            if extra:
                                fails.append(f"{name}: subspace {IX.enc_ix(ix)} fetched {len(extra)} element(s) of {nv} outside the part")
                except Exception as e:
                    fails.append(f"{name}: harness could not relate the constructs to the data axes: {exc_name(e)}")
                    del e
                try:
                    a1, a2 = FP.fp_str(h1), FP.fp_str(h2)
                    LOG.clear()
                    if a1 != a2:
                        d = "; ".join(FP.diff(json.loads(a1), json.loads(a2))[:2])
                        fails.append(f"{name}: subspace {IX.enc_ix(ix)} then realise differs from realise then subspace: {d[:160]}")
                except Exception as e:
                    fails.append(f"{name}: realising subspace {IX.enc_ix(ix)} raised {exc_name(e)}")
                    del e
                    settle()
                    LOG.clear()
                check_fd(f"{name}: subspace")
        # the original is still lazy where it was lazy
        del g, mem
    return fails


def oracle_read(c):
    ex = c.extra or {}
    p = c.payload
    if ex.get("skip"):
        return None
    if "per" not in ex:
        return "read stream did not complete: " + str(c.impl_out)
    roles = {k: (tuple(v[0]), v[1]) for k, v in ex["roles"].items()}
    fails = []
    for be, r in ex["per"].items():
        if "error" in r:
            fails.append(f"read with netcdf_backend={be} raised {r['error']}")
            continue
        if r["fd"] != 0:
            fails.append(f"read with netcdf_backend={be} left {r['fd']} descriptor(s) open {r.get('still_open', '')}")
        fails += [f"read({be}) with external files: {a}" for a in r.get("acc", [])]
        inmem = set()
        for nv, st in r["res"].items():
            if st == "M" and nv in roles and roles[nv][1] not in ("scalarCoord", "scalarBounds"):
                inmem.add(nv)
                fails.append(f"read({be}) brought {nv} [{roles[nv][1]}] into memory")
        for nv in r["log"]:
            if nv in roles and roles[nv][1] not in ("scalarCoord", "scalarBounds", "count", "index"):
                if nv in inmem:
                    continue  # reported above
                if roles[nv][1] in ("nodesFlat", "connT", "connS"):
                    fails.append(f"read({be}) brought {nv} [{roles[nv][1]}] into memory (and dropped it)")
                else:
                    fails.append(f"read({be}) fetched values of {nv} [{roles[nv][1]}]")
    fails += ex.get("cmp", [])
    fails += ex.get("ref", [])
    fails += ex.get("fh", [])
    if fails:
        c.extra["fails"] = fails
        return "; ".join(fails[:3])[:600]
    return None


# ================================================================ C12.err
ERR_KINDS = ["gone", "gone", "garbage", "truncated", "badbackend", "missing", "classic-h5", "badindex", "directory",
             "readraises", "readraises"]


def gen_err(rng):
    return dict(kind=rng.choice(ERR_KINDS), be=rng.choice([None, "netCDF4", "h5netcdf"]), eseed=rng.randrange(1 << 30))


def mk_err(p):
    p = dict(p)
    key = json.dumps([p["kind"], p["be"], p["eseed"]])
    return Case("C12.err", p, None, key=key, nontrivial=True, tags=["err:" + p["kind"], "err:be=" + str(p["be"])])


def impl_err(c):
    import netCDF4
    C = cfdm()
    p = c.payload
    rng = fw.rng_for(p["eseed"], "C12.err")
    fails = []
    path = os.path.join(scratch(), f"e_{p['eseed']}_{os.getpid()}.nc")

    def write_good(fmt="NETCDF4"):
        ds = netCDF4.Dataset(path, "w", format=fmt)
        ds.createDimension("x", 4)
        ds.createDimension("y", 3)
        v = ds.createVariable("v", "i4", ("x", "y"))
        v.long_name = "v"
        v[...] = np.arange(12).reshape(4, 3)
        x = ds.createVariable("x", "f8", ("x",))
        x.standard_name = "longitude"
        x.units = "degrees_east"
        x[:] = [1, 2, 3, 4]
        ds.close()

    def attempt(fn):
        try:
            fn()
            return "ok"
        except Exception as e:
            r = exc_name(e)
            del e
            return r

    gc.collect()
    gc_was = gc.isenabled()
    gc.disable()  # descriptors must be released when the call ends, not whenever the cyclic collector runs
    base = nfd()
    out = []
    try:
        k = p["kind"]
        if k == "readraises":
            # a dataset that every backend opens but the reader then rejects: a string-valued scalar coordinate
            # variable named twice by `coordinates` (what cfdm.write itself produces for some fields)
            ds = netCDF4.Dataset(path, "w", format="NETCDF4")
            ds.createDimension("x", 3)
            v = ds.createVariable("v", "f4", ("x",))
            v.standard_name = "air_temperature"
            v.coordinates = "sc sc"
            v[...] = [1, 2, 3]
            # (a char array, not a 0-d variable-length string: since repair af409d0 the reader no longer rejects
            #  this dataset and would fetch the 0-d vlen string twice, which crashes libnetcdf/HDF5 in this
            #  environment - a library fault, reproduced with netCDF4-python alone)
            ds.createDimension("strlen3", 3)
            sc = ds.createVariable("sc", "S1", ("strlen3",))
            sc.long_name = "station"
            sc[...] = np.array(list("abc"), dtype="S1")
            ds.close()
            for be in (p["be"], None, "netCDF4", "h5netcdf"):
                r = attempt(lambda: C.read(path, netcdf_backend=be))
                out.append(f"read({be}):{r}")
                if r == "ok":
                    # the reader copes with this dataset now: nothing raised, nothing to check
                    continue
                if nfd() != base:
                    fails.append(f"read({be}) raised {r} and left {nfd() - base} descriptor(s) open")
                    gc.collect()
                    break
        elif k == "gone":
            write_good()
            f = C.read(path, netcdf_backend=p["be"])[0]
            moved = path + ".moved"
            os.rename(path, moved)
            for what, fn in (("array", lambda: f.data.array), ("subspace", lambda: f.data[0, 1].array),
                             ("first", lambda: f.data.first_element()), ("coord", lambda: f.dimension_coordinate().array),
                             ("equals", lambda: f.equals(f.copy())), ("to_memory", lambda: f.data.to_memory())):
                r = attempt(fn)
                out.append(f"{what}:{r}")
                if r == "ok" and what != "equals":
                    fails.append(f"{what} of data whose file is gone did not raise")
                if nfd() != base:
                    fails.append(f"{what} after the file has gone: {nfd() - base} descriptor(s) left open")
            if _state(f.data) != "D":
                fails.append("failed access changed the data object")
            os.rename(moved, path)
            r = attempt(lambda: f.data.array)
            if r != "ok":
                fails.append("access still fails after the file is back: " + r)
            elif f.data.array.tolist() != np.arange(12).reshape(4, 3).tolist():
                fails.append("wrong values after the file is back")
        elif k in ("garbage", "truncated", "directory", "missing"):
            if k == "garbage":
                open(path, "wb").write(bytes(rng.randrange(256) for _ in range(rng.randint(0, 300))))
            elif k == "truncated":
                write_good()
                raw = open(path, "rb").read()
                open(path, "wb").write(raw[: rng.randint(1, max(2, len(raw) - 1))])
            elif k == "directory":
                path = scratch()
            else:
                path = path + ".absent"
            for be in (p["be"], None, "netCDF4", "h5netcdf"):
                r = attempt(lambda: C.read(path, netcdf_backend=be))
                out.append(f"read({be}):{r}")
                if nfd() != base:
                    fails.append(f"read({be}) of a {k} file: {nfd() - base} descriptor(s) left open")
                    break
        elif k == "badbackend":
            write_good()
            for be in ("scipy", "", 3):
                r = attempt(lambda: C.read(path, netcdf_backend=be))
                out.append(f"read({be!r}):{r}")
                if r == "ok":
                    fails.append(f"unknown backend {be!r} accepted")
                if nfd() != base:
                    fails.append(f"read with unknown backend {be!r}: {nfd() - base} descriptor(s) left open")
        elif k == "classic-h5":
            write_good(rng.choice(["NETCDF3_CLASSIC", "NETCDF3_64BIT_OFFSET"]))
            r = attempt(lambda: C.read(path, netcdf_backend="h5netcdf"))
            out.append("h5:" + r)
            if nfd() != base:
                fails.append(f"h5netcdf read of a classic file: {nfd() - base} descriptor(s) left open")
            r = attempt(lambda: C.read(path, netcdf_backend=p["be"] if p["be"] != "h5netcdf" else None)[0].data.array)
            out.append("nc:" + r)
            if r != "ok":
                fails.append("classic file not readable with the netCDF4 / default backend: " + r)
            if nfd() != base:
                fails.append(f"read of a classic file: {nfd() - base} descriptor(s) left open")
        elif k == "badindex":
            write_good()
            f = C.read(path, netcdf_backend=p["be"])[0]
            d = f.data
            LOG.clear()
            for ix in ((0, 0, 0), ([0, 9],), (slice(None), [1, 7]), (np.array([True, False]),), (slice(None, None, 0),)):
                r = attempt(lambda: d[ix].array)
                out.append(f"{ix!r}:{r}"[:40])
                if r == "ok":
                    fails.append(f"malformed index {ix!r} accepted")
                if nfd() != base:
                    fails.append(f"malformed index {ix!r}: {nfd() - base} descriptor(s) left open")
            if _state(d) != "D":
                fails.append("failed subspace changed the data object")
            if d.array.tolist() != np.arange(12).reshape(4, 3).tolist():
                fails.append("wrong values after failed subspaces")
            if nfd() != base:
                fails.append("descriptor left open after the final access")
            LOG.clear()
    finally:
        gc.collect()
        if gc_was:
            gc.enable()
        for q in (path, path + ".moved"):
            if os.path.isfile(q):
                try:
                    os.remove(q)
                except OSError:
                    pass
    c.extra = dict(fails=fails)
    return ";".join(out)



# ================================================================ C12.vs
# `_variable_subspace` / `_index` of netcdf_indexer: strided, reversed, unsorted and repeated subspaces of lazily
# read data AND of lazily read coordinates with bounds, on both backends, partial access (subspace, then
# realise) against whole-array access.
def gen_vs_axis(rng, n):
    r = rng.random()
    if r < 0.42:
        step = -rng.choice([1, 2, 2, 3, 3, 3, 4, 4, 5, 5, n + 1])
        if rng.random() < 0.75:
            # bounds that leave something to select, so that every residue of (start - stop - 1) mod |step| turns up
            start = rng.choice([None, rng.randint(n // 2, n + 2), rng.randint(-max(1, n // 2), -1)])
            stop = rng.choice([None, rng.randint(0, max(0, n // 2)), rng.randint(-n - 2, -n + n // 2)])
        else:
            start = rng.choice([None, rng.randint(-n, n + 2)])
            stop = rng.choice([None, rng.randint(-n - 2, n + 2)])
        return ("s", start, stop, step)
    if r < 0.55:
        step = rng.choice([None, 1, 2, 3, n + 1])
        return ("s", rng.choice([None, rng.randint(-n - 2, n + 2)]), rng.choice([None, rng.randint(-n - 2, n + 2)]), step)
    if r < 0.84:
        m = rng.randint(2, min(7, n + 3))
        q = rng.random()
        if q < 0.2:
            l = sorted(rng.sample(range(n), min(m, n)))
        elif q < 0.4:
            l = sorted(rng.sample(range(n), min(m, n)), reverse=True)
        elif q < 0.7:
            l = [rng.randint(-n, n - 1) for _ in range(m)]
        else:
            base = [rng.randint(-n, n - 1) for _ in range(max(1, m // 2))]
            l = [rng.choice(base) for _ in range(m)]
        if len(l) == 1:
            l = l * 2
        return ("l", l)
    if r < 0.91:
        bs = [rng.random() < 0.5 for _ in range(n)]
        if not any(bs):
            bs[rng.randrange(n)] = True
        return ("b", bs)
    if r < 0.96:
        return ("i", rng.randint(-n, n - 1))
    return ("s", None, None, None)


def gen_vs(rng):
    nd = rng.choice([1, 1, 1, 2, 2, 3])
    top = {1: 13, 2: 7, 3: 4}[nd]
    shape = [rng.randint(1, top) for _ in range(nd)]
    ix = [gen_vs_axis(rng, n) for n in shape]
    be = rng.choice(["h5netcdf", "h5netcdf", "h5netcdf", "netCDF4", None])
    return dict(shape=shape, ix=[list(t) for t in ix], be=be, mode=rng.choice(["field", "field", "parts"]))


def _vs_reversed(t, n):
    """Independent restatement of the 2-vertex bounds rule: the vertex axis is flipped when the cells are
    selected in descending order (negative slice step; a sequence whose last entry lies before its first)."""
    if t[0] == "s":
        return t[3] is not None and t[3] < 0
    if t[0] == "l" and len(t[1]) > 1:
        return t[1][-1] % n < t[1][0] % n
    if t[0] == "b":
        return False
    return False


def mk_vs(p):
    p = json.loads(json.dumps(p))
    ix = norm_ix(p["ix"])
    p["ix"] = [list(t) for t in ix]
    shape = p["shape"]
    pos = IX.expand(ix, shape)
    if p["mode"] == "field" and any(len(q) == 0 for q in pos):
        p["mode"] = "parts"  # Field.__getitem__ refuses an empty subspace by design
    line = f"C12.vs be={be_name(p['be'])} shape={enc_shape(shape)} ix={IX.enc_ix(ix)}"
    tags = ["vs:be=" + str(p["be"]), "vs:mode=" + p["mode"], f"vs:rank={len(shape)}"]
    nl = 0
    for t, n, q in zip(ix, shape, pos):
        if t[0] == "s" and t[3] is not None and t[3] < 0:
            st = -t[3]
            if not q:
                tags.append("vs:neg-step-empty")
            else:
                a, b, _ = slice(t[1], t[2], t[3]).indices(n)
                tags.append(f"vs:neg-step-residue={(a - b - 1) % st}-of-{min(st, 6)}")
        elif t[0] in ("l", "b"):
            nl += 1
            if any(y == x for x, y in zip(q, q[1:])) or len(set(q)) < len(q):
                tags.append("vs:list-repeated")
            if any(y < x for x, y in zip(q, q[1:])):
                tags.append("vs:list-unsorted")
            if all(y > x for x, y in zip(q, q[1:])):
                tags.append("vs:list-increasing")
    tags.append(f"vs:list-axes={nl}")
    nontrivial = any(t[0] != "s" or t[1:] != (None, None, None) for t in ix)
    return Case("C12.vs", p, line, key=line + str(p["be"]) + p["mode"], nontrivial=nontrivial, tags=sorted(set(tags)))


def vs_file(shape):
    import netCDF4
    path = os.path.join(scratch(), f"h_vs_{enc_shape(shape)}_{os.getpid()}.nc")
    ds = netCDF4.Dataset(path, "w", format="NETCDF4")
    ds.createDimension("bnd2", 2)
    for k, n in enumerate(shape):
        ds.createDimension(f"d{k}", n)
        x = ds.createVariable(f"d{k}", "f8", (f"d{k}",))
        x.long_name = f"axis {k}"
        x.units = "1"
        x.bounds = f"d{k}_bnds"
        x[...] = np.arange(n, dtype="f8")
        b = ds.createVariable(f"d{k}_bnds", "f8", (f"d{k}", "bnd2"))
        b[...] = np.arange(2 * n, dtype="f8").reshape(n, 2)
    v = ds.createVariable("v", "i4", tuple(f"d{k}" for k in range(len(shape))))
    v.long_name = "data"
    v[...] = np.arange(int(np.prod(shape))).reshape(shape).astype("i4")
    ds.close()
    return path


def _fmt_arr(a):
    a = np.ma.asanyarray(a)
    if np.ma.is_masked(a):
        return "masked"
    return f"{fw.fmt_list(a.shape)}:{fw.fmt_list([int(x) for x in np.ma.getdata(a).flatten().tolist()])}"


def impl_vs(c):
    was = gc.isenabled()
    gc.disable()
    try:
        return _impl_vs(c)
    finally:
        if was:
            gc.enable()


def _impl_vs(c):
    C = cfdm()
    p = c.payload
    shape = p["shape"]
    nd = len(shape)
    ix = [tuple(t) for t in p["ix"]]
    path = vs_file(shape)
    base = nfd()
    LOG.clear()
    VLOG.clear()
    fs = C.read(path, netcdf_backend=p["be"])
    f = [g for g in fs if g.nc_get_variable(None) == "v"][0]
    del fs
    ex = dict(read_log=[(a, positions(i, s)) for (_, a, i, s) in LOG], read_fd=nfd() - base)
    c.extra = ex
    coords = [f.construct(f"ncvar%d{k}") for k in range(nd)]
    ex["read_states"] = [_state(f.data)] + [_state(x.data) for x in coords] + [_state(x.bounds.data) for x in coords]
    LOG.clear()
    VLOG.clear()
    py = IX.py_ix(ix)
    out = {}
    try:
        if p["mode"] == "field":
            g = f[py]
            parts = [g.data] + [g.construct(f"ncvar%d{k}") for k in range(nd)]
        else:
            # (a construct refuses an empty subspace by design, Data does not)
            pos_ = IX.expand(ix, shape)

            class _Shim:
                def __init__(self, d, b):
                    self.data = d
                    self.bounds = type("B", (), dict(data=b))()

            parts = [f.data[py]] + [coords[k][(py[k],)] if pos_[k] else
                                    _Shim(coords[k].data[(py[k],)], coords[k].bounds.data[(py[k],)]) for k in range(nd)]
    except Exception as e:
        ex["raised"] = exc_name(e)
        ex["fd"] = nfd() - base
        del e
        return ex["raised"]
    ex["fd_sub"] = nfd() - base
    ex["log"] = [(a, positions(i, s)) for (_, a, i, s) in LOG]
    first = {}
    for shp, key, nm in VLOG:
        if nm not in first:
            try:
                first[nm] = positions(key, shp)
            except Exception:
                first[nm] = None
    ex["vfirst"] = first
    ex["states_after"] = [_state(f.data)] + [_state(x.data) for x in coords]
    LOG.clear()

    def rd(nm):
        q = first.get(nm)
        return ";".join(_fmt_axis(a) for a in q) if q else "-"

    def real(fn):
        try:
            return _fmt_arr(fn())
        except Exception as e:
            r = exc_name(e)
            del e
            return r

    toks = [f"d={real(lambda: parts[0].array)} rd={rd('v')}"]
    for k in range(nd):
        ck = parts[1 + k]
        toks.append(f"c{k}={real(lambda: ck.data.array)} r{k}={rd(f'd{k}')} b{k}={real(lambda: ck.bounds.data.array)}")
    ex["post_log"] = [a for (_, a, i, s) in LOG]
    LOG.clear()
    # whole-array access, and access after the data have been brought into memory
    ex["whole"] = real(lambda: f.data.array)
    ex["whole_c"] = [real(lambda: coords[k].data.array) for k in range(nd)]
    ex["whole_b"] = [real(lambda: coords[k].bounds.data.array) for k in range(nd)]
    ex["mem"] = real(lambda: f.data.to_memory()[py].array)
    ex["mem_c"] = [real(lambda: coords[k].data.to_memory()[(py[k],)].array) for k in range(nd)]
    ex["fd"] = nfd() - base
    ex["states_end"] = [_state(f.data)] + [_state(x.data) for x in coords]
    return " ".join(toks)


def oracle_vs(c):
    p = c.payload
    ex = c.extra
    if not isinstance(ex, dict) or "read_log" not in ex:
        return "implementation failed before the subspace: " + str(c.impl_out)
    shape = p["shape"]
    nd = len(shape)
    ix = [tuple(t) for t in p["ix"]]
    if ex["read_log"]:
        return f"read fetched data of {sorted({a for a, _ in ex['read_log']})}"
    if ex["read_fd"]:
        return f"read left {ex['read_fd']} descriptor(s) open"
    if any(s != "D" for s in ex["read_states"]):
        return "read brought an array into memory"
    if "raised" in ex:
        return f"{ex['raised']} where eager access succeeds"
    if ex.get("fd_sub") or ex.get("fd"):
        return f"{ex.get('fd_sub') or ex.get('fd')} descriptor(s) left open"
    pos = IX.expand(ix, shape)
    whole = np.arange(int(np.prod(shape))).reshape(shape)
    m = re.match(r"^d=(\S+) rd=(\S+)(.*)$", c.impl_out or "")
    if not m:
        return "unexpected output " + str(c.impl_out)[:80]
    # ---- values: lazy subspace == eager subspace == subspace of the data in memory
    exp = _fmt_arr(_np_take(whole, pos))
    if m.group(1) != exp:
        return f"subspace then realise gives {m.group(1)[:80]}, realise then subspace {exp[:80]}"
    if ex["whole"] != _fmt_arr(whole):
        return "whole-array access returns other values than the file holds"
    if ex["mem"] != exp:
        return f"to_memory changed a later subspace: {ex['mem'][:80]} instead of {exp[:80]}"
    rest = m.group(3).split()
    if len(rest) != 3 * nd:
        return "unexpected output " + str(c.impl_out)[:80]
    for k in range(nd):
        n = shape[k]
        cexp = _fmt_arr(np.array(pos[k]))
        got = rest[3 * k].split("=", 1)[1]
        if got != cexp:
            return f"coordinate d{k}: subspace then realise gives {got[:60]}, expected {cexp[:60]}"
        rows = np.arange(2 * n).reshape(n, 2)[pos[k]] if pos[k] else np.zeros((0, 2), dtype=int)
        if _vs_reversed(ix[k], n) or (p["mode"] == "field" and False):
            rows = rows[:, ::-1]
        bexp = _fmt_arr(rows)
        got = rest[3 * k + 2].split("=", 1)[1]
        if got != bexp:
            return f"bounds of d{k}: subspace then realise gives {got[:60]}, expected {bexp[:60]}"
        if ex["whole_c"][k] != _fmt_arr(np.arange(n)) or ex["whole_b"][k] != _fmt_arr(np.arange(2 * n).reshape(n, 2)):
            return f"whole-array access to coordinate d{k} or its bounds returns other values than the file holds"
        if ex["mem_c"][k] != cexp:
            return f"to_memory changed a later subspace of coordinate d{k}"
    # ---- fetch rules at the level of the file arrays: only the part concerned, only while subspacing
    want = {"v": elements(pos)}
    for k in range(nd):
        want[f"d{k}"] = elements([pos[k]])
        want[f"d{k}_bnds"] = elements([pos[k], [0, 1]])
    for addr, q in ex["log"]:
        if addr not in want:
            return f"subspace fetched from {addr}"
        extra = elements(q) - want[addr]
        if extra:
            return f"subspace fetched {len(extra)} element(s) of {addr} outside the part concerned"
    if ex["post_log"]:
        return f"realising the subspace fetched again from {sorted(set(ex['post_log']))}"
    # ---- and at the level of the library variable: nothing but the requested elements comes off the disk
    # (with two or more list axes on h5py all but one list axis are read in full by design: C12_backend_reads_superset)
    nlist = sum(1 for t in ix if t[0] in ("l", "b") and len(IX.expand([t], [shape[ix.index(t)]])[0]) != 1)
    vf = ex.get("vfirst", {})
    for nm, el in want.items():
        q = vf.get(nm)
        if q is None:
            continue
        if nm == "v" and nlist >= 2 and p["be"] == "h5netcdf":
            continue
        extra = elements(q) - el
        if extra:
            return f"the library was asked for {len(extra)} element(s) of {nm} outside the part concerned"
    if any(s != "D" for s in ex["states_end"]):
        return "the original data were brought into memory by a subspace"
    return None


# ================================================================ C12.dtype / C12.promote
DTS = ["i1", "i2", "i4", "i8", "u1", "u2", "u4", "u8", "f4", "f8"]
DT_ROLES = ["data", "dimcoord", "auxcoord", "bounds", "measure", "ancillary"]


def _dt_neutral(a):
    return a is None or bool(a[1])


def _dt_exotic(*ts):
    return "f4" in ts and "u2" in ts and ("i1" in ts or "i2" in ts)


def dt_old_consistent(p):
    """Mirror of the hypothesis of C12_dtype_old_partial: what the code before a007f9a got right."""
    if not p["unpack"]:
        return True
    if p["uns"] and p["vt"][0] == "i":
        return False
    sf, ao = p["sf"], p["ao"]
    if sf is None and ao is None:
        return True
    if p["role"] != "data":
        return False
    if _dt_neutral(sf) and _dt_neutral(ao):
        return False
    if sf is not None and ao is not None and _dt_exotic(p["vt"], sf[0], ao[0]):
        return False
    return True


def dt_signature(p):
    if not p["unpack"]:
        return None
    if p["uns"] and p["vt"][0] == "i":
        return "advertised-dtype-ignores-unsigned-view"
    sf, ao = p["sf"], p["ao"]
    if sf is None and ao is None:
        return None
    if _dt_neutral(sf) and _dt_neutral(ao):
        return "advertised-dtype-neutral-packing"
    if p["role"] != "data":
        return "advertised-dtype-packed-variable-other-than-field-data"
    if sf is not None and ao is not None and _dt_exotic(p["vt"], sf[0], ao[0]):
        return "advertised-dtype-promotion-order"
    return None


def gen_dtype(rng):
    for _ in range(200):
        vt = rng.choice(DTS + ["i2", "i4", "u4", "i8", "f8"])
        r = rng.random()
        at = lambda: rng.choice(["f4", "f4", "f4", "f8", "f8", rng.choice(DTS)])
        sf = ao = None
        if r < 0.3:
            sf = [at(), int(rng.random() < 0.15)]
        elif r < 0.4:
            ao = [at(), int(rng.random() < 0.15)]
        elif r < 0.8:
            sf = [at(), int(rng.random() < 0.15)]
            ao = [at(), int(rng.random() < 0.15)]
        p = dict(vt=vt, sf=sf, ao=ao, uns=int(rng.random() < 0.2), role=rng.choice(DT_ROLES + ["data", "data", "data"]),
                 unpack=int(rng.random() >= 0.12), mask=int(rng.random() >= 0.2),
                 be=rng.choice([None, "netCDF4", "h5netcdf", "h5netcdf"]),
                 endian=rng.choice(["native", "native", "big", "little"]), fill=int(rng.random() < 0.3),
                 nd=rng.choice([1, 1, 2]), wr=int(rng.random() < 0.3),
                 # (a vector-valued missing_value is left out: it becomes the fill value of the Data, and Data.equals
                 #  then raises ValueError for lazy and in-memory data alike - C05's ground, not this property's)
                 mv=rng.choice([None, None, None, "scalar", "scalar", "nan"]),
                 valid=rng.choice([None, None, None, "min", "max", "range", "minmax"]))
        if p["role"] == "data" and rng.random() < 0.08:
            p["nd"] = 0
        return p
    return p


def _enc_attr(a):
    return "-" if a is None else f"{a[0]}:{int(bool(a[1]))}"


def mk_dtype(p):
    p = json.loads(json.dumps(p))
    line = (f"C12.dtype vt={p['vt']} sf={_enc_attr(p['sf'])} ao={_enc_attr(p['ao'])} uns={p['uns']} "
            f"data={int(p['role'] == 'data')} unpack={p['unpack']}")
    tags = ["dtype:be=" + str(p["be"]), "dtype:role=" + p["role"], "dtype:vt=" + p["vt"],
            "dtype:packing=" + ("none" if p["sf"] is None and p["ao"] is None else
                                "neutral" if _dt_neutral(p["sf"]) and _dt_neutral(p["ao"]) else
                                "+".join(x for x, a in (("scale", p["sf"]), ("offset", p["ao"])) if a is not None)),
            "dtype:attr-types=" + "/".join(a[0] for a in (p["sf"], p["ao"]) if a is not None)]
    if p["uns"]:
        tags.append("dtype:_Unsigned")
    if not p["unpack"]:
        tags.append("dtype:unpack=False")
    if not p["mask"]:
        tags.append("dtype:mask=False")
    if p["endian"] != "native":
        tags.append("dtype:endian=" + p["endian"])
    if p.get("wr"):
        tags.append("dtype:also-written")
    if p.get("mv"):
        tags.append("dtype:missing_value=" + p["mv"])
    if p.get("valid"):
        tags.append("dtype:valid=" + p["valid"])
    if p.get("fill"):
        tags.append("dtype:_FillValue")
    if p.get("nd") == 0:
        tags.append("dtype:0-d")
    sig = dt_signature(p)
    tags.append("dtype:class=" + (sig.replace("advertised-dtype-", "") if sig else "consistent-before-a007f9a"))
    key = json.dumps([p.get(k) for k in ("vt", "sf", "ao", "uns", "role", "unpack", "mask", "be", "endian", "fill", "nd", "wr", "mv", "valid")])
    return Case("C12.dtype", p, line, key=key, nontrivial=True, tags=tags)


def dtype_file(p):
    import netCDF4
    import warnings
    warnings.filterwarnings("ignore", message="endian-ness of dtype")
    path = os.path.join(scratch(), f"h_dt_{os.getpid()}.nc")
    ds = netCDF4.Dataset(path, "w", format="NETCDF4")
    ds.createDimension("x", 3)
    ds.createDimension("y", 2)
    ds.createDimension("bnd2", 2)
    ddims = () if p["nd"] == 0 else ("x",) if p["nd"] == 1 else ("y", "x")
    names = dict(data="v", dimcoord="x", auxcoord="a", bounds="x_bnds", measure="m", ancillary="n")
    dims = dict(v=ddims, x=("x",), a=("x",), x_bnds=("x", "bnd2"), m=("x",), n=ddims)
    target = names[p["role"]]
    raw = {}
    for nm in (("v",) if p["nd"] == 0 else ("x", "x_bnds", "a", "m", "n", "v")):
        kw = {}
        dt = "f8"
        if nm == target:
            dt = p["vt"]
            if p["endian"] != "native":
                kw["endian"] = p["endian"]
            if p["fill"]:
                kw["fill_value"] = np.array(100, dtype=dt)
        var = ds.createVariable(nm, dt, dims[nm], **kw)
        var.set_auto_maskandscale(False)
        n = int(np.prod([len(ds.dimensions[d]) for d in dims[nm]]))
        vals = np.arange(1, n + 1)
        if nm == target:
            if p["uns"]:
                var.setncattr("_Unsigned", "true")
                if dt[0] == "i":
                    vals = vals.copy()
                    vals[-1] = -2
            if p["sf"] is not None:
                var.scale_factor = np.array(1 if p["sf"][1] else 2, dtype=p["sf"][0])
            if p["ao"] is not None:
                var.add_offset = np.array(0 if p["ao"][1] else 3, dtype=p["ao"][0])
            if p["fill"]:
                vals = vals.copy()
                vals[0] = 100
            # missing data attributes are in the packed (stored) type
            if p.get("mv") == "scalar":
                var.missing_value = np.array(2, dtype=dt)
            elif p.get("mv") == "vector":
                var.missing_value = np.array([2, 3], dtype=dt)
            elif p.get("mv") == "nan" and dt[0] == "f":
                var.missing_value = np.array(np.nan, dtype=dt)
                vals = vals.astype(dt)
                vals[n // 2] = np.nan
            if p.get("valid") == "min":
                var.valid_min = np.array(2, dtype=dt)
            elif p.get("valid") == "max":
                var.valid_max = np.array(max(2, n - 1), dtype=dt)
            elif p.get("valid") == "range":
                var.valid_range = np.array([2, max(2, n - 1)], dtype=dt)
            elif p.get("valid") == "minmax":
                var.valid_min = np.array([1], dtype=dt)
                var.valid_max = np.array([max(2, n - 1)], dtype=dt)
        shp = tuple(len(ds.dimensions[d]) for d in dims[nm])
        arr = vals.reshape(shp).astype(dt)
        var[...] = arr
        raw[nm] = arr
    v = ds["v"]
    v.standard_name = "air_temperature"
    v.units = "K"
    if p["nd"] == 0:
        ds.close()
        return path, target, raw[target]
    v.coordinates = "a"
    v.cell_measures = "area: m"
    v.ancillary_variables = "n"
    ds["x"].standard_name = "longitude"
    ds["x"].units = "degrees_east"
    ds["x"].bounds = "x_bnds"
    ds["a"].standard_name = "latitude"
    ds["a"].units = "degrees_north"
    ds["m"].units = "km2"
    ds["m"].long_name = "cell area"
    ds["n"].standard_name = "air_temperature standard_error"
    ds["n"].units = "K"
    ds.close()
    return path, target, raw[target]


def _dt_find(f, target):
    """(owner construct whose equality is tested, Data of the target variable)"""
    if target == "v":
        return f, f.data
    if target == "x_bnds":
        c = f.construct("ncvar%x")
        return c, c.bounds.data
    c = f.construct("ncvar%" + target)
    return c, c.data


def _dt_name(dt):
    if dt is None:
        return "None"
    dt = np.dtype(dt)
    return ("" if dt.byteorder in "=|" else dt.byteorder) + dt.kind + str(dt.itemsize)


def impl_dtype(c):
    was = gc.isenabled()
    gc.disable()
    try:
        return _impl_dtype(c)
    finally:
        if was:
            gc.enable()


def _impl_dtype(c):
    try:
        return _impl_dtype_(c)
    except fw.HarnessError:
        raise
    except Exception as e:
        # keep what has been observed so far (the netCDF4-python reference) for the oracle and for classify
        if isinstance(c.extra, dict):
            c.extra["raised"] = exc_name(e) + ": " + str(e)[:100]
            r = exc_name(e)
            del e
            gc.collect()
            return r
        raise


def _impl_dtype_(c):
    import netCDF4
    C = cfdm()
    p = c.payload
    path, target, raw = dtype_file(p)
    ex = dict(fails=[])
    c.extra = ex
    # independent reference: netCDF4-python's own unpacking / unsigned view / masking
    ref = None
    try:
        ds = netCDF4.Dataset(path)
        var = ds[target]
        var.set_auto_maskandscale(False)
        if p["unpack"]:
            var.set_auto_scale(True)
        if p["mask"]:
            var.set_auto_mask(True)
        ref = np.ma.asanyarray(var[...])
        ds.close()
        ex["ref_dtype"] = _dt_name(ref.dtype)
        ex["ref_all_masked"] = bool(np.ma.getmaskarray(ref).all())
    except Exception as e:
        ex["ref_error"] = repr(e)[:80]
        del e
    gc.collect()
    base = nfd()
    kw = dict(netcdf_backend=p["be"], unpack=bool(p["unpack"]), mask=bool(p["mask"]))
    LOG.clear()
    f = [g for g in C.read(path, **kw) if g.nc_get_variable(None) == "v"][0]
    owner, d = _dt_find(f, target)
    adv = d.dtype
    adv2 = (owner.dtype if hasattr(owner, "dtype") and target != "x_bnds" else adv)
    if LOG:
        ex["fails"].append(f"Data.dtype of {target} fetched data from the file")
    if nfd() != base:
        ex["fails"].append(f"read / dtype left {nfd() - base} descriptor(s) open")
    arr = d.array
    ex["arr_all_masked"] = bool(np.ma.getmaskarray(np.ma.asanyarray(arr)).all())
    sub = d[(slice(None, None, -1),) + (slice(None),) * (d.ndim - 1)] if d.ndim else d[...]
    tm = d.to_memory()
    cp = d.copy()
    ex.update(adv=_dt_name(adv), owner=_dt_name(adv2), arr=_dt_name(arr.dtype), sub_adv=_dt_name(sub.dtype),
              sub_arr=_dt_name(sub.array.dtype), tm=_dt_name(tm.dtype), tm_arr=_dt_name(tm.array.dtype),
              copy=_dt_name(cp.dtype), lazy_after=_state(d))
    # lazy against in memory: the same object, and the same file read twice with one copy realised
    try:
        # (data with a NaN fill value do not even equal their own copy - C05's ground: the baseline is self-equality)
        ex["self_eq"] = bool(d.equals(d.copy()))
        ex["data_eq"] = bool(d.equals(tm) and tm.equals(d))
        g = [h for h in C.read(path, **kw) if h.nc_get_variable(None) == "v"][0]
        gowner, gd = _dt_find(g, target)
        gd.to_memory(inplace=True)
        ex["mem_state"] = _state(gd)
        ex["owner_eq"] = bool(owner.equals(gowner) and gowner.equals(owner))
        if p.get("wr") and owner is not f:
            ex["field_eq"] = bool(f.equals(g) and g.equals(f))
    except Exception as e:
        ex["fails"].append("comparing lazy and realised data raised " + exc_name(e) + ": " + str(e)[:80])
        del e
        g = None
    if nfd() != base:
        ex["fails"].append(f"{nfd() - base} descriptor(s) left open")
    if g is not None and p.get("wr"):
        # a later result: what cfdm.write makes of the lazy and of the realised field (the writer itself is
        # C01's ground: when it refuses these data nothing is compared)
        outs = []
        try:
            for k, h in enumerate((f, g)):
                out = f"{path}.w{k}.nc"
                C.write(h, out)
                ds = netCDF4.Dataset(out)
                var = ds[target]
                var.set_auto_maskandscale(False)
                outs.append((_dt_name(var.dtype), [repr(x) for x in np.ma.getdata(var[...]).astype("f8").flatten().tolist()]))
                ds.close()
            ex["written"] = outs
        except Exception as e:
            ex["write_raised"] = exc_name(e)
            del e
        for k in (0, 1):
            try:
                os.remove(f"{path}.w{k}.nc")
            except OSError:
                pass
        gc.collect()  # the writer's dataset object is only released by the cyclic collector
        base = nfd()
    if ref is not None:
        a = np.ma.asanyarray(arr)
        keep = ~np.ma.getmaskarray(a)
        if ref.shape != a.shape:
            ex["fails"].append(f"shape {a.shape} differs from netCDF4-python {ref.shape}")
        elif p["uns"] and p["vt"][0] == "i" and (p["fill"] or p.get("mv") or p.get("valid")):
            # _Unsigned together with missing-data attributes: whether those are compared before or after the
            # unsigned view is C07's subject (cfdm's masking against netCDF4-python's), not this property's;
            # lazy, in-memory, subspaced and twice-read data are still compared with one another below
            pass
        elif (np.ma.getmaskarray(ref) != np.ma.getmaskarray(a)).any():
            ex["fails"].append(f"mask {np.ma.getmaskarray(a).astype(int).flatten().tolist()} differs from netCDF4-python "
                               f"{np.ma.getmaskarray(ref).astype(int).flatten().tolist()}")
        elif p["uns"] and p["vt"][0] == "i" and (p["sf"] is not None or p["ao"] is not None):
            # _Unsigned together with scale_factor / add_offset: the two libraries take the unsigned view and the
            # arithmetic / cast to the attribute's type in different orders (values wrap or round differently);
            # which is right is not this property's matter - lazy, in-memory and both backends are still compared
            pass
        elif not np.array_equal(np.ma.getdata(a)[keep].astype("f8"), np.ma.getdata(ref)[keep].astype("f8"), equal_nan=True):
            ex["fails"].append("values differ from netCDF4-python")
        # lazy == in memory, element by element: the array after to_memory, and the reversed subspace
        b = np.ma.asanyarray(tm.array)
        if (np.ma.getmaskarray(b) != np.ma.getmaskarray(a)).any() or not np.array_equal(
                np.ma.getdata(a)[keep].astype("f8"), np.ma.getdata(b)[keep].astype("f8"), equal_nan=True):
            ex["fails"].append("to_memory changed the values or the mask")
        if a.ndim:
            r = np.ma.asanyarray(sub.array)[::-1]
            if (np.ma.getmaskarray(r) != np.ma.getmaskarray(a)).any() or not np.array_equal(
                    np.ma.getdata(a)[keep].astype("f8"), np.ma.getdata(r)[keep].astype("f8"), equal_nan=True):
                ex["fails"].append("subspace then realise differs from realise then subspace")
    if nfd() != base:
        ex["fails"].append(f"{nfd() - base} descriptor(s) left open")
    return f"adv={ex['adv']} del={ex['arr']}"


def agree_dtype(c):
    a, b = c.impl_out, c.model_out
    ma = re.match(r"^adv=(\S+) del=(\S+)$", a or "")
    mb = re.match(r"^adv=(\S+) del=(\S+) advold=(\S+)$", b or "")
    if not ma or not mb:
        return False
    # (the driver also prints what the code before a007f9a advertised: evidence only)
    return ma.group(2) == mb.group(2) and ma.group(1) == mb.group(1)


def oracle_dtype(c):
    ex = c.extra
    if not isinstance(ex, dict) or "adv" not in ex:
        return "reading or realising the data raised " + str((ex or {}).get("raised", c.impl_out) if isinstance(ex, dict) else c.impl_out)[:200]
    fails = list(ex.get("fails", []))
    if ex["adv"] != ex["arr"]:
        fails.insert(0, f"lazy data advertise dtype {ex['adv']} but deliver {ex['arr']}")
    for k, what in (("owner", "the construct's dtype"), ("sub_adv", "dtype of a lazy subspace"),
                    ("sub_arr", "dtype of a realised subspace"), ("tm", "dtype after to_memory"),
                    ("tm_arr", "dtype of the array after to_memory"), ("copy", "dtype of a copy")):
        if ex.get(k) != ex["arr"]:
            fails.append(f"{what} is {ex.get(k)}, the array's {ex['arr']}")
    if ex["arr"][0] in "<>":
        fails.append("delivered data are not in the native byte order")
    if ex.get("data_eq") is False and ex.get("self_eq"):
        fails.append("to_memory changed equality of the data")
    if (ex.get("owner_eq") is False or ex.get("field_eq") is False) and ex.get("self_eq"):
        fails.append("the same file read twice no longer equals itself once one copy is brought into memory")
    w = ex.get("written")
    if w and w[0] != w[1]:
        fails.append(f"cfdm.write of the lazy field stores {w[0][0]} {w[0][1][:3]}, of the realised field {w[1][0]} {w[1][1][:3]}")
    if ex.get("lazy_after") != "D":
        fails.append("inspecting the data brought the original into memory")
    if fails:
        ex["fails_all"] = fails
        return "; ".join(fails[:3])[:500]
    return None


def mk_promote(p):
    line = f"C12.promote a={p['a']} b={p['b']}"
    return Case("C12.promote", dict(p), line, key=line, nontrivial=p["a"] != p["b"], tags=["promote"])


def impl_promote(c):
    p = c.payload
    a, b = np.dtype(p["a"]), np.dtype(p["b"])
    return f"rt={_dt_name(np.result_type(a, b))} safe={int(np.can_cast(a, b, casting='safe'))}"


# ================================================================ plumbing
def gen(rng, tier, n):
    n_hist = int(n * 0.44)
    n_vs = int(n * 0.20)
    n_dt = int(n * 0.14)
    n_read = int(n * 0.16)
    n_err = max(4, n - n_hist - n_vs - n_dt - n_read)
    # (the promotion table of the dtype model is compared with numpy for all 100 pairs through corpus/C12.jsonl)
    for _ in range(n_hist):
        yield mk_hist(gen_hist(rng))
    for _ in range(n_vs):
        yield mk_vs(gen_vs(rng))
    for _ in range(n_dt):
        yield mk_dtype(gen_dtype(rng))
    for _ in range(n_read):
        yield mk_read(gen_read(rng))
    for _ in range(n_err):
        yield mk_err(gen_err(rng))


def from_payload(stream, payload):
    return {"C12.hist": mk_hist, "C12.read": mk_read, "C12.err": mk_err, "C12.vs": mk_vs, "C12.dtype": mk_dtype,
            "C12.promote": mk_promote}[stream](payload)


def _impl(c):
    if c.stream == "C12.hist":
        return impl_hist(c)
    if c.stream == "C12.read":
        return impl_read(c)
    if c.stream == "C12.err":
        return impl_err(c)
    if c.stream == "C12.vs":
        return impl_vs(c)
    if c.stream == "C12.dtype":
        return impl_dtype(c)
    raise fw.HarnessError("unknown stream " + c.stream)


def impl(c):
    """Run the case in a forked child: two HDF5 libraries live in this process (netCDF4's and h5py's) and a
    defect on a file-handling path can take the interpreter down; that must become a reported failure of the
    case, not a dead worker."""
    import pickle
    import select
    import signal
    if c.stream == "C12.promote":
        return impl_promote(c)
    cfdm()  # import (and instrument) once, in the parent
    if c.stream in ("C12.read",):
        build_file(c.payload)
    r, w = os.pipe()
    pid = os.fork()
    if pid == 0:
        code = 0
        try:
            os.close(r)
            try:
                out = _impl(c)
                blob = pickle.dumps(("ok", out, c.extra))
            except fw.HarnessError as e:
                blob = pickle.dumps(("harness", str(e), None))
            except BaseException as e:  # what fw.Run.process would have recorded
                blob = pickle.dumps(("ok", "raised:" + fw.exc_enum(e), dict(tb=traceback.format_exc()[-1500:])))
            with os.fdopen(w, "wb") as f:
                f.write(blob)
        except BaseException:
            code = 3
        finally:
            os._exit(code)
    os.close(w)
    chunks = []
    deadline = 1500
    timed_out = False
    with os.fdopen(r, "rb") as f:
        while True:
            ready, _, _ = select.select([f], [], [], deadline)
            if not ready:
                timed_out = True
                os.kill(pid, signal.SIGKILL)
                break
            b = f.read(1 << 20)
            if not b:
                break
            chunks.append(b)
    _, status = os.waitpid(pid, 0)
    if c.stream == "C12.read":
        import glob
        for q in [read_path(c.payload)] + glob.glob(read_path(c.payload) + ".x*.nc"):
            try:
                os.remove(q)
            except OSError:
                pass
    else:
        import glob
        for q in glob.glob(os.path.join(scratch(), f"[he]_*_{pid}.nc*")):  # (h_vs_*, h_dt_* included)
            try:
                os.remove(q)
            except OSError:
                pass
    if timed_out:
        raise fw.HarnessError(f"case did not finish within {deadline} s: {c.line or c.payload}")
    data = b"".join(chunks)
    if os.WIFSIGNALED(status) or not data:
        sig = os.WTERMSIG(status) if os.WIFSIGNALED(status) else -1
        c.extra = dict(crashed=f"the interpreter died with signal {sig} while running this case")
        return f"crashed:signal{sig}"
    kind, out, extra = pickle.loads(data)
    if kind == "harness":
        raise fw.HarnessError(out)
    c.extra = extra
    if c.stream == "C12.hist" and c.payload["be"] == "h5netcdf" and c.line and any(
            o[0] == "sub" and sum(1 for t in o[2] if t[0] in ("l", "b")) >= 2 for o in c.payload["ops"]):
        # level 2, evidence only: h5py gets one list axis, the others are read in full (C12_backend_reads_superset)
        try:
            saved = c.model_out
            c.model_out = fw.model_run([c.line])[0]
            same, diff = variable_level(c)
            c.model_out = saved
            c.tags = tuple(c.tags) + (("vlevel:first-access-as-modelled",) if same and not diff else ()) + (
                ("vlevel:first-access-differs-from-model",) if diff else ())
        except Exception:
            pass
    return out


def agree(c):
    if str(c.impl_out).startswith("crashed"):
        return False
    if c.stream == "C12.hist":
        return agree_hist(c)
    if c.stream == "C12.read":
        return agree_read(c)
    if c.stream == "C12.dtype":
        return agree_dtype(c)
    if c.stream in ("C12.vs", "C12.promote"):
        return c.impl_out == c.model_out
    return True


def oracle(c):
    if isinstance(c.extra, dict) and c.extra.get("crashed"):
        return c.extra["crashed"]
    if c.stream == "C12.hist":
        r = oracle_hist(c)
        return r
    if c.stream == "C12.read":
        return oracle_read(c)
    if c.stream == "C12.vs":
        return oracle_vs(c)
    if c.stream == "C12.dtype":
        return oracle_dtype(c)
    if c.stream == "C12.promote":
        return None
    if c.stream == "C12.err":
        f = (c.extra or {}).get("fails")
        return "; ".join(f[:3]) if f else None
    return None


def _coarse(f):
    """Grouping label for failures that match no recorded finding (never listed as known: always a VIOLATION)."""
    for pat, lab in (("advertise", "lazy-dtype-differs-from-delivered"), ("library was asked", "fetch-beyond-what-is-inspected"),
                     ("crashed", "interpreter-crash"), ("died with signal", "interpreter-crash"),
                     ("descriptor", "descriptor-left-open"), ("fetched", "fetch-beyond-what-is-inspected"),
                     ("into memory", "array-brought-into-memory"), ("backends", "backends-differ"),
                     ("backend", "backends-differ"), ("netCDF4", "differs-from-netCDF4-python"),
                     ("to_memory", "to_memory-not-neutral"), ("subspace", "lazy-differs-from-eager"),
                     ("expected", "lazy-differs-from-eager"), ("raised", "raises-where-eager-access-succeeds")):
        if pat in f:
            return "unlisted:" + lab
    return None


def classify(c):
    return _classify(c) or _coarse(c.oracle_fail or "")


def _classify(c):
    p = c.payload
    f = c.oracle_fail or ""
    if c.stream == "C12.hist":
        if "KNOWNLEAK" in f:
            return "data-access-raises-dataset-left-open"
        m = re.search(r"KNOWN (\S+)", f)
        if m:
            return m.group(1)
        return None
    if c.stream == "C12.dtype":
        # the one recorded data-type finding: a 0-d variable whose value is missing comes back as the numpy masked
        # constant, float64 whatever the variable's type, wherever nothing casts it afterwards
        ex = c.extra if isinstance(c.extra, dict) else {}
        mb0 = re.match(r"^adv=(\S+) del=(\S+) advold=(\S+)$", c.model_out or "")
        if p.get("nd") == 0 and (ex.get("arr_all_masked") or ex.get("ref_all_masked")) and mb0 and ex.get("arr") == "f8" \
                and mb0.group(2) != "f8" and ex.get("adv") == mb0.group(1) and not ex.get("fails"):
            return "masked-0d-variable-masked-constant"
        return None
    if c.stream == "C12.err":
        if p["kind"] == "readraises" and "raised" in f and "descriptor(s) open" in f:
            return "read-raises-dataset-left-open"
        if p["kind"] == "badindex" and f.startswith("malformed index") and "descriptor(s) left open" in f:
            return "data-access-raises-dataset-left-open"
        return None
    if c.stream == "C12.read":
        fails = (c.extra or {}).get("fails") or [f]
        roles = (c.extra or {}).get("roles") or {}
        kinds = {v[1] for v in roles.values()}
        sigs = set()
        packed0d = packed = False
        if p["kind"] in ("plain", "groups"):
            try:
                spec = G.gen_spec(fw.rng_for(p["gseed"], "C12.read", p["kind"]), p["kind"])
                packed0d = any(not v["dims"] and ("scale_factor" in v["attrs"] or "add_offset" in v["attrs"]) for v in spec["vars"])
                packed = any("scale_factor" in v["attrs"] or "add_offset" in v["attrs"] for v in spec["vars"])
            except Exception:
                pass
        for s in fails:
            if packed0d and p.get("unpack", True) and "to_memory raised raised:ValueError: object __array__" in s:
                sigs.add("to_memory-of-0d-packed-variable")
            elif packed and not p.get("unpack", True) and "to_memory changed equality" in s:
                sigs.add("unpack-false-packed-variable-advertises-unpacked-dtype")
            elif "[nodesFlat] into memory" in s:
                sigs.add("read-realises-geometry-node-coordinates-without-part-node-count")
            elif "[connS] into memory" in s:
                sigs.add("read-realises-ugrid-connectivity-with-nonzero-start-index")
            elif "[connT] into memory" in s:
                sigs.add("read-realises-ugrid-connectivity-stored-cell-dimension-last")
            elif ("conn" in kinds or "connT" in kinds or "connS" in kinds) and "h5netcdf" in s and ("raised:backend" in s or "TypeError" in s):
                sigs.add("h5netcdf-ugrid-cell-bounds-unsorted-node-indices")
            else:
                sigs.add(None)
        if len(sigs) == 1:
            return sigs.pop()
        if None in sigs:
            return None
        # several known findings in one dataset: report under the first, alphabetically
        return sorted(sigs)[0]
    return None


def shrink(c, run):
    """Histories: drop operations from the end, then single operations, while the oracle still fails."""
    if c.stream != "C12.hist":
        return None
    best = c
    p = json.loads(json.dumps(c.payload))

    def fails(q):
        cc = mk_hist(q)
        try:
            cc.impl_out = impl(cc)
        except Exception:
            return None
        cc.oracle_fail = oracle(cc)
        return cc if cc.oracle_fail else None

    ops = p["ops"]
    # truncate
    for k in range(1, len(ops)):
        q = dict(p, ops=ops[:k])
        cc = fails(q)
        if cc is not None:
            best, p, ops = cc, q, q["ops"]
            break
    changed = True
    while changed and len(ops) > 1:
        changed = False
        for k in range(len(ops) - 1):
            # an op that creates a handle cannot be dropped without renumbering: only drop non-creating ones
            if ops[k][0] in ("copy", "sub") or (ops[k][0] in ("tomem", "tr", "ins", "sq", "fl") and not ops[k][2]):
                continue
            q = dict(p, ops=ops[:k] + ops[k + 1:])
            cc = fails(q)
            if cc is not None:
                best, p, ops = cc, q, q["ops"]
                changed = True
                break
    if best is not c:
        best.model_out = fw.model_run([best.line])[0] if best.line else None
    return best
