"""C17 — appending preserves everything already in the dataset.

Stream C17.seq: one scenario = a dataset E written by cfdm.write from a field set S0, followed by
1–3 appends cfdm.write(S_i, E, mode='a'|'r+') (harness/gen/fields_C17.py: example fields, random
fields of harness/gen/fields.py, copies of earlier fields sharing all / some / none of their
coordinates, same or other pinned netCDF names, featureType, groups, agreeing / disagreeing
description-of-file-contents properties, the five netCDF formats).  The scenario runs in a forked
child process (harness/c17_observe.py) so that a crash of the C libraries is an observable.

  impl     per append: status enum, sha256-unchanged flag, and the difference of the netCDF4-only
           views of the dataset before / after (new dimensions, new variables with their dimensions and
           reference attributes, "globals same").
  model    the Lean model of the two-pass writer (lean/Cfdm/Model/Append.lean) on the same inputs:
           the dataset as netCDF4 sees it, the fields the append reads back, the batch
           (harness/gen/abstract_C17.py).  Scenarios using features outside the model
           (compression, geometries, …) carry no model line and are judged by the oracle alone.
  agree    status and added dimensions / variables / reference attributes; generated name suffixes
           (`_1`, `_2`) are compared up to renumbering.
  oracle   harness/c17_oracle.py: refusals (raised + sha256), old fields (fingerprints before ⊆
           after), global attributes, every old variable and dimension (netCDF4), one new equal field
           per appended construct modulo the dataset's global attributes.
"""
import atexit
import json
import os
import random
import re

from .. import c17_observe as OBS
from .. import c17_oracle as ORA
from .. import fw
from ..fw import Case
from ..gen import fields_C17 as G

REQUIRED = [
    "C17_refusal_pure",
    "C17_refusal_iff_documented",
    "C17_dry_run_writes_nothing",
    "C17_monotone",
    "C17_monotone_sequence",
    "C17_names_fresh",
    "C17_old_readable",
    "C17_old_still_field",
    "C17_share_only_equal",
    "C17_globals_unchanged",
    "C17_unguarded_external_variables_rewrites_global",
    "C17_preserved_up_to_record_length",
    "C17_axis_dimension_has_axis_length",
    "C17_weakened_pinned_reuse_grows_dimension",
    "C17_weakened_pinned_reuse_changes_old_footprint",
    "C17_registry_must_agree",
    "C17_shapes_must_fit",
    "C17_old_dimension_name_used_as_it_is",
    "C17_dry_run_registry_not_the_dataset",
    "C17_scalar_parameter_written_again",
    "C17_monotone_from_reader",
    "C17_monotone_sequence_from_reader",
    "C17_unpatched_dry_run_defeats_size_test",
]
BUDGET = {"quick": 80, "thorough": 2400}
QUICK_JOBS = 8
TIME_LIMIT = {"quick": 200, "thorough": 1500}
RULE = (
    "scenario = (format in {NETCDF4 x0.6, NETCDF4_CLASSIC, NETCDF3_CLASSIC, NETCDF3_64BIT_OFFSET, NETCDF3_64BIT_DATA}) x "
    "S0 of 1-3 fields {example_field(0..7), random_field} x 1-3 appends of 1-3 constructs each {copy of an earlier field "
    "with new data / other standard name and all, some or none of its coordinates kept equal (values, bounds, properties "
    "perturbed, constructs deleted); independent example/random field; Domain} x edits {pinned ncvar / coordinate ncvar / "
    "dimension names drawn from names present in the dataset, description-of-file-contents and other properties agreeing "
    "or not with the dataset's globals, nc_set_global_attribute with / without value, _FillValue / missing_value, "
    "featureType, netCDF groups} x mode {'a','r+'}.  40 % of the random scenarios are of the *dimension family*: fields built axis "
    "by axis (1-3 axes: size, netCDF dimension name or none, unlimited or not, dimension coordinate present / absent / named after "
    "the dimension, bounds with 2 or 4 vertices, numeric or string 1-d auxiliary coordinate; optional size-one axis outside the data "
    "with dimension coordinate and/or 2-d auxiliary coordinate; optional parametric vertical coordinate with domain ancillary and "
    "scalar parameter), appended fields derived from an earlier one by changing each attribute of each axis independently "
    "(dimension name: the same / the name of a variable / <name>_1 / that of another dimension / new / none; size same or other; "
    "unlimitedness kept or flipped; coordinate kept, changed or dropped; auxiliary equal or not), 1-3 appends reusing the same "
    "variable names (suffixes _1, _2 left by earlier appends).  non-trivial = E could be written and read and at least one append "
    "was attempted; distinct = distinct scenario specification"
)
ASSUMPTIONS = [
    "contents of variables are abstract identities (fingerprint classes); data types, HDF5 storage, chunking and bytes on "
    "disk are outside the model and are covered by the oracle's netCDF4 view (sha of raw data, dtype) on every case",
    "the model covers fields/domains without compression by convention, geometries, UGRID and groups (groups are refused "
    "in append mode); scenarios with those features are judged by the oracle alone (tag unmodelled)",
    "netCDF semantics assumed by the model for data written along dimensions (checked against netCDF4-python 1.7.4): an array "
    "longer than an unlimited dimension makes the dimension longer for every variable on it, a shorter one leaves the new variable "
    "with the dimension's length, an extent that differs from a fixed-size dimension raises",
    "C17_monotone needs the dimension tables left by the dry run to agree with the dataset on the lengths of its unlimited "
    "dimensions (RegAgrees; refuted without it) and the shapes of the appended constructs to fit their axes (FieldReq.wf); with the "
    "pending patch RegAgrees is derived (C17_monotone_from_reader) from: every field read back reports the dataset's length "
    "for each dimension name it carries (FieldReq.faithful).  These are statements about cfdm.read, which is not modelled: the "
    "driver evaluates them on every sampled case (C17.hyp, tags hyp:*), and the model run on abstract(cfdm.read(E)) predicts the "
    "changed lengths (L[...]), which are compared",
    "the reader is abstract in the theorems: any function of the read footprint (the variable, everything reachable from it "
    "through reference attributes and dimension names, and the global attributes); cfdm.read itself is sampled (stream 2)",
    "the request given to append uses the format of the dataset; an appended batch that cannot be written on its own "
    "in that format is not charged to append (its refusal may still not damage the dataset)",
    "the model is /repo HEAD (ad9ad50: incl. d714c80 unnamed dimension coordinate through _netcdf_name, 52d4f19 two axes with equal "
    "dimension coordinates get a dimension each; 8953e79 concerns DSG sample dimensions, outside the model) plus the pending proposed "
    "patch fixes/C17-append-dry-run-names.patch; on the tree without it the defect surfaces as a known finding and the implementation "
    "agrees with the model variant that lacks the patch",
    "an append that fails with the library-level message 'NetCDF: HDF error' is observed a second time and the first "
    "observation is kept only if the error is still there (seen once per ~1000 scenarios on the overloaded machine, never "
    "reproducible; a reproducible one is judged like any other failure)",
    "old fields are compared with netCDF names and nc_global_attributes; new fields modulo netCDF names (a pinned name that "
    "is in use is legitimately changed) against the mode-'w' round trip of the same construct (C01 precondition)",
]

_OBS = {}


def _cleanup():
    _OBS.clear()


atexit.register(_cleanup)


# --------------------------------------------------------------------------
# cases
# --------------------------------------------------------------------------
def mk_case(spec, tags=()):
    key = json.dumps(spec, sort_keys=True)
    return Case("C17.seq", spec, line=None, key=key, nontrivial=True, tags=tuple(tags))


DIM_SHARE = 0.4  # share of the dimension family (fields built axis by axis) among the random scenarios


def _dim_tags(spec):
    """Per appended axis of the dimension family: how it relates to the axes met earlier in the scenario."""
    t = set()
    seen = []  # axes of the fields that are in the dataset when the batch arrives
    groups = [spec["s0"]] + list(spec["batches"])
    for bi, b in enumerate(groups):
        cur = []
        for f in b:
            for a in f.get("mk", {}).get("axes", ()):
                cur.append(a)
                if bi == 0:
                    continue
                kind = ("dc" if a.get("dc") else "nodc") + ("+unlim" if a.get("unlim") else "")
                t.add("axis:" + kind)
                if a.get("dc") and a["dc"].get("anon"):
                    t.add("dc:named-after-dimension")
                if a.get("dc") and a["dc"].get("bounds"):
                    t.add("bounds:" + ("4" if a["dc"]["bounds"] == 4 else "2"))
                if a.get("aux") and a["aux"].get("str"):
                    t.add("aux:string")
                same = [o for o in seen if o.get("ncdim") is not None and o.get("ncdim") == a.get("ncdim")]
                if same:
                    o = same[-1]
                    t.add("dimname:in-dataset:" + ("same-size" if any(x["n"] == a["n"] for x in same) else "other-size"))
                    if not a.get("dc") and a.get("unlim") and any(x.get("unlim") and not x.get("dc") and x["n"] != a["n"] for x in same):
                        t.add("record-axis:other-length")
                    if any(bool(x.get("unlim")) != bool(a.get("unlim")) for x in same):
                        t.add("dimname:in-dataset:other-unlimitedness")
                elif a.get("ncdim") is None:
                    t.add("dimname:none")
                elif a["ncdim"].endswith("_1"):
                    t.add("dimname:suffixed")
                else:
                    t.add("dimname:new")
        seen += cur
    for b in groups[1:]:
        for f in b:
            x = f.get("mk", {}).get("extra")
            if x:
                t.add("size-one-axis:" + ("dc" if x.get("dc") else "nodc") + ("+aux2d" if x.get("aux2") is not None else ""))
    for b in groups[1:]:
        for f in b:
            pm = f.get("mk", {}).get("param")
            if pm:
                t.add("parametric:" + ("scalar-parameter" if pm.get("ptop") is not None else "ancillaries-only"))
    names = [f.get("mk", {}).get("ncvar") for b in groups for f in b]
    if any(n is not None and names.count(n) >= 3 for n in names):
        t.add("ncvar:three-times")
    return sorted(t)


def _tags(spec):
    t = ["fmt:" + spec.get("fmt", "NETCDF4"), f"appends:{len(spec['batches'])}"]
    if spec.get("family") == "dim":
        t.append("family:dim")
        t += _dim_tags(spec)
    mods = [m[0] for b in spec["batches"] for f in b for m in f.get("mods", ())]
    for name in ("extmsr", "groups", "ft", "domain", "fill", "global", "coordncvar", "dimname", "perturb", "delbounds"):
        if name in mods:
            t.append("mod:" + name)
    if any("from" in f for b in spec["batches"] for f in b):
        t.append("shares-coordinates")
    if spec.get("mode") == "r+":
        t.append("mode:r+")
    return t


FIXED = [
    # the defects reproduced by hand, always run
    {"fmt": "NETCDF4", "s0": [{"ex": 0}], "batches": [[{"ex": 1}]]},
    {"fmt": "NETCDF4", "s0": [{"ex": 0}], "batches": [[{"ex": 3}]]},
    {"fmt": "NETCDF4", "s0": [{"ex": 3}], "batches": [[{"from": [0, 0], "mods": [["newdata", 5]]}]]},
    {"fmt": "NETCDF4", "s0": [{"ex": 3}], "batches": [[{"ex": 4}]]},
    {"fmt": "NETCDF4", "s0": [{"ex": 2}], "batches": [[{"ex": 0, "mods": [["prop", "comment", "appended text"]]}]]},
    {"fmt": "NETCDF4", "s0": [{"ex": 2, "mods": [["prop", "comment", "first"]]}],
     "batches": [[{"ex": 0, "mods": [["prop", "comment", "first"]]}], [{"ex": 5, "mods": [["prop", "comment", "other"]]}]]},
    {"fmt": "NETCDF4", "s0": [{"ex": 2}], "batches": [[{"ex": 0, "mods": [["domain"]]}]]},
    {"fmt": "NETCDF4", "s0": [{"ex": 0}], "batches": [[{"ex": 7, "mods": [["fill", "missing_value", 120]]}]]},
    {"fmt": "NETCDF4", "s0": [{"ex": 0}], "batches": [[{"ex": 5, "mods": [["groups", ["forecast"]]]}]]},
    {"fmt": "NETCDF4", "s0": [{"ex": 0}], "batches": [[{"from": [0, 0], "mods": [["newdata", 1]]}], [{"from": [0, 0], "mods": [["newdata", 2], ["perturb", 0, 2]]}],
                                                      [{"from": [2, 0], "mods": [["newdata", 3], ["ncvar", "q"]]}]]},
    # external cell measures: name not listed by the dataset / listed / another one on the second append, with an external= file
    {"fmt": "NETCDF4", "s0": [{"ex": 0}], "batches": [[{"from": [0, 0], "mods": [["newdata", 7], ["stdname", "air_temperature"], ["extmsr", "areacella", False]]}]]},
    {"fmt": "NETCDF4", "s0": [{"ex": 0, "mods": [["extmsr", "areacella", False]]}],
     "batches": [[{"from": [0, 0], "mods": [["newdata", 8], ["ncvar", "ta"]]}], [{"ex": 0, "mods": [["ncvar", "ua"], ["extmsr", "areacello", True]]}]], "external": True},
    {"fmt": "NETCDF3_CLASSIC", "s0": [{"ex": 0}, {"ex": 2}], "batches": [[{"from": [0, 1], "mods": [["newdata", 4], ["delbounds", 1]]}]]},
    # record axes (unlimited, named, no coordinate variable): same length, longer, shorter, then the same names a third time
    {"fmt": "NETCDF4", "family": "dim",
     "s0": [{"mk": {"ncvar": "ta", "seed": 1, "axes": [{"n": 4, "ncdim": "obs", "unlim": True}, {"n": 3, "ncdim": "lat", "dc": {"v": 0, "k": 1, "ncvar": "lat"}}]}}],
     "batches": [[{"mk": {"ncvar": "ta", "seed": 2, "axes": [{"n": 4, "ncdim": "obs", "unlim": True}, {"n": 3, "ncdim": "lat", "dc": {"v": 0, "k": 1, "ncvar": "lat"}}]}}],
                 [{"mk": {"ncvar": "ta", "seed": 3, "axes": [{"n": 6, "ncdim": "obs", "unlim": True}, {"n": 3, "ncdim": "lat", "dc": {"v": 0, "k": 1, "ncvar": "lat"}}]}}],
                 [{"mk": {"ncvar": "ta", "seed": 4, "axes": [{"n": 2, "ncdim": "obs", "unlim": True}, {"n": 3, "ncdim": "lat", "dc": {"v": 1, "k": 1, "ncvar": "lat"}}]}}]]},
    # the refusal predicate looks at every construct of the batch: the offending one is not the first
    {"fmt": "NETCDF4", "s0": [{"ex": 0}],
     "batches": [[{"from": [0, 0], "mods": [["newdata", 11], ["ncvar", "ta"]]}, {"ex": 5, "mods": [["groups", ["forecast"]]]}],
                 [{"from": [0, 0], "mods": [["newdata", 12], ["ncvar", "ua"]]}, {"ex": 2, "mods": [["ft", "timeSeries"]]}]]},
    # role dimensions: bounds with 4 then 2 then 4 vertices, string-length dimensions of 5, 5 and 7 characters (char storage)
    {"fmt": "NETCDF3_CLASSIC", "family": "dim",
     "s0": [{"mk": {"ncvar": "ta", "seed": 1, "axes": [{"n": 3, "ncdim": "obs", "dc": {"v": 0, "k": 0, "ncvar": "time", "bounds": 4}, "aux": {"v": 0, "ncvar": "label", "str": 5}}]}}],
     "batches": [[{"mk": {"ncvar": "tb", "seed": 2, "axes": [{"n": 3, "ncdim": "obs", "dc": {"v": 1, "k": 0, "ncvar": "time", "bounds": 2}, "aux": {"v": 1, "ncvar": "label", "str": 5}}]}}],
                 [{"mk": {"ncvar": "tc", "seed": 3, "axes": [{"n": 3, "ncdim": "obs", "dc": {"v": 2, "k": 0, "ncvar": "time", "bounds": 4}, "aux": {"v": 2, "ncvar": "label", "str": 7}}]}}]]},
    # a dimension coordinate named after the netCDF dimension of its axis, which the dataset has
    {"fmt": "NETCDF4", "family": "dim",
     "s0": [{"mk": {"ncvar": "ta", "seed": 1, "axes": [{"n": 4, "ncdim": "obs", "dc": {"v": 0, "k": 0, "ncvar": None, "anon": True}}]}}],
     "batches": [[{"mk": {"ncvar": "tb", "seed": 2, "axes": [{"n": 4, "ncdim": "obs", "dc": {"v": 1, "k": 0, "ncvar": None, "anon": True}}]}}]]},
]


def _claim_fixed(tier, m):
    """The fixed scenarios of this worker.  The workers of one run share the list out through claim files in a
    directory keyed by the parent process, so that every fixed scenario is run (once) in every run whatever the
    random offsets; None if that is not possible."""
    import tempfile
    try:
        ppid = os.getppid()
        with open(f"/proc/{ppid}/stat") as f:
            start = f.read().rsplit(")", 1)[1].split()[19]
        d = os.path.join(tempfile.gettempdir(), f"c17_fixed_{ppid}_{start}_{tier}")
        os.makedirs(d, exist_ok=True)
        got = []
        for i in range(len(FIXED)):
            if len(got) >= m:
                break
            try:
                os.close(os.open(os.path.join(d, str(i)), os.O_CREAT | os.O_EXCL | os.O_WRONLY))
                got.append(i)
            except FileExistsError:
                pass

        def release():
            for i in got:
                try:
                    os.unlink(os.path.join(d, str(i)))
                except OSError:
                    pass
            try:
                os.rmdir(d)
            except OSError:
                pass

        atexit.register(release)
        return got
    except Exception:
        return None


def gen(rng, tier, n):
    os.environ["VERIF_TIER_C17"] = tier
    # every worker: a slice of the fixed scenarios first
    k = rng.randrange(len(FIXED))
    m = 3 if tier == "quick" else 2   # 8 resp. 16 workers: every fixed scenario is claimed
    mine = _claim_fixed(tier, m)
    if mine is None:
        mine = [(k + i) % len(FIXED) for i in range(min(m, 4))]
    m = len(mine)
    for i in mine:
        spec = FIXED[i]
        yield mk_case(spec, _tags(spec) + ["fixed"])
    for _ in range(max(0, n - m)):
        spec = G.dimension_scenario(rng, tier) if rng.random() < DIM_SHARE else G.random_scenario(rng, tier)
        yield mk_case(spec, _tags(spec))


def from_payload(stream, payload):
    return mk_case(payload, _tags(payload))


# --------------------------------------------------------------------------
# implementation side
# --------------------------------------------------------------------------
REF_ATTRS = ("coordinates", "bounds", "climatology", "formula_terms", "grid_mapping", "cell_measures", "ancillary_variables",
             "cell_methods", "dimensions")


# whether a new variable carries these is the decision of _write_global_attributes (names compared, not values)
DESCR_ATTRS = ("comment", "history", "institution", "references", "source", "title")


def _show_added(v0, v1):
    nd = sorted((k, d) for k, d in v1["d"].items() if k not in v0["d"])
    nv = sorted((k, v) for k, v in v1["v"].items() if k not in v0["v"])
    D = ";".join(f"{k},{d[0]},{1 if d[1] else 0}" for k, d in nd)
    V = []
    for k, v in nv:
        at = sorted([(a, x) for a, x in v["attrs"].items() if a in REF_ATTRS] + [(a, "*") for a in v["attrs"] if a in DESCR_ATTRS])
        V.append(f"{k}({','.join(v['dims'])})({'&'.join(f'{a}={x}' for a, x in at)})")
    same = "same" if v1["g"] == v0["g"] else "changed"
    # dimensions of the dataset whose length is no longer what it was
    L = sorted(f"{k}:{d[0]}>{v1['d'][k][0] if k in v1['d'] else 'gone'}" for k, d in v0["d"].items() if k not in v1["d"] or v1["d"][k][0] != d[0])
    return f"D[{D}] V[{';'.join(V)}] G={same} L[{';'.join(L)}]"


_T0 = [None]
SOFT_LIMIT = {"quick": 120, "thorough": 1200}


def _io_error(obs):
    return any("HDF error" in str(st.get("message", "")) for st in obs.get("steps", ()))


def impl(case):
    spec = case.payload
    # the runner only looks at its deadline between batches of 200 cases: keep an own clock per worker
    import time
    if _T0[0] is None:
        _T0[0] = time.time()
    tier = os.environ.get("VERIF_TIER_C17", "quick")
    if time.time() - _T0[0] > SOFT_LIMIT.get(tier, 150) and "fixed" not in case.tags and not case.payload.get("_replay"):
        case.nontrivial = False
        case.tags = case.tags + ("trivial:time-budget",)
        _OBS[case.key] = dict(e="skipped")
        return "skipped"
    obs = OBS.run_scenario(spec)
    if _io_error(obs):
        # "NetCDF: HDF error" is the C library failing at the I/O level (seen when the machine is overloaded; not
        # reproducible): observe once more, and keep the first observation only if the error is still there
        again = OBS.run_scenario(spec)
        case.tags = case.tags + ("retried:hdf-io-error",)
        if not _io_error(again):
            obs = again
    _OBS[case.key] = obs
    if "harness_exc" in obs:
        # the scenario could not be built or observed (generator's edit not applicable, time-out): no verdict
        case.nontrivial = False
        case.tags = case.tags + ("trivial:harness-skip",)
        case.extra = obs["harness_exc"][-600:]
        return "skipped"
    if obs.get("e") != "ok" or not obs["steps"]:
        case.nontrivial = False
        case.tags = case.tags + ("trivial:" + str(obs.get("e") if obs.get("e") != "ok" else obs.get("stopped", "no-step"))[:40],)
        return "E:" + str(obs.get("e"))
    outs = []
    obs["steps"] = list(ORA.judged_steps(obs))
    modelled = all(st.get("abs") is not None for st in obs["steps"])
    for st in obs["steps"]:
        if st["status"] == "ok" and st.get("view1") is None:
            outs.append("ok unreadable")
        elif st["status"] == "ok":
            outs.append("ok " + _show_added(st["view0"], st["view1"]))
        elif st["status"].startswith("raised") and st.get("twins") is None and st.get("twin_stage") == "write":
            # the batch cannot be written on its own either (mode 'w' raises): what the writer does with it is not
            # append's matter and outside the model
            outs.append("n/a")
        elif st["status"].startswith("raised"):
            if st.get("sha_same"):
                outs.append("refused" if ORA.documented_unsupported(st, st["view0"], spec.get("fmt", "NETCDF4")) else st["status"] + " unchanged")
            else:
                outs.append(st["status"] + (" " + _show_added(st["view0"], st["view1"]) if st.get("view1") else " unreadable"))
        else:
            outs.append(st["status"])
    if modelled:
        j = dict(nc4=spec.get("fmt", "NETCDF4") == "NETCDF4", steps=[st["abs"] for st in obs["steps"]])
        js = json.dumps(j, separators=(",", ":")).replace(" ", "\\u0020")
        case.line = f"C17.seq fix=any j={js}"
        # the decidable hypotheses of C17_monotone / C17_monotone_from_reader, evaluated by the model on the sampled
        # inputs (informative: counted in the input distribution; a hypothesis that does not hold is not a violation)
        try:
            hyp = fw.model_run([f"C17.hyp j={js}"])[0]
            flags = [dict(kv.split("=") for kv in st.split()) for st in hyp.split(" || ")] if hyp != "bad-op" else []
            for name in ("rbwf", "rbfaithful", "swf", "agrees", "agreeshead"):
                ok = bool(flags) and all(f.get(name) == "1" for f in flags)
                case.tags = case.tags + (f"hyp:{name}:" + ("holds" if ok else "fails"),)
        except Exception:
            case.tags = case.tags + ("hyp:not-evaluated",)
    else:
        case.tags = case.tags + ("unmodelled",)
    if any(not st.get("twin_ok") for st in obs["steps"]):
        case.tags = case.tags + ("twin-precondition-failed",)
    for st in obs["steps"]:
        case.tags = case.tags + ("status:" + st["status"].split(":")[0],)
    return " || ".join(outs)


# --------------------------------------------------------------------------
# agreement
# --------------------------------------------------------------------------
_SUFFIX = re.compile(r"_\d+\b")


def _norm(s):
    return _SUFFIX.sub("_N", s)


def _parse_added(s):
    m = re.match(r"D\[(.*?)\] V\[(.*)\] G=(\w+) L\[(.*?)\]$", s)
    if not m:
        return None
    dims = sorted(x for x in m.group(1).split(";") if x)
    vs = sorted(x for x in m.group(2).split(";") if x)
    return dims, vs, m.group(3) + " L=" + m.group(4)


def _coords_sorted(v):
    # the order of the tokens of `coordinates` carries no meaning
    def f(m):
        return "coordinates=" + " ".join(sorted(m.group(1).split(" ")))
    return re.sub(r"coordinates=([^&)]*)", f, v)


def _same_added(a, b):
    pa, pb = _parse_added(a), _parse_added(b)
    if pa is None or pb is None:
        return False
    if pa[2] != pb[2]:
        return False
    va, vb = [_coords_sorted(x) for x in pa[1]], [_coords_sorted(x) for x in pb[1]]
    if pa[0] == pb[0] and sorted(va) == sorted(vb):
        return True
    return sorted(map(_norm, pa[0])) == sorted(map(_norm, pb[0])) and sorted(map(_norm, va)) == sorted(map(_norm, vb))


def _agree_one(I, M):
    if len(I) > len(M):
        return False
    for i, m in zip(I, M):
        if i in ("crashed", "n/a"):
            continue  # the C library died / the batch is unwritable on its own: nothing to compare
        if i == "refused":
            if not m.startswith("refused:"):
                return False
            continue
        if m.startswith("refused:"):
            return False
        if i.startswith("ok "):
            if not (m.startswith("ok ") and _same_added(i[3:], m[3:])):
                return False
            continue
        if i.startswith("raised"):
            # a failure mid-way: the model must fail too (its enum and the partial state are not compared:
            # netCDF4's error type is not part of the property)
            if not m.startswith("failed:"):
                return False
            continue
        return False
    return True


def agree(case):
    """The implementation's view must be the model's prediction for the code of /repo HEAD with or without
    the pending proposed patches (the driver prints every distinct prediction)."""
    if case.model_out is None:
        return True
    I = case.impl_out.split(" || ")
    return any(_agree_one(I, alt.split(" || ")) for alt in case.model_out.split(" ### "))


# --------------------------------------------------------------------------
# oracle, classification, shrinking
# --------------------------------------------------------------------------
def _obs(case):
    o = _OBS.get(case.key)
    if o is None:
        o = OBS.run_scenario(case.payload)
        _OBS[case.key] = o
    return o


def oracle(case):
    o = _obs(case)
    v = ORA.judge(o, case.payload)
    if v:
        # the signature travels with the case (the observation stays in the worker process)
        case.extra = dict(signature=_classify(case), note=case.extra if isinstance(case.extra, str) else None)
    return v


def classify(case):
    if isinstance(case.extra, dict) and "signature" in case.extra:
        return case.extra["signature"]
    return _classify(case)


def _classify(case):
    """Signature of a failing scenario: the mechanism, decided from the input and the observation."""
    o = _obs(case)
    if "steps" not in o:
        return None
    spec = case.payload
    fmt = spec.get("fmt", "NETCDF4")
    sigs = []
    for st in ORA.judged_steps(o):
        sigs += ORA.mechanisms(st, fmt)
    sigs = sorted(set(sigs))
    if not sigs:
        return None
    # one signature per failing case: the first mechanism in a fixed priority order
    for s in ORA.PRIORITY:
        if s in sigs:
            return s
    return sigs[0]


def _fails_same(case, sig):
    c = mk_case(case.payload)
    c.impl_out = impl(c)
    c.oracle_fail = oracle(c)
    return c if (c.oracle_fail and classify(c) == sig) else None


def shrink(case, run):
    """Drop appends, fields and edits while the same mechanism still fails."""
    sig = classify(case)
    spec = json.loads(json.dumps(case.payload))
    best = case

    def attempt(s):
        nonlocal best, spec
        try:
            c = mk_case(s)
            c.impl_out = impl(c)
            c.oracle_fail = oracle(c)
            if c.oracle_fail and classify(c) == sig:
                best, spec = c, s
                return True
        except fw.HarnessError:
            pass
        return False

    budget = 14
    # fewer appends
    while len(spec["batches"]) > 1 and budget > 0:
        budget -= 1
        if not attempt(dict(spec, batches=spec["batches"][:-1])):
            break
    # fewer constructs per batch / fewer S0 fields (only when nothing refers to them)
    def refs(s):
        return {tuple(f["from"]) for b in s["batches"] for f in b if "from" in f}
    for bi in range(len(spec["batches"]) - 1, -1, -1):
        i = 0
        while len(spec["batches"][bi]) > 1 and i < len(spec["batches"][bi]) and budget > 0:
            if any(r[0] == bi + 1 for r in refs(spec)):
                break
            budget -= 1
            s = json.loads(json.dumps(spec))
            del s["batches"][bi][i]
            if not attempt(s):
                i += 1
    # fewer edits
    for bi in range(len(spec["batches"])):
        for fi in range(len(spec["batches"][bi])):
            mods = spec["batches"][bi][fi].get("mods", [])
            k = 0
            while k < len(spec["batches"][bi][fi].get("mods", [])) and budget > 0:
                budget -= 1
                s = json.loads(json.dumps(spec))
                del s["batches"][bi][fi]["mods"][k]
                if not attempt(s):
                    k += 1
    return best


def extra_coverage(run):
    return dict(model_variants="the driver prints the prediction of the code with the pending proposed patch C17-append-dry-run-names "
                "and without it; agreement with either counts. The earlier C17 repairs (and d714c80, 52d4f19) are in /repo HEAD and are "
                "no longer alternatives: the implementation must agree with the model that has them (the oracle alone decides whether "
                "the property holds)")
