"""C17 — appending preserves everything already in the dataset.

Stream C17.seq: one scenario = a dataset E written by cfdm.write from a field set S0, followed by
1–3 appends cfdm.write(S_i, E, mode='a'|'r+') (harness/gen/fields_C17.py: example fields, random
fields of harness/gen/fields.py, copies of earlier fields sharing all / some / none of their
coordinates, same or other pinned netCDF names, featureType, groups, agreeing / disagreeing
description-of-file-contents properties, the five netCDF formats).  The scenario runs in a forked
child process (harness/c17_observe.py) so that a crash of the C libraries is an observable.

  impl     per append: status enum, sha256-unchanged flag, and the difference of the netCDF4-only
           views of the dataset before / after (new dimensions, new variables with their dimensions and
           reference attributes, "globals same").
  model    the Lean model of the two-pass writer (lean/Cfdm/Model/Append.lean) on the same inputs:
           the dataset as netCDF4 sees it, the fields the append reads back, the batch
           (harness/gen/abstract_C17.py).  Scenarios using features outside the model
           (compression, geometries, …) carry no model line and are judged by the oracle alone.
  agree    status and added dimensions / variables / reference attributes; generated name suffixes
           (`_1`, `_2`) are compared up to renumbering.
  oracle   harness/c17_oracle.py: refusals (raised + sha256), old fields (fingerprints before ⊆
           after), global attributes, every old variable and dimension (netCDF4), one new equal field
           per appended construct modulo the dataset's global attributes.
"""
import atexit
import json
import os
import random
import re

from .. import c17_observe as OBS
from .. import c17_oracle as ORA
from .. import fw
from ..fw import Case
from ..gen import fields_C17 as G

REQUIRED = [
    "C17_refusal_pure",
    "C17_refusal_iff_documented",
    "C17_dry_run_writes_nothing",
    "C17_monotone",
    "C17_monotone_sequence",
    "C17_names_fresh",
    "C17_old_readable",
    "C17_old_still_field",
    "C17_share_only_equal",
    "C17_globals_unchanged",
    "C17_unguarded_external_variables_rewrites_global",
]
BUDGET = {"quick": 80, "thorough": 2400}
QUICK_JOBS = 8
TIME_LIMIT = {"quick": 200, "thorough": 1500}
RULE = (
    "scenario = (format in {NETCDF4 x0.6, NETCDF4_CLASSIC, NETCDF3_CLASSIC, NETCDF3_64BIT_OFFSET, NETCDF3_64BIT_DATA}) x "
    "S0 of 1-3 fields {example_field(0..7), random_field} x 1-3 appends of 1-3 constructs each {copy of an earlier field "
    "with new data / other standard name and all, some or none of its coordinates kept equal (values, bounds, properties "
    "perturbed, constructs deleted); independent example/random field; Domain} x edits {pinned ncvar / coordinate ncvar / "
    "dimension names drawn from names present in the dataset, description-of-file-contents and other properties agreeing "
    "or not with the dataset's globals, nc_set_global_attribute with / without value, _FillValue / missing_value, "
    "featureType, netCDF groups} x mode {'a','r+'}. non-trivial = E could be written and read and at least one append "
    "was attempted; distinct = distinct scenario specification"
)
ASSUMPTIONS = [
    "contents of variables are abstract identities (fingerprint classes); data types, HDF5 storage, chunking and bytes on "
    "disk are outside the model and are covered by the oracle's netCDF4 view (sha of raw data, dtype) on every case",
    "the model covers fields/domains without compression by convention, geometries, scalar "
    "formula-term parameters, UGRID and groups (groups are refused in append mode); scenarios with those features "
    "are judged by the oracle alone (tag unmodelled)",
    "the reader is abstract in the theorems: any function of the read footprint (the variable, everything reachable from it "
    "through reference attributes and dimension names, and the global attributes); cfdm.read itself is sampled (stream 2)",
    "the request given to append uses the format of the dataset; an appended batch that cannot be written on its own "
    "in that format is not charged to append (its refusal may still not damage the dataset)",
    "the model is the code after the proposed patches fixes/C17-*.patch; on the unpatched tree the defects surface as "
    "known findings",
    "old fields are compared with netCDF names and nc_global_attributes; new fields modulo netCDF names (a pinned name that "
    "is in use is legitimately changed) against the mode-'w' round trip of the same construct (C01 precondition)",
]

_OBS = {}


def _cleanup():
    _OBS.clear()


atexit.register(_cleanup)


# --------------------------------------------------------------------------
# cases
# --------------------------------------------------------------------------
def mk_case(spec, tags=()):
    key = json.dumps(spec, sort_keys=True)
    return Case("C17.seq", spec, line=None, key=key, nontrivial=True, tags=tuple(tags))


def _tags(spec):
    t = ["fmt:" + spec.get("fmt", "NETCDF4"), f"appends:{len(spec['batches'])}"]
    mods = [m[0] for b in spec["batches"] for f in b for m in f.get("mods", ())]
    for name in ("extmsr", "groups", "ft", "domain", "fill", "global", "coordncvar", "dimname", "perturb", "delbounds"):
        if name in mods:
            t.append("mod:" + name)
    if any("from" in f for b in spec["batches"] for f in b):
        t.append("shares-coordinates")
    if spec.get("mode") == "r+":
        t.append("mode:r+")
    return t


FIXED = [
    # the defects reproduced by hand, always run
    {"fmt": "NETCDF4", "s0": [{"ex": 0}], "batches": [[{"ex": 1}]]},
    {"fmt": "NETCDF4", "s0": [{"ex": 0}], "batches": [[{"ex": 3}]]},
    {"fmt": "NETCDF4", "s0": [{"ex": 3}], "batches": [[{"from": [0, 0], "mods": [["newdata", 5]]}]]},
    {"fmt": "NETCDF4", "s0": [{"ex": 3}], "batches": [[{"ex": 4}]]},
    {"fmt": "NETCDF4", "s0": [{"ex": 2}], "batches": [[{"ex": 0, "mods": [["prop", "comment", "appended text"]]}]]},
    {"fmt": "NETCDF4", "s0": [{"ex": 2, "mods": [["prop", "comment", "first"]]}],
     "batches": [[{"ex": 0, "mods": [["prop", "comment", "first"]]}], [{"ex": 5, "mods": [["prop", "comment", "other"]]}]]},
    {"fmt": "NETCDF4", "s0": [{"ex": 2}], "batches": [[{"ex": 0, "mods": [["domain"]]}]]},
    {"fmt": "NETCDF4", "s0": [{"ex": 0}], "batches": [[{"ex": 7, "mods": [["fill", "missing_value", 120]]}]]},
    {"fmt": "NETCDF4", "s0": [{"ex": 0}], "batches": [[{"ex": 5, "mods": [["groups", ["forecast"]]]}]]},
    {"fmt": "NETCDF4", "s0": [{"ex": 0}], "batches": [[{"from": [0, 0], "mods": [["newdata", 1]]}], [{"from": [0, 0], "mods": [["newdata", 2], ["perturb", 0, 2]]}],
                                                      [{"from": [2, 0], "mods": [["newdata", 3], ["ncvar", "q"]]}]]},
    # external cell measures: name not listed by the dataset / listed / another one on the second append, with an external= file
    {"fmt": "NETCDF4", "s0": [{"ex": 0}], "batches": [[{"from": [0, 0], "mods": [["newdata", 7], ["stdname", "air_temperature"], ["extmsr", "areacella", False]]}]]},
    {"fmt": "NETCDF4", "s0": [{"ex": 0, "mods": [["extmsr", "areacella", False]]}],
     "batches": [[{"from": [0, 0], "mods": [["newdata", 8], ["ncvar", "ta"]]}], [{"ex": 0, "mods": [["ncvar", "ua"], ["extmsr", "areacello", True]]}]], "external": True},
    {"fmt": "NETCDF3_CLASSIC", "s0": [{"ex": 0}, {"ex": 2}], "batches": [[{"from": [0, 1], "mods": [["newdata", 4], ["delbounds", 1]]}]]},
]


def gen(rng, tier, n):
    os.environ["VERIF_TIER_C17"] = tier
    if rng.random() < 2.0:  # every worker: a slice of the fixed scenarios first
        pass
    k = rng.randrange(len(FIXED))
    m = 2 if tier == "quick" else 4
    for i in range(m):
        spec = FIXED[(k + i) % len(FIXED)]
        yield mk_case(spec, _tags(spec) + ["fixed"])
    for _ in range(max(0, n - m)):
        spec = G.random_scenario(rng, tier)
        yield mk_case(spec, _tags(spec))


def from_payload(stream, payload):
    return mk_case(payload, _tags(payload))


# --------------------------------------------------------------------------
# implementation side
# --------------------------------------------------------------------------
REF_ATTRS = ("coordinates", "bounds", "climatology", "formula_terms", "grid_mapping", "cell_measures", "ancillary_variables",
             "cell_methods", "dimensions")


def _show_added(v0, v1):
    nd = sorted((k, d) for k, d in v1["d"].items() if k not in v0["d"])
    nv = sorted((k, v) for k, v in v1["v"].items() if k not in v0["v"])
    D = ";".join(f"{k},{d[0]},{1 if d[1] else 0}" for k, d in nd)
    V = []
    for k, v in nv:
        at = sorted((a, x) for a, x in v["attrs"].items() if a in REF_ATTRS)
        V.append(f"{k}({','.join(v['dims'])})({'&'.join(f'{a}={x}' for a, x in at)})")
    same = "same" if v1["g"] == v0["g"] else "changed"
    return f"D[{D}] V[{';'.join(V)}] G={same}"


_T0 = [None]
SOFT_LIMIT = {"quick": 120, "thorough": 1200}


def impl(case):
    spec = case.payload
    # the runner only looks at its deadline between batches of 200 cases: keep an own clock per worker
    import time
    if _T0[0] is None:
        _T0[0] = time.time()
    tier = os.environ.get("VERIF_TIER_C17", "quick")
    if time.time() - _T0[0] > SOFT_LIMIT.get(tier, 150) and "fixed" not in case.tags and not case.payload.get("_replay"):
        case.nontrivial = False
        case.tags = case.tags + ("trivial:time-budget",)
        _OBS[case.key] = dict(e="skipped")
        return "skipped"
    obs = OBS.run_scenario(spec)
    _OBS[case.key] = obs
    if "harness_exc" in obs:
        # the scenario could not be built or observed (generator's edit not applicable, time-out): no verdict
        case.nontrivial = False
        case.tags = case.tags + ("trivial:harness-skip",)
        case.extra = obs["harness_exc"][-600:]
        return "skipped"
    if obs.get("e") != "ok" or not obs["steps"]:
        case.nontrivial = False
        case.tags = case.tags + ("trivial:" + str(obs.get("e") if obs.get("e") != "ok" else obs.get("stopped", "no-step"))[:40],)
        return "E:" + str(obs.get("e"))
    outs = []
    obs["steps"] = list(ORA.judged_steps(obs))
    modelled = all(st.get("abs") is not None for st in obs["steps"])
    for st in obs["steps"]:
        if st["status"] == "ok" and st.get("view1") is None:
            outs.append("ok unreadable")
        elif st["status"] == "ok":
            outs.append("ok " + _show_added(st["view0"], st["view1"]))
        elif st["status"].startswith("raised") and st.get("twins") is None and st.get("twin_stage") == "write":
            # the batch cannot be written on its own either (mode 'w' raises): what the writer does with it is not
            # append's matter and outside the model
            outs.append("n/a")
        elif st["status"].startswith("raised"):
            if st.get("sha_same"):
                outs.append("refused" if ORA.documented_unsupported(st, st["view0"], spec.get("fmt", "NETCDF4")) else st["status"] + " unchanged")
            else:
                outs.append(st["status"] + (" " + _show_added(st["view0"], st["view1"]) if st.get("view1") else " unreadable"))
        else:
            outs.append(st["status"])
    if modelled:
        j = dict(nc4=spec.get("fmt", "NETCDF4") == "NETCDF4", steps=[st["abs"] for st in obs["steps"]])
        js = json.dumps(j, separators=(",", ":")).replace(" ", "\\u0020")
        case.line = f"C17.seq fix=any j={js}"
    else:
        case.tags = case.tags + ("unmodelled",)
    if any(not st.get("twin_ok") for st in obs["steps"]):
        case.tags = case.tags + ("twin-precondition-failed",)
    for st in obs["steps"]:
        case.tags = case.tags + ("status:" + st["status"].split(":")[0],)
    return " || ".join(outs)


# --------------------------------------------------------------------------
# agreement
# --------------------------------------------------------------------------
_SUFFIX = re.compile(r"_\d+\b")


def _norm(s):
    return _SUFFIX.sub("_N", s)


def _parse_added(s):
    m = re.match(r"D\[(.*?)\] V\[(.*)\] G=(\w+)$", s)
    if not m:
        return None
    dims = sorted(x for x in m.group(1).split(";") if x)
    vs = sorted(x for x in m.group(2).split(";") if x)
    return dims, vs, m.group(3)


def _coords_sorted(v):
    # the order of the tokens of `coordinates` carries no meaning
    def f(m):
        return "coordinates=" + " ".join(sorted(m.group(1).split(" ")))
    return re.sub(r"coordinates=([^&)]*)", f, v)


def _same_added(a, b):
    pa, pb = _parse_added(a), _parse_added(b)
    if pa is None or pb is None:
        return False
    if pa[2] != pb[2]:
        return False
    va, vb = [_coords_sorted(x) for x in pa[1]], [_coords_sorted(x) for x in pb[1]]
    if pa[0] == pb[0] and sorted(va) == sorted(vb):
        return True
    return sorted(map(_norm, pa[0])) == sorted(map(_norm, pb[0])) and sorted(map(_norm, va)) == sorted(map(_norm, vb))


def _agree_one(I, M):
    if len(I) > len(M):
        return False
    for i, m in zip(I, M):
        if i in ("crashed", "n/a"):
            continue  # the C library died / the batch is unwritable on its own: nothing to compare
        if i == "refused":
            if not m.startswith("refused:"):
                return False
            continue
        if m.startswith("refused:"):
            return False
        if i.startswith("ok "):
            if not (m.startswith("ok ") and _same_added(i[3:], m[3:])):
                return False
            continue
        if i.startswith("raised"):
            # a failure mid-way: the model must fail too (its enum and the partial state are not compared:
            # netCDF4's error type is not part of the property)
            if not m.startswith("failed:"):
                return False
            continue
        return False
    return True


def agree(case):
    """The implementation's view must be the model's prediction for the patched code or for the code
    with some of the proposed patches absent (the driver prints every distinct prediction)."""
    if case.model_out is None:
        return True
    I = case.impl_out.split(" || ")
    return any(_agree_one(I, alt.split(" || ")) for alt in case.model_out.split(" ### "))


# --------------------------------------------------------------------------
# oracle, classification, shrinking
# --------------------------------------------------------------------------
def _obs(case):
    o = _OBS.get(case.key)
    if o is None:
        o = OBS.run_scenario(case.payload)
        _OBS[case.key] = o
    return o


def oracle(case):
    o = _obs(case)
    v = ORA.judge(o, case.payload)
    if v:
        # the signature travels with the case (the observation stays in the worker process)
        case.extra = dict(signature=_classify(case), note=case.extra if isinstance(case.extra, str) else None)
    return v


def classify(case):
    if isinstance(case.extra, dict) and "signature" in case.extra:
        return case.extra["signature"]
    return _classify(case)


def _classify(case):
    """Signature of a failing scenario: the mechanism, decided from the input and the observation."""
    o = _obs(case)
    if "steps" not in o:
        return None
    spec = case.payload
    fmt = spec.get("fmt", "NETCDF4")
    sigs = []
    for st in ORA.judged_steps(o):
        sigs += ORA.mechanisms(st, fmt)
    sigs = sorted(set(sigs))
    if not sigs:
        return None
    # one signature per failing case: the first mechanism in a fixed priority order
    for s in ORA.PRIORITY:
        if s in sigs:
            return s
    return sigs[0]


def _fails_same(case, sig):
    c = mk_case(case.payload)
    c.impl_out = impl(c)
    c.oracle_fail = oracle(c)
    return c if (c.oracle_fail and classify(c) == sig) else None


def shrink(case, run):
    """Drop appends, fields and edits while the same mechanism still fails."""
    sig = classify(case)
    spec = json.loads(json.dumps(case.payload))
    best = case

    def attempt(s):
        nonlocal best, spec
        try:
            c = mk_case(s)
            c.impl_out = impl(c)
            c.oracle_fail = oracle(c)
            if c.oracle_fail and classify(c) == sig:
                best, spec = c, s
                return True
        except fw.HarnessError:
            pass
        return False

    budget = 14
    # fewer appends
    while len(spec["batches"]) > 1 and budget > 0:
        budget -= 1
        if not attempt(dict(spec, batches=spec["batches"][:-1])):
            break
    # fewer constructs per batch / fewer S0 fields (only when nothing refers to them)
    def refs(s):
        return {tuple(f["from"]) for b in s["batches"] for f in b if "from" in f}
    for bi in range(len(spec["batches"]) - 1, -1, -1):
        i = 0
        while len(spec["batches"][bi]) > 1 and i < len(spec["batches"][bi]) and budget > 0:
            if any(r[0] == bi + 1 for r in refs(spec)):
                break
            budget -= 1
            s = json.loads(json.dumps(spec))
            del s["batches"][bi][i]
            if not attempt(s):
                i += 1
    # fewer edits
    for bi in range(len(spec["batches"])):
        for fi in range(len(spec["batches"][bi])):
            mods = spec["batches"][bi][fi].get("mods", [])
            k = 0
            while k < len(spec["batches"][bi][fi].get("mods", [])) and budget > 0:
                budget -= 1
                s = json.loads(json.dumps(spec))
                del s["batches"][bi][fi]["mods"][k]
                if not attempt(s):
                    k += 1
    return best


def extra_coverage(run):
    return dict(model_variants="the driver prints the prediction of the patched code and of every combination of absent patches; "
                "agreement with any of them counts (the oracle alone decides whether the property holds)")
