"""C14 — geometry cells are decoded and encoded as CF chapter 7.5 defines.

Streams
  C14.read   random cells hand-encoded with netCDF4 -> cfdm.read -> bounds.array,
             interior ring, shape, geometry type          (model + independent CF 7.5 decoder)
  C14.write  a field built through the API from random cells -> cfdm.write -> the
             node / count / ring variables read back with netCDF4
                                                          (model + independent CF 7.5 decoder)
  C14.rt     hand-encoded -> cfdm.read -> cfdm.write -> independent decoder = original cells
                                                          (oracle only)
  C14.seed   the geometry files of cfdm/test/create_test_files.py (function bodies loaded
             with ast) -> cfdm.read vs the independent decoder  (oracle only)

The node values written to a file are the node's offset in file order (+1000*k for
the k-th node coordinate variable), so every observable is a list of offsets.
"""
import ast
import atexit
import os
import shutil
import tempfile

import numpy as np

from .. import fw
from ..fw import Case, fmt_list

REQUIRED = [
    "C14_assign",
    "C14_assign_of_ends",
    "C14_old_assign_counterexample",
    "C14_decode",
    "C14_decode_no_part_node_count",
    "C14_decode_points",
    "C14_interior_ring",
    "C14_shape_without_data",
    "C14_write",
    "C14_write_ring",
    "C14_old_write_counterexample",
    "C14_written_part_node_count",
    "C14_consistent",
    "C14_spec_decode_encode",
    "C14_encode_decode",
]
BUDGET = {"quick": 2000, "thorough": 50000}
RULE = (
    "geometry containers with 1-6 cells x 1-4 parts per cell x 1-5 nodes per part (varying inside a container), "
    "geometry_type point/line/polygon, node_count / part_node_count / interior_ring present or absent where CF allows, "
    "1-3 node coordinate variables (x,y,z), any subset of them with representative coordinates, data variable on "
    "(instance[,time]) in either order, NETCDF4 or NETCDF3 files; for the write half the same cells as a field "
    "built ab initio (no file involved). non-trivial = more than one cell, or more than one part, or more than one "
    "node; distinct = distinct (stream, cell structure, ring flags, presence flags, coordinate sets)"
)
ASSUMPTIONS = [
    "node values are abstract labels (their file offsets); dtypes, units and packing are outside the model",
    "containers are CF-consistent: every count >= 1, sum(part_node_count) = sum(node_count) = number of nodes, "
    "cell boundaries fall on part boundaries (the theorems carry exactly these hypotheses)",
    "one geometry container per file; no grid mapping on the container (cfdm.write of grid mappings is a separate finding)",
]
TIME_LIMIT = {"quick": 170, "thorough": 1400}
QUICK_JOBS = 8

_cfdm = None


def cfdm():
    global _cfdm
    if _cfdm is None:
        import cfdm as m
        m.log_level("DISABLE")
        _cfdm = m
    return _cfdm


_scratch = None


def pre():
    """Called by ./check in the parent before the workers are forked: one scratch directory
    for the whole run, removed when the parent exits (pool workers are terminated without
    running exit handlers, so they must not own directories)."""
    scratch()


def scratch():
    global _scratch
    if _scratch is None or not os.path.isdir(_scratch):
        _scratch = tempfile.mkdtemp(prefix="verif_c14_")
        atexit.register(shutil.rmtree, _scratch, True)
    return _scratch


_counter = [0]


def tmpfile(tag):
    _counter[0] += 1
    return os.path.join(scratch(), f"{tag}_{os.getpid()}_{_counter[0]}.nc")


STD = {
    "x": ("longitude", "degrees_east", "X", "lon"),
    "y": ("latitude", "degrees_north", "Y", "lat"),
    "z": ("altitude", "m", "Z", "alt"),
}


# ---------------------------------------------------------------- generators
def gen_cells(rng, single_node=False, single_part=False):
    """Cell structure: per cell the list of part sizes."""
    ncells = rng.choice([1, 2, 2, 3, 3, 3, 4, 4, 5, 6])
    maxp = 1 if single_part else rng.choice([1, 2, 2, 3, 3, 4])
    maxn = 1 if single_node else rng.choice([1, 2, 3, 3, 4, 5, 5])
    cells = []
    for _ in range(ncells):
        npart = rng.randint(1, maxp)
        cells.append([rng.randint(1, maxn) for _ in range(npart)])
    return cells


def gen_container(rng):
    gtype = rng.choice(["point", "line", "polygon", "polygon"])
    r = rng.random()
    use_nc, use_pnc, use_ring = True, True, False
    if gtype == "point":
        if r < 0.3:
            # no node_count: every cell is one point
            use_nc, use_pnc = False, False
            cells = gen_cells(rng, single_node=True, single_part=True)
        elif r < 0.85:
            # multipoint: node_count, one part per cell
            use_pnc = False
            cells = gen_cells(rng, single_part=True)
        else:
            # multipoint where each point is also given as a part
            cells = [[1] * len(c) for c in gen_cells(rng)]
    else:
        if r < 0.25:
            use_pnc = False
            cells = gen_cells(rng, single_part=True)
        else:
            cells = gen_cells(rng)
        if gtype == "polygon" and use_pnc:
            use_ring = rng.random() < 0.6
    ring = None
    if use_ring:
        # the first part of a polygon cell is an exterior ring
        ring = [[0] + [rng.randint(0, 1) for _ in c[1:]] for c in cells]
    coords = rng.choice([["x"], ["y"], ["x", "y"], ["x", "y"], ["x", "y"], ["x", "z"], ["y", "z"],
                         ["x", "y", "z"], ["x", "y", "z"]])
    rep = [a for a in coords if rng.random() < 0.6]
    return dict(gtype=gtype, cells=cells, use_nc=use_nc, use_pnc=use_pnc, ring=ring, coords=coords, rep=rep)


def gen(rng, tier, n):
    n_read = int(n * 0.55)
    n_write = int(n * 0.3)
    n_rt = int(n * 0.15)
    for s in seed_names():
        yield mk_seed(dict(seed=s))
    for _ in range(n_read):
        p = gen_container(rng)
        p["layout"] = rng.choice(["it", "it", "ti", "i"])
        p["fmt"] = rng.choice(["NETCDF4", "NETCDF4", "NETCDF3_CLASSIC"])
        yield mk_read(p)
    for _ in range(n_write):
        p = gen_container(rng)
        # written fields: node_count is always written; keep the presence of part_node_count
        # properties / netCDF names as a variation only
        p["named"] = rng.random() < 0.5
        p["layout"] = rng.choice(["it", "i"])
        yield mk_write(p)
    for _ in range(n_rt):
        p = gen_container(rng)
        p["layout"] = rng.choice(["it", "ti", "i"])
        p["fmt"] = "NETCDF4"
        yield mk_rt(p)


def enc_cells(cells):
    return "[" + ";".join(",".join(str(v) for v in c) for c in cells) + "]"


def _tags(stream, p):
    cells = p["cells"]
    t = [
        f"{stream}:type={p['gtype']}",
        f"{stream}:cells={len(cells)}",
        f"{stream}:maxparts={max(len(c) for c in cells)}",
        f"{stream}:node_count={'y' if p['use_nc'] else 'n'}",
        f"{stream}:part_node_count={'y' if p['use_pnc'] else 'n'}",
        f"{stream}:interior_ring={'y' if p['ring'] is not None else 'n'}",
        f"{stream}:ncoords={len(p['coords'])}",
        f"{stream}:nrep={len(p['rep'])}",
    ]
    return t


def _nontrivial(p):
    cells = p["cells"]
    return len(cells) > 1 or any(len(c) > 1 or c[0] > 1 for c in cells)


def mk_read(p):
    p = dict(p)
    cells = p["cells"]
    nn = sum(sum(c) for c in cells)
    nc = fmt_list([sum(c) for c in cells]) if p["use_nc"] else "-"
    pnc = fmt_list([v for c in cells for v in c]) if p["use_pnc"] else "-"
    ring = fmt_list([v for c in p["ring"] for v in c]) if p["ring"] is not None else "-"
    line = f"C14.read ncells={len(cells)} nnodes={nn} nc={nc} pnc={pnc} ring={ring}"
    key = f"{line} {p['gtype']} {p['coords']} {p['rep']} {p['layout']}"
    return Case("C14.read", p, line, key=key, nontrivial=_nontrivial(p), tags=_tags("read", p))


def mk_write(p):
    p = dict(p)
    ring = enc_cells(p["ring"]) if p["ring"] is not None else "-"
    line = f"C14.write cells={enc_cells(p['cells'])} ring={ring}"
    key = f"{line} {p['gtype']} {p['coords']} {p['rep']} {p.get('named')} {p['layout']}"
    return Case("C14.write", p, line, key=key, nontrivial=_nontrivial(p), tags=_tags("write", p))


def mk_rt(p):
    p = dict(p)
    key = f"rt {enc_cells(p['cells'])} {p['ring']} {p['gtype']} {p['use_nc']} {p['use_pnc']} {p['coords']} {p['rep']} {p['layout']}"
    return Case("C14.rt", p, None, key=key, nontrivial=_nontrivial(p), tags=_tags("rt", p))


def mk_seed(p):
    return Case("C14.seed", dict(p), None, key="seed " + p["seed"], nontrivial=True, tags=["seed:" + p["seed"]])


def from_payload(stream, payload):
    return {"C14.read": mk_read, "C14.write": mk_write, "C14.rt": mk_rt, "C14.seed": mk_seed}[stream](payload)


# ---------------------------------------------------------------- hand encoder (netCDF4 only)
def hand_encode(path, p):
    """Write the container described by `p` with netCDF4, by the letter of CF 7.5."""
    import netCDF4

    cells = p["cells"]
    ncells = len(cells)
    nn = sum(sum(c) for c in cells)
    npart = sum(len(c) for c in cells)
    n = netCDF4.Dataset(path, "w", format=p.get("fmt", "NETCDF4"))
    n.Conventions = "CF-1.11"
    n.createDimension("instance", ncells)
    layout = p.get("layout", "it")
    if "t" in layout:
        n.createDimension("time", 2)
        t = n.createVariable("time", "i4", ("time",))
        t.standard_name = "time"
        t.units = "days since 2000-01-01"
        t[...] = [0, 1]
    # without a node_count variable the nodes are on the geometry dimension itself
    node_dim = "node" if p["use_nc"] else "instance"
    if p["use_nc"]:
        n.createDimension("node", nn)
    for k, a in enumerate(p["coords"]):
        v = n.createVariable(a, "f8", (node_dim,))
        v.standard_name, v.units, v.axis = STD[a][:3]
        v[...] = np.arange(nn) + 1000.0 * k
    repnames = []
    for a in p["rep"]:
        nm = STD[a][3]
        v = n.createVariable(nm, "f8", ("instance",))
        v.standard_name, v.units = STD[a][:2]
        v.nodes = a
        v[...] = np.arange(ncells) * 10.0 + 5.0
        repnames.append(nm)
    gc = n.createVariable("gc", "i4", ())
    gc.geometry_type = p["gtype"]
    gc.node_coordinates = " ".join(p["coords"])
    if repnames:
        gc.coordinates = " ".join(repnames)
    if p["use_nc"]:
        v = n.createVariable("node_count", "i4", ("instance",))
        v[...] = [sum(c) for c in cells]
        gc.node_count = "node_count"
    if p["use_pnc"]:
        n.createDimension("part", npart)
        v = n.createVariable("part_node_count", "i4", ("part",))
        v[...] = [x for c in cells for x in c]
        gc.part_node_count = "part_node_count"
    if p["ring"] is not None:
        v = n.createVariable("interior_ring", "i4", ("part",))
        v[...] = [x for c in p["ring"] for x in c]
        gc.interior_ring = "interior_ring"
    dims = {"it": ("instance", "time"), "ti": ("time", "instance"), "i": ("instance",)}[layout]
    pr = n.createVariable("pr", "f8", dims)
    pr.standard_name = "precipitation_amount"
    pr.units = "kg m-2"
    cs = (["time"] if "t" in layout else []) + repnames
    if cs:
        pr.coordinates = " ".join(cs)
    pr.geometry = "gc"
    shape = tuple(ncells if d == "instance" else 2 for d in dims)
    pr[...] = np.arange(int(np.prod(shape))).reshape(shape)
    n.close()


def abstract_file(path):
    """Everything an independent decoder needs, read with netCDF4 only."""
    import netCDF4

    n = netCDF4.Dataset(path)
    n.set_auto_maskandscale(False)
    out = dict(dims={k: len(v) for k, v in n.dimensions.items()}, vars={})
    for k, v in n.variables.items():
        atts = {}
        for a in v.ncattrs():
            x = v.getncattr(a)
            atts[a] = x if isinstance(x, str) else np.asarray(x).tolist()
        vals = None
        if v.dtype.kind in "iuf":
            vals = np.asarray(v[...]).tolist()
        out["vars"][k] = dict(dims=list(v.dimensions), atts=atts, vals=vals)
    n.close()
    return out


# ---------------------------------------------------------------- independent CF 7.5 decoder
class Undecodable(Exception):
    pass


def cf75_decode(af, container):
    """Decode a geometry container of an abstract file by the text of CF 7.5.

    Returns dict(type, cells={node var: [[[values]]]}, ring=[[flags]] or None, ncells).
    """
    V = af["vars"]
    if container not in V:
        raise Undecodable("no container variable")
    atts = V[container]["atts"]
    node_vars = str(atts.get("node_coordinates", "")).split()
    if not node_vars:
        raise Undecodable("no node_coordinates")
    for a in node_vars:
        if a not in V or len(V[a]["dims"]) != 1:
            raise Undecodable(f"node coordinate {a} missing or not 1-d")
    node_dim = V[node_vars[0]]["dims"][0]
    if any(V[a]["dims"][0] != node_dim for a in node_vars):
        raise Undecodable("node coordinate variables on different dimensions")
    total = af["dims"][node_dim]
    if "node_count" in atts:
        if atts["node_count"] not in V:
            raise Undecodable("node_count variable missing")
        nc = [int(x) for x in V[atts["node_count"]]["vals"]]
    else:
        nc = [1] * total
    if sum(nc) != total or any(x < 1 for x in nc):
        raise Undecodable(f"node_count {nc} inconsistent with {total} nodes")
    if "part_node_count" in atts:
        if atts["part_node_count"] not in V:
            raise Undecodable("part_node_count variable missing")
        pnc = [int(x) for x in V[atts["part_node_count"]]["vals"]]
    else:
        pnc = list(nc)
    if sum(pnc) != total or any(x < 1 for x in pnc):
        raise Undecodable(f"part_node_count {pnc} inconsistent with {total} nodes")
    ring = None
    if "interior_ring" in atts:
        if atts["interior_ring"] not in V:
            raise Undecodable("interior_ring variable missing")
        if "part_node_count" not in atts:
            raise Undecodable("interior_ring without part_node_count")
        ring = [int(x) for x in V[atts["interior_ring"]]["vals"]]
        if len(ring) != len(pnc):
            raise Undecodable("interior_ring and part_node_count differ in length")
        if V[atts["interior_ring"]]["dims"] != V[atts["part_node_count"]]["dims"]:
            raise Undecodable("interior_ring and part_node_count on different dimensions")
    # cell boundaries (cumulative node counts) must be part boundaries
    cell_end = np.cumsum(nc).tolist()
    part_start = np.concatenate([[0], np.cumsum(pnc)[:-1]]).astype(int).tolist() if pnc else []
    part_end = set(np.cumsum(pnc).tolist())
    if any(e not in part_end for e in cell_end):
        raise Undecodable("a cell boundary falls inside a part")
    # part p belongs to the cell whose node range holds its first node
    part_cell = [sum(1 for e in cell_end if e <= s) for s in part_start]
    cells = {}
    for a in node_vars:
        vals = V[a]["vals"]
        out = [[] for _ in nc]
        for p_, (s, m, c) in enumerate(zip(part_start, pnc, part_cell)):
            out[c].append(vals[s:s + m])
        cells[a] = out
    rings = None
    if ring is not None:
        rings = [[] for _ in nc]
        for r, c in zip(ring, part_cell):
            rings[c].append(r)
    return dict(type=atts.get("geometry_type"), cells=cells, ring=rings, ncells=len(nc), node_vars=node_vars)


def pad3(cells):
    """bounds[c][i][j] = node j of part i of cell c, else masked (None)."""
    mp = max(len(c) for c in cells)
    mn = max(len(p) for c in cells for p in c)
    flat = []
    for c in cells:
        for i in range(mp):
            part = c[i] if i < len(c) else []
            flat += list(part) + [None] * (mn - len(part))
    return [len(cells), mp, mn], flat


def pad2(rows):
    mp = max(len(r) for r in rows)
    return [len(rows), mp], [x for r in rows for x in list(r) + [None] * (mp - len(r))]


def show(flat):
    return "[" + ",".join("--" if x is None else str(int(x)) for x in flat) + "]"


def flat_masked(a, offset=0.0):
    a = np.ma.asanyarray(a)
    m = np.ma.getmaskarray(a).flatten()
    d = np.ma.getdata(a).flatten()
    out = []
    for x, mm in zip(d, m):
        if mm:
            out.append(None)
        else:
            y = float(x) - offset
            out.append(int(y) if y == int(y) else y)
    return out


# ---------------------------------------------------------------- implementation: read half
def observe_field(f, coords):
    """Observables of a geometry field, per node coordinate variable name."""
    obs = {}
    auxs = f.auxiliary_coordinates(todict=True)
    for k, a in enumerate(coords):
        found = [c for c in auxs.values() if c.has_bounds() and c.bounds.nc_get_variable(None) == a]
        if len(found) != 1:
            obs[a] = dict(error=f"{len(found)} auxiliary coordinates carry node variable {a}")
            continue
        c = found[0]
        b = c.bounds.array
        o = dict(
            shape=list(b.shape),
            b=flat_masked(b, 1000.0 * k),
            cshape=list(c.shape),
            cndim=c.ndim,
            csize=c.size,
            type=c.get_geometry(None),
            has_data=c.has_data(),
            data=(np.asarray(c.array).tolist() if c.has_data() else None),
            ring=None,
        )
        if c.has_interior_ring():
            r = c.get_interior_ring().array
            o["ring_shape"] = list(r.shape)
            o["ring"] = flat_masked(r)
        obs[a] = o
    return obs


def canon_read(obs):
    outs = set()
    for a, o in obs.items():
        if "error" in o:
            outs.add("error:" + o["error"])
            continue
        ring = show(o["ring"]) if o["ring"] is not None else "-"
        outs.add(f"cshape={fmt_list(o['cshape'])} shape={fmt_list(o['shape'])} b={show(o['b'])} ring={ring}")
    outs = sorted(outs)
    return outs[0] if len(outs) == 1 else "differ:" + " | ".join(outs)


def impl_read(c):
    C = cfdm()
    p = c.payload
    path = tmpfile("r")
    try:
        hand_encode(path, p)
        c.extra = dict(file=abstract_file(path))
        try:
            fs = C.read(path)
        except Exception as e:
            c.extra["obs"] = None
            return "raised:" + fw.exc_enum(e)
        if len(fs) != 1:
            c.extra["obs"] = None
            return f"fields={len(fs)}"
        f = fs[0]
        c.extra["obs"] = observe_field(f, p["coords"])
        c.extra["fshape"] = list(f.shape)
        return canon_read(c.extra["obs"])
    finally:
        if os.path.exists(path):
            os.remove(path)


# ---------------------------------------------------------------- implementation: write half
def build_field(p):
    """A geometry field built through the public API only (no file)."""
    C = cfdm()
    cells = p["cells"]
    ncells = len(cells)
    f = C.Field(properties={"standard_name": "precipitation_amount", "units": "kg m-2"})
    f.nc_set_variable("pr")
    ai = f.set_construct(C.DomainAxis(ncells))
    f.domain_axes(todict=True)[ai].nc_set_dimension("instance")
    axes = [ai]
    if "t" in p.get("layout", "i"):
        at = f.set_construct(C.DomainAxis(2))
        t = C.DimensionCoordinate(properties={"standard_name": "time", "units": "days since 2000-01-01"},
                                  data=C.Data(np.array([0, 1], dtype="i4")))
        t.nc_set_variable("time")
        f.set_construct(t, axes=[at])
        axes.append(at)
    shape = [ncells] + ([2] if len(axes) == 2 else [])
    f.set_data(C.Data(np.arange(int(np.prod(shape)), dtype=float).reshape(shape)), axes=axes)
    # node offsets in file order
    off = 0
    idcells = []
    for c in cells:
        cc = []
        for m in c:
            cc.append(list(range(off, off + m)))
            off += m
        idcells.append(cc)
    shp, flat = pad3(idcells)
    mask = np.array([x is None for x in flat]).reshape(shp)
    base = np.array([0 if x is None else x for x in flat], dtype=float).reshape(shp)
    for k, a in enumerate(p["coords"]):
        sn, un, ax, nm = STD[a]
        aux = C.AuxiliaryCoordinate(properties={"standard_name": sn, "units": un})
        b = C.Bounds(data=C.Data(np.ma.array(base + 1000.0 * k, mask=mask)))
        b.set_properties({"standard_name": sn, "units": un, "axis": ax})
        b.nc_set_variable(a)
        aux.set_bounds(b)
        aux.set_geometry(p["gtype"])
        if a in p["rep"]:
            aux.set_data(C.Data(np.arange(ncells) * 10.0 + 5.0))
            aux.nc_set_variable(nm)
        if p["ring"] is not None:
            rs, rflat = pad2(p["ring"])
            rm = np.array([x is None for x in rflat]).reshape(rs)
            rb = np.array([0 if x is None else x for x in rflat], dtype="i4").reshape(rs)
            ir = C.InteriorRing(data=C.Data(np.ma.array(rb, mask=rm)))
            if p.get("named"):
                ir.nc_set_variable("interior_ring")
            aux.set_interior_ring(ir)
        if p.get("named"):
            ncp = C.NodeCountProperties()
            ncp.nc_set_variable("node_count")
            aux.set_node_count(ncp)
            pncp = C.PartNodeCountProperties()
            pncp.nc_set_variable("part_node_count")
            pncp.nc_set_dimension("part")
            aux.set_part_node_count(pncp)
        f.set_construct(aux, axes=[ai])
    return f


def container_of(af):
    """The geometry container the data variable(s) point to."""
    names = set()
    for k, v in af["vars"].items():
        g = v["atts"].get("geometry")
        if isinstance(g, str):
            names.add(g)
    if len(names) != 1:
        raise Undecodable(f"{len(names)} geometry containers referenced")
    return names.pop()


def canon_written(af, coords):
    """node / count / ring variables of a written file as the model prints them."""
    try:
        g = container_of(af)
    except Undecodable as e:
        return "undecodable:" + str(e)
    V = af["vars"]
    atts = V[g]["atts"]

    def vals(att):
        name = atts.get(att)
        if not isinstance(name, str):
            return None
        if name not in V:
            return "missing"
        return V[name]["vals"]

    nc, pnc, ring = vals("node_count"), vals("part_node_count"), vals("interior_ring")
    node_vars = str(atts.get("node_coordinates", "")).split()
    nodes = set()
    for a in node_vars:
        k = coords.index(a) if a in coords else 0
        if a in V and V[a]["vals"] is not None:
            nodes.add(show([x - 1000.0 * k for x in V[a]["vals"]]))
        else:
            nodes.add("missing")
    nodes = sorted(nodes)
    nodes = nodes[0] if len(nodes) == 1 else "differ:" + "|".join(nodes)

    def s(x):
        return "-" if x is None else (x if isinstance(x, str) else fmt_list(x))

    return f"nc={s(nc)} pnc={s(pnc)} ring={s(ring)} nodes={nodes}"


def impl_write(c):
    C = cfdm()
    p = c.payload
    path = tmpfile("w")
    c.extra = dict(file=None)
    try:
        f = build_field(p)
        try:
            C.write(f, path)
        except Exception as e:
            return "raised:" + fw.exc_enum(e)
        c.extra["file"] = abstract_file(path)
        return canon_written(c.extra["file"], p["coords"])
    finally:
        if os.path.exists(path):
            os.remove(path)


def impl_rt(c):
    C = cfdm()
    p = c.payload
    path, path2 = tmpfile("a"), tmpfile("b")
    c.extra = dict(file=None, file2=None)
    try:
        hand_encode(path, p)
        c.extra["file"] = abstract_file(path)
        try:
            fs = C.read(path)
            if len(fs) != 1:
                return f"fields={len(fs)}"
            C.write(fs[0], path2)
        except Exception as e:
            return "raised:" + fw.exc_enum(e)
        c.extra["file2"] = abstract_file(path2)
        return "ok"
    finally:
        for q in (path, path2):
            if os.path.exists(q):
                os.remove(q)


# ---------------------------------------------------------------- seeds from the test suite
_seed_funcs = None
SEEDS = ["_make_geometry_1_file", "_make_geometry_2_file", "_make_geometry_3_file", "_make_geometry_4_file",
         "_make_interior_ring_file", "_make_interior_ring_file_2"]


def seed_funcs():
    global _seed_funcs
    if _seed_funcs is None:
        import netCDF4
        src = (fw.REPO / "cfdm" / "test" / "create_test_files.py").read_text()
        tree = ast.parse(src)
        ns = dict(netCDF4=netCDF4, np=np, VN="1.11", os=os)
        _seed_funcs = {}
        for node in tree.body:
            if isinstance(node, ast.FunctionDef) and node.name in SEEDS:
                mod = ast.Module(body=[node], type_ignores=[])
                try:
                    exec(compile(mod, "create_test_files.py", "exec"), ns)
                    _seed_funcs[node.name] = ns[node.name]
                except Exception:
                    pass
    return _seed_funcs


def seed_names():
    return sorted(seed_funcs())


def impl_seed(c):
    C = cfdm()
    name = c.payload["seed"]
    path = tmpfile("s")
    c.extra = dict(file=None, per_field=[])
    try:
        try:
            seed_funcs()[name](path)
        except Exception as e:
            # the generator itself cannot run with the installed netCDF4: nothing to check
            c.extra["skip"] = repr(e)[:100]
            return "seed-not-generated"
        af = abstract_file(path)
        c.extra["file"] = af
        try:
            fs = C.read(path)
        except Exception as e:
            return "raised:" + fw.exc_enum(e)
        g = container_of(af)
        node_vars = str(af["vars"][g]["atts"]["node_coordinates"]).split()
        for f in fs:
            obs = {}
            auxs = f.auxiliary_coordinates(todict=True)
            for a in node_vars:
                found = [x for x in auxs.values() if x.has_bounds() and x.bounds.nc_get_variable(None) == a]
                if len(found) != 1:
                    obs[a] = dict(error=f"{len(found)} coordinates for {a}")
                    continue
                x = found[0]
                o = dict(shape=list(x.bounds.shape), b=flat_masked(x.bounds.array), cshape=list(x.shape),
                         type=x.get_geometry(None), ring=None)
                if x.has_interior_ring():
                    o["ring"] = flat_masked(x.get_interior_ring().array)
                obs[a] = o
            c.extra["per_field"].append(obs)
        return f"fields={len(fs)}"
    finally:
        if os.path.exists(path):
            os.remove(path)


def impl(c):
    if c.stream == "C14.read":
        return impl_read(c)
    if c.stream == "C14.write":
        return impl_write(c)
    if c.stream == "C14.rt":
        return impl_rt(c)
    if c.stream == "C14.seed":
        return impl_seed(c)
    raise fw.HarnessError("unknown stream " + c.stream)


def agree(c):
    return c.impl_out == c.model_out


# ---------------------------------------------------------------- oracle
def id_cells(cells):
    off = 0
    out = []
    for c in cells:
        cc = []
        for m in c:
            cc.append(list(range(off, off + m)))
            off += m
        out.append(cc)
    return out


def check_decoded_is_payload(dec, p, where):
    """The independent decoder applied to the harness's own file must give the generated cells."""
    want = id_cells(p["cells"])
    for k, a in enumerate(p["coords"]):
        got = [[[int(x - 1000.0 * k) for x in part] for part in cell] for cell in dec["cells"][a]]
        if got != want:
            raise fw.HarnessError(f"{where}: the independent decoder does not recover the generated cells for {a}")
    if (dec["ring"] is None) != (p["ring"] is None) or (p["ring"] is not None and dec["ring"] != p["ring"]):
        raise fw.HarnessError(f"{where}: the independent decoder does not recover the generated ring flags")


def oracle_read(c):
    p = c.payload
    ex = c.extra if isinstance(c.extra, dict) else {}
    af = ex.get("file")
    if af is None:
        return "no file was produced: " + str(c.impl_out)
    dec = cf75_decode(af, "gc")
    check_decoded_is_payload(dec, p, "read")
    obs = ex.get("obs")
    if obs is None:
        return f"cfdm.read failed on a CF-compliant geometry container: {c.impl_out}"
    if ex.get("fshape") is not None:
        want = [len(p["cells"]) if d == "i" else 2 for d in p["layout"]]
        if ex["fshape"] != want:
            return f"field shape {ex['fshape']} != {want}"
    for k, a in enumerate(p["coords"]):
        o = obs[a]
        if "error" in o:
            return o["error"]
        cells = [[[int(x - 1000.0 * k) for x in part] for part in cell] for cell in dec["cells"][a]]
        shp, flat = pad3(cells)
        if o["shape"] != shp:
            return f"{a}: bounds shape {o['shape']} != {shp} (cells x max parts x max nodes)"
        if o["b"] != flat:
            return f"{a}: bounds {show(o['b'])} != cells in file order padded {show(flat)}"
        if o["cshape"] != [dec["ncells"]] or o["cndim"] != 1 or o["csize"] != dec["ncells"]:
            return f"{a}: coordinate shape/ndim/size {o['cshape']}/{o['cndim']}/{o['csize']} are not those of {dec['ncells']} cells"
        if o["type"] != dec["type"]:
            return f"{a}: geometry type {o['type']} != {dec['type']}"
        if o["has_data"] != (a in p["rep"]):
            return f"{a}: representative coordinate presence wrong"
        if o["has_data"] and o["data"] != [10.0 * i + 5.0 for i in range(dec["ncells"])]:
            return f"{a}: representative coordinate values changed"
        if dec["ring"] is None:
            if o["ring"] is not None:
                return f"{a}: interior ring invented"
        else:
            if o["ring"] is None:
                return f"{a}: interior ring lost"
            rs, rflat = pad2(dec["ring"])
            if o["ring_shape"] != rs or o["ring"] != rflat:
                return f"{a}: interior ring {show(o['ring'])} shape {o['ring_shape']} != flags by part {show(rflat)} shape {rs}"
    return None


def oracle_written(af, p, where):
    """The written file, decoded independently, must give the cells of `p`."""
    if af is None:
        return f"{where}: no file written"
    try:
        g = container_of(af)
        dec = cf75_decode(af, g)
    except Undecodable as e:
        return f"{where}: written container is not decodable by CF 7.5: {e}"
    if sorted(dec["node_vars"]) != sorted(p["coords"]):
        return f"{where}: node coordinate variables {dec['node_vars']} != {p['coords']}"
    if dec["type"] != p["gtype"]:
        return f"{where}: geometry_type {dec['type']} != {p['gtype']}"
    want = id_cells(p["cells"])
    for k, a in enumerate(p["coords"]):
        got = [[[x - 1000.0 * k for x in part] for part in cell] for cell in dec["cells"][a]]
        if got != want:
            return f"{where}: {a}: decoded cells {got} != {want}"
    if p["ring"] is None:
        if dec["ring"] is not None:
            return f"{where}: interior ring invented"
    elif dec["ring"] != p["ring"]:
        return f"{where}: interior ring {dec['ring']} != {p['ring']}"
    # representative coordinates survive
    V = af["vars"]
    for a in p["rep"]:
        reps = [k for k, v in V.items() if v["atts"].get("nodes") == a]
        if len(reps) != 1:
            return f"{where}: {len(reps)} variables with nodes={a}"
        if V[reps[0]]["vals"] != [10.0 * i + 5.0 for i in range(len(p["cells"]))]:
            return f"{where}: representative coordinate of {a} changed"
    for a in p["coords"]:
        if a not in p["rep"] and any(v["atts"].get("nodes") == a for v in V.values()):
            return f"{where}: representative coordinate invented for {a}"
    return None


def oracle(c):
    p = c.payload
    ex = c.extra if isinstance(c.extra, dict) else {}
    if c.stream == "C14.read":
        return oracle_read(c)
    if c.stream == "C14.write":
        if str(c.impl_out).startswith("raised"):
            return f"cfdm.write {c.impl_out} on a valid geometry field"
        return oracle_written(ex.get("file"), p, "write")
    if c.stream == "C14.rt":
        af = ex.get("file")
        if af is None:
            return "no file was produced"
        check_decoded_is_payload(cf75_decode(af, "gc"), p, "rt")
        if c.impl_out != "ok":
            return f"read-then-write failed: {c.impl_out}"
        return oracle_written(ex.get("file2"), p, "rt")
    if c.stream == "C14.seed":
        if c.impl_out == "seed-not-generated":
            return None
        af = ex.get("file")
        if str(c.impl_out).startswith("raised"):
            return "cfdm.read failed on a test-suite geometry file: " + c.impl_out
        dec = cf75_decode(af, container_of(af))
        for obs in ex["per_field"]:
            for a in dec["node_vars"]:
                o = obs[a]
                if "error" in o:
                    return o["error"]
                shp, flat = pad3(dec["cells"][a])
                if o["shape"] != shp or o["b"] != [None if x is None else (int(x) if x == int(x) else x) for x in flat]:
                    return f"{p['seed']}: {a}: bounds differ from the independent decoding"
                if o["cshape"] != [dec["ncells"]]:
                    return f"{p['seed']}: {a}: coordinate shape {o['cshape']}"
                if o["type"] != dec["type"]:
                    return f"{p['seed']}: {a}: geometry type"
                if (dec["ring"] is None) != (o["ring"] is None):
                    return f"{p['seed']}: {a}: interior ring presence"
                if dec["ring"] is not None and o["ring"] != pad2(dec["ring"])[1]:
                    return f"{p['seed']}: {a}: interior ring flags"
        return None
    return None


# ---------------------------------------------------------------- shrinking
def _variants(p):
    """Smaller containers of the same kind."""
    cells, ring = p["cells"], p["ring"]

    def mk(cells2, ring2, **kw):
        q = dict(p)
        q["cells"], q["ring"] = cells2, ring2
        q.update(kw)
        return q

    for i in range(len(cells)):
        if len(cells) > 1:
            yield mk(cells[:i] + cells[i + 1:], None if ring is None else ring[:i] + ring[i + 1:])
    for i, c in enumerate(cells):
        for j in range(len(c)):
            if len(c) > 1 and p["use_pnc"]:
                c2 = c[:j] + c[j + 1:]
                r2 = None if ring is None else ring[:i] + [ring[i][:j] + ring[i][j + 1:]] + ring[i + 1:]
                if r2 is not None and r2[i] and r2[i][0] != 0:
                    continue
                yield mk(cells[:i] + [c2] + cells[i + 1:], r2)
            if c[j] > 1 and p["use_nc"]:
                c2 = c[:j] + [c[j] - 1] + c[j + 1:]
                yield mk(cells[:i] + [c2] + cells[i + 1:], ring)
    if ring is not None:
        yield mk(cells, None)
    if len(p["coords"]) > 1:
        for a in p["coords"]:
            yield mk(cells, ring, coords=[b for b in p["coords"] if b != a], rep=[b for b in p["rep"] if b != a])
    if p["rep"]:
        yield mk(cells, ring, rep=[])
    if p.get("layout") != "i":
        yield mk(cells, ring, layout="i")


def shrink(c, run):
    """Greedy delta-debugging: keep a smaller container while it still fails with the same signature."""
    if c.stream == "C14.seed":
        return None
    sig = classify(c)
    best = c
    improved = True
    steps = 0
    while improved and steps < 200:
        improved = False
        for q in _variants(best.payload):
            steps += 1
            d = from_payload(c.stream, q)
            try:
                d.impl_out = impl(d)
                d.oracle_fail = oracle(d)
            except fw.HarnessError:
                continue
            except Exception:
                continue
            if d.oracle_fail and classify(d) == sig:
                if d.line is not None:
                    try:
                        d.model_out = fw.model_run([d.line])[0]
                    except Exception:
                        pass
                best = d
                improved = True
                break
    return best if best is not c else None


# ---------------------------------------------------------------- extra evidence
def extra_coverage(run):
    """How many of the failing (known-finding) cases behave exactly as the model of the
    *unpatched* code (`old=1`) predicts.  Informational: never part of pass/fail."""
    cs = [c for c, _, _ in run.failures if c.line is not None and c.impl_out is not None]
    if not cs or not fw.EXE.exists():
        return {}
    try:
        outs = fw.model_run([c.line + " old=1" for c in cs])
    except Exception as e:
        return dict(old_code_model=f"not evaluated: {e!r}"[:200])
    same = sum(1 for c, o in zip(cs, outs) if c.impl_out == o)
    return dict(old_code_model=dict(failing_cases_with_a_model_line=len(cs), agree_with_model_of_unpatched_code=same))


# ---------------------------------------------------------------- findings
def old_part_index(nc, pnc):
    """The part->cell vector the loop of _parse_geometry computes with `i += k + 1`."""
    index = list(pnc)
    inst = 0
    i = 0
    for need in nc:
        n = 0
        for k in range(i, len(pnc)):
            index[k] = inst
            n += pnc[k]
            if n >= need:
                inst += 1
                i += k + 1
                break
    return index


def true_part_index(cells):
    return [ci for ci, c in enumerate(cells) for _ in c]


def classify(c):
    p = c.payload
    if c.stream == "C14.seed":
        return "unclassified-seed"
    cells = p["cells"]
    nc = [sum(x) for x in cells]
    pnc = [v for x in cells for v in x]
    mp = max(len(x) for x in cells)
    D1 = "read-part-cell-running-offset-3-or-more-cells"
    D2 = "write-part-node-count-zero-for-padding-parts"
    D3 = "write-interior-ring-without-part-node-count"
    # D1: part_node_count present, >= 3 cells, and the loop as coded assigns some part to another cell
    d1 = bool(p.get("use_pnc") and p.get("use_nc") and len(cells) >= 3 and old_part_index(nc, pnc) != true_part_index(cells))
    # D2: a cell other than the last has fewer parts than the widest cell: zero inside part_node_count
    d2 = mp > 1 and any(len(x) < mp for x in cells[:-1])
    # D3: an interior ring on a geometry none of whose cells has a second part
    d3 = mp == 1 and p.get("ring") is not None
    if c.stream == "C14.read" and d1:
        return D1
    if c.stream == "C14.write":
        if d2:
            return D2
        if d3:
            return D3
    if c.stream == "C14.rt":
        # read then write: the oracle's message tells which half went wrong first
        msg = str(c.oracle_fail or "")
        if d2 and ("raised:ValueError" in msg or ("part_node_count" in msg and "inconsistent" in msg)):
            return D2
        if d3 and "interior_ring without part_node_count" in msg:
            return D3
        if d1:
            return D1
        if d2:
            return D2
        if d3:
            return D3
    # anything else is new: one group (hence one shrunk replay) per stream, never a known signature
    return "unclassified-" + c.stream.split(".")[-1]
