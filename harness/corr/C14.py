"""C14 — geometry cells are decoded and encoded as CF chapter 7.5 defines.

Streams
  C14.read   random cells hand-encoded with netCDF4 (count / ring variables in every integer
             storage type, counts up to the types' limits) -> cfdm.read -> bounds.array,
             interior ring, shape, geometry type          (model + independent CF 7.5 decoder)
  C14.write  a field built through the API from random cells -> cfdm.write -> the
             node / count / ring variables read back with netCDF4
                                                          (model + independent CF 7.5 decoder)
  C14.rt     hand-encoded -> cfdm.read -> cfdm.write -> independent decoder = original cells
                                                          (oracle only)
  C14.seed   the geometry files of cfdm/test/create_test_files.py (function bodies loaded
             with ast) -> cfdm.read vs the independent decoder  (oracle only)
  C14.multi  2-3 geometry fields built through the API -> ONE cfdm.write -> every container
             decoded independently (node_count on the data variable's own cell dimension,
             the field's own cells / rings / representative coordinates / grid mapping) and
             read back; the sharing pattern of dimensions and variables vs the model
                                                          (model + independent CF 7.5 decoder)
  C14.mread  1-3 containers and 1-4 data variables hand-encoded in one file (own / shared
             dimensions, groups, grid mapping, node variable attributes) -> cfdm.read
                                                          (model + independent CF 7.5 decoder)
  C14.ops    a field -> subspace along the cell axis / squeeze / transpose, and
             insert_dimension / transpose / squeeze of the coordinates -> observed, written,
             decoded independently                        (model + independent CF 7.5 decoder)

The node values written to a file are the node's offset in file order (+1000*k for
the k-th node coordinate variable, +100000 per node set / container), so every observable
is a list of offsets.
"""
import ast
import atexit
import os
import shutil
import tempfile

import numpy as np

from .. import fw
from ..fw import Case, fmt_list

REQUIRED = [
    "C14_assign",
    "C14_assign_of_ends",
    "C14_old_assign_counterexample",
    "C14_decode",
    "C14_decode_no_part_node_count",
    "C14_decode_points",
    "C14_interior_ring",
    "C14_shape_without_data",
    "C14_write",
    "C14_write_ring",
    "C14_old_write_counterexample",
    "C14_written_part_node_count",
    "C14_consistent",
    "C14_spec_decode_encode",
    "C14_encode_decode",
    "C14_assign_any_storage_width",
    "C14_storage_accumulator_counterexample",
    "C14_storage_accumulator_ok_when_fits",
    "C14_share_only_equal",
    "C14_multi_written_containers",
    "C14_multi_count_shared_only_if",
    "C14_multi_decode",
    "C14_multi_old_counterexample",
    "C14_multi_samekind_needed",
    "C14_subspace",
    "C14_write_after_subspace",
    "C14_ops_shapes",
]
BUDGET = {"quick": 2000, "thorough": 42000}
RULE = (
    "geometry containers with 1-6 cells x 1-4 parts per cell x 1-5 nodes per part (varying inside a container), "
    "geometry_type point/line/polygon, node_count / part_node_count / interior_ring present or absent where CF allows, "
    "stored as i1/u1/i2/u2/i4/u4/i8/u8 with, in a dedicated family, multi-part cells whose node totals are at or beyond "
    "the largest value of the part counts' type (bytes: every run; 16-bit: a few per run), 1-3 node coordinate "
    "variables (x,y,z), any subset of them with representative coordinates, data variable on (instance[,time]) in "
    "either order, NETCDF4 or NETCDF3 files; for the write half the same cells as a field built ab initio; multi: 2-3 "
    "fields per cfdm.write derived from one another (same / other cell dimension name, same / other node values per "
    "coordinate, same node counts with other parts, other rings, other representative coordinates, other type, "
    "unrelated, grid mapping, node properties); mread: 1-3 containers x 1-4 data variables per file (own or shared "
    "instance / node / part dimensions, shared node variables, group, grid mapping, node attribute subsets); ops: "
    "slices of either sign, integer lists, single cells, then none / transpose / squeeze of the field and up to four "
    "insert_dimension / transpose / squeeze of the coordinates, then cfdm.write. non-trivial = more than one cell, "
    "part, node, field or container; distinct = distinct (stream, cell structures, ring flags, presence flags, "
    "storage types, coordinate sets, sharing choices, operations)"
)
ASSUMPTIONS = [
    "node values are abstract labels (their file offsets); packing and the data types of the coordinates are outside "
    "the model; the storage type of the count variables is a parameter of the model",
    "containers are CF-consistent: every count >= 1, sum(part_node_count) = sum(node_count) = number of nodes, "
    "cell boundaries fall on part boundaries (the theorems carry exactly these hypotheses); a count never equals the "
    "default fill value of an unsigned storage type",
    "multi: the model is the writer with the repair proposed for the open finding "
    "write-node-variable-reused-with-other-cells; on the inputs where the repair changes a sharing decision /repo "
    "must behave exactly as the model of the writer as it stands (old=1); the geometry coordinates of one field "
    "have the same cell structure; equality of coordinate constructs is structural equality of the generated inputs",
    "mread / multi read-back: containers that share a node or part dimension with other counts, or node variables "
    "with another type, are generated rarely (open findings of cfdm.read); cfdm.read of a multi-field file is "
    "skipped for most inputs bound to meet them (the file is always decoded independently)",
    "the empty grid_mapping attribute that cfdm.write puts on every geometry container (open finding) is checked "
    "on a 3-4% sample of the write / multi cases only",
]
TIME_LIMIT = {"quick": 170, "thorough": 1400}
QUICK_JOBS = 8

_cfdm = None


def cfdm():
    global _cfdm
    if _cfdm is None:
        import cfdm as m
        m.log_level("DISABLE")
        _cfdm = m
    return _cfdm


_scratch = None


def pre():
    """Called by ./check in the parent before the workers are forked: one scratch directory
    for the whole run, removed when the parent exits (pool workers are terminated without
    running exit handlers, so they must not own directories)."""
    scratch()


def scratch():
    global _scratch
    if _scratch is None or not os.path.isdir(_scratch):
        _scratch = tempfile.mkdtemp(prefix="verif_c14_")
        atexit.register(shutil.rmtree, _scratch, True)
    return _scratch


_counter = [0]


def tmpfile(tag):
    _counter[0] += 1
    return os.path.join(scratch(), f"{tag}_{os.getpid()}_{_counter[0]}.nc")


STD = {
    "x": ("longitude", "degrees_east", "X", "lon"),
    "y": ("latitude", "degrees_north", "Y", "lat"),
    "z": ("altitude", "m", "Z", "alt"),
}


# ---------------------------------------------------------------- generators
def gen_cells(rng, single_node=False, single_part=False):
    """Cell structure: per cell the list of part sizes."""
    ncells = rng.choice([1, 2, 2, 3, 3, 3, 4, 4, 5, 6])
    maxp = 1 if single_part else rng.choice([1, 2, 2, 3, 3, 4])
    maxn = 1 if single_node else rng.choice([1, 2, 3, 3, 4, 5, 5])
    cells = []
    for _ in range(ncells):
        npart = rng.randint(1, maxp)
        cells.append([rng.randint(1, maxn) for _ in range(npart)])
    return cells


INT_TYPES = ["i1", "u1", "i2", "u2", "i4", "u4", "i8", "u8"]
INT_TYPES_NC3 = ["i1", "i2", "i4"]
# largest value a count variable of the type can hold
INT_MAX = {"i1": 127, "u1": 255, "i2": 32767, "u2": 65535, "i4": 2**31 - 1, "u4": 2**32 - 1,
           "i8": 2**63 - 1, "u8": 2**64 - 1}


def gen_big_cells(rng, ctype):
    """Cells whose part counts each fit the storage type `ctype` of the count variables while the
    node count of some multi-part cell is near or beyond the type's largest value (e.g. byte
    counts 100 and 90 in one cell): whatever arithmetic is done in the storage type wraps."""
    top = INT_MAX[ctype]
    wide = top > 255
    ncells = rng.choice([1, 2, 3] if wide else [1, 2, 3, 3, 4, 5])
    hot = rng.randrange(ncells)
    cells = []
    for ci in range(ncells):
        if ci == hot or (not wide and rng.random() < 0.25):
            npart = rng.choice([2, 2, 3] if wide else [2, 2, 3, 4])
            mode = rng.choice(["beyond", "beyond", "at", "just-below", "just-beyond"])
            if mode == "beyond":
                c = [rng.randint(max(1, top // 3), top - top // 8) for _ in range(npart)]
            else:
                want = {"at": top, "just-below": top - 1, "just-beyond": top + 1}[mode]
                # split `want` into npart positive counts, each <= top
                while True:
                    cuts = sorted(rng.sample(range(1, want), npart - 1))
                    c = [b - a for a, b in zip([0] + cuts, cuts + [want])]
                    if max(c) < top:
                        break
            cells.append(c)
        else:
            cells.append([rng.randint(1, 4) for _ in range(rng.randint(1, 2))])
    return cells


def gen_int_types(rng, p, fmt):
    """Storage types of the node_count / part_node_count / interior_ring variables: every netCDF
    integer type (CF does not prescribe one); a third of the containers keep i4 everywhere."""
    pool = INT_TYPES_NC3 if fmt.startswith("NETCDF3") else INT_TYPES
    if rng.random() < 0.3:
        return dict(nc_type="i4", pnc_type="i4", ring_type="i4")
    return dict(nc_type=rng.choice(pool), pnc_type=rng.choice(pool), ring_type=rng.choice(pool))


def fit_types(p):
    """Widen a count type that cannot hold the generated counts (a cell's node count may be
    larger than every part count)."""
    order_s = ["i1", "i2", "i4", "i8"]
    order_u = ["u1", "u2", "u4", "u8"]
    nc3 = str(p.get("fmt", "")).startswith("NETCDF3")

    def widen(t, top):
        order = order_s if (t[0] == "i" or nc3) else order_u
        k = order.index(t) if t in order else 0
        # the largest value of an unsigned type is its default fill value: cfdm (like the netCDF
        # library for the wider types) reads it as missing, so it is not used as a count
        while INT_MAX[order[k]] - (1 if order[k][0] == "u" else 0) < top:
            k += 1
        return order[k]

    cells = p["cells"]
    p["nc_type"] = widen(p["nc_type"], max(sum(c) for c in cells))
    p["pnc_type"] = widen(p["pnc_type"], max(v for c in cells for v in c))
    return p


def gen_container(rng, big=None):
    if big is not None:
        return gen_container_big(rng, big)
    gtype = rng.choice(["point", "line", "polygon", "polygon"])
    r = rng.random()
    use_nc, use_pnc, use_ring = True, True, False
    if gtype == "point":
        if r < 0.3:
            # no node_count: every cell is one point
            use_nc, use_pnc = False, False
            cells = gen_cells(rng, single_node=True, single_part=True)
        elif r < 0.85:
            # multipoint: node_count, one part per cell
            use_pnc = False
            cells = gen_cells(rng, single_part=True)
        else:
            # multipoint where each point is also given as a part
            cells = [[1] * len(c) for c in gen_cells(rng)]
    else:
        if r < 0.25:
            use_pnc = False
            cells = gen_cells(rng, single_part=True)
        else:
            cells = gen_cells(rng)
        if gtype == "polygon" and use_pnc:
            use_ring = rng.random() < 0.6
    ring = None
    if use_ring:
        # the first part of a polygon cell is an exterior ring
        ring = [[0] + [rng.randint(0, 1) for _ in c[1:]] for c in cells]
    coords = rng.choice([["x"], ["y"], ["x", "y"], ["x", "y"], ["x", "y"], ["x", "z"], ["y", "z"],
                         ["x", "y", "z"], ["x", "y", "z"]])
    rep = [a for a in coords if rng.random() < 0.6]
    return dict(gtype=gtype, cells=cells, use_nc=use_nc, use_pnc=use_pnc, ring=ring, coords=coords, rep=rep)


def gen_container_big(rng, ctype):
    """A multi-part container whose counts are near the limits of the storage type `ctype`."""
    gtype = rng.choice(["line", "polygon", "polygon"])
    cells = gen_big_cells(rng, ctype)
    ring = None
    if gtype == "polygon" and rng.random() < 0.6:
        ring = [[0] + [rng.randint(0, 1) for _ in c[1:]] for c in cells]
    coords = rng.choice([["x"], ["y"]] if INT_MAX[ctype] > 255 else [["x"], ["x", "y"], ["x", "y"], ["x", "y", "z"]])
    rep = [a for a in coords if rng.random() < 0.5]
    return dict(gtype=gtype, cells=cells, use_nc=True, use_pnc=True, ring=ring, coords=coords, rep=rep,
                big=ctype)


def regroup_parts(rng, cells):
    """The same node count per cell, another division into parts."""
    out = []
    for c in cells:
        total = sum(c)
        npart = rng.randint(1, min(total, 3))
        cuts = sorted(rng.sample(range(1, total), npart - 1)) if npart > 1 else []
        out.append([b - a for a, b in zip([0] + cuts, cuts + [total])])
    return out


def recount_cells(rng, cells):
    """The same parts in file order (hence the same nodes), grouped into other cells."""
    parts = [v for c in cells for v in c]
    if len(parts) < 2:
        return [[parts[0]]] if parts else cells
    ncells = rng.randint(1, len(parts))
    cuts = sorted(rng.sample(range(1, len(parts)), ncells - 1)) if ncells > 1 else []
    return [parts[a:b] for a, b in zip([0] + cuts, cuts + [len(parts)])]


def ring_for(rng, gtype, cells, p_ring=0.6):
    if gtype != "polygon" or rng.random() >= p_ring:
        return None
    return [[0] + [rng.randint(0, 1) for _ in c[1:]] for c in cells]


MULTI_KINDS = (
    ["same"] * 3 + ["same-other-dim"] * 5 + ["new-nodes"] * 6 + ["new-nodes-other-dim"] * 8 + ["regroup"] * 5
    + ["regroup-other-dim"] * 3 + ["other-ring"] * 3 + ["other-rep"] * 3 + ["other-type"] * 2 + ["fresh"] * 6
    + ["fresh-other-dim"] * 6 + ["fresh-same-size"] * 4 + ["some-nodes-same-cells"] * 4
    + ["same-total-other-counts"] * 2
    # the writer re-uses the node variable of other cells / other rings (open finding): kept rare
    + ["same-nodes-other-cells"] + ["same-nodes-other-ring"] + ["some-nodes-other-cells"]
)


def gen_multi(rng):
    """2-3 geometry fields for ONE cfdm.write call: the later fields are variations of an earlier one
    (same / other cell dimension name, same / other node values, same node counts with other parts,
    other rings, other representative coordinates) or unrelated."""
    nf = rng.choice([2, 2, 2, 3, 3])
    base = gen_container(rng)
    dims = ["ia", "ib", "ic"]
    f0 = dict(cells=base["cells"], ring=base["ring"], gtype=base["gtype"], coords=base["coords"], rep=base["rep"],
              dim="ia", nodeset=0, repset=0, gm=(1 if rng.random() < 0.15 else 0), named=rng.random() < 0.3)
    if rng.random() < 0.2:
        f0["node_props"] = rng.choice([[], ["units"], ["standard_name", "units"], ["axis"]])
    fields, family = [f0], []
    for j in range(1, nf):
        src = dict(rng.choice(fields))
        kind = rng.choice(MULTI_KINDS)
        family.append(kind)
        q = dict(src)
        if "other-dim" in kind:
            q["dim"] = dims[j]
        if kind.startswith("new-nodes"):
            q["nodeset"] = j
            q["repset"] = rng.choice([src["repset"], j])
        elif kind.startswith("regroup"):
            q["cells"] = regroup_parts(rng, src["cells"])
            q["ring"] = ring_for(rng, q["gtype"], q["cells"])
            q["nodeset"] = j
            q["repset"] = j
        elif kind in ("some-nodes-same-cells", "some-nodes-other-cells"):
            # one coordinate keeps the node values of the source field, the others get new ones
            keep = rng.choice(src["coords"])
            q["nodeset"] = {a: (ns_of(src, a) if a == keep else j) for a in src["coords"]}
            q["repset"] = j
            if kind == "some-nodes-other-cells":
                q["cells"] = recount_cells(rng, src["cells"])
                q["ring"] = ring_for(rng, q["gtype"], q["cells"])
        elif kind == "other-ring":
            q["gtype"] = "polygon"
            q["ring"] = [[0] + [rng.randint(0, 1) for _ in c[1:]] for c in src["cells"]]
            q["nodeset"] = j
            q["repset"] = j
        elif kind == "other-rep":
            q["rep"] = [a for a in q["coords"] if rng.random() < 0.5]
            q["repset"] = rng.choice([src["repset"], j])
            q["nodeset"] = rng.choice([src["nodeset"], j])
        elif kind == "other-type":
            q["gtype"] = rng.choice([t for t in ("line", "polygon") if t != src["gtype"]] or ["line"])
            q["ring"] = None
            q["nodeset"] = rng.choice([src["nodeset"], j])
        elif kind.startswith("fresh"):
            b = gen_container(rng)
            if kind == "fresh-same-size":
                k = len(src["cells"])
                b["cells"] = (b["cells"] * k)[:k]
                b["ring"] = ring_for(rng, b["gtype"], b["cells"]) if b["ring"] is not None else None
            q.update(cells=b["cells"], ring=b["ring"], gtype=b["gtype"], coords=b["coords"], rep=b["rep"],
                     nodeset=j, repset=j)
        elif kind == "same-nodes-other-cells":
            q["cells"] = recount_cells(rng, src["cells"])
            q["ring"] = ring_for(rng, q["gtype"], q["cells"])
            q["repset"] = j
        elif kind == "same-nodes-other-ring":
            q["gtype"] = "polygon"
            q["ring"] = [[0] + [rng.randint(0, 1) for _ in c[1:]] for c in src["cells"]]
            q["repset"] = j
        elif kind == "same-total-other-counts":
            q["cells"] = recount_cells(rng, src["cells"])
            q["ring"] = ring_for(rng, q["gtype"], q["cells"])
            q["nodeset"] = j
            q["repset"] = j
        if rng.random() < 0.1:
            q["gm"] = rng.choice([0, 1, 2])
        fields.append(q)
    for q in fields:
        if isinstance(q["nodeset"], dict):
            q["nodeset"] = {a: q["nodeset"].get(a, 0) for a in q["coords"]}
    return dict(fields=fields, family=family, check_gm_absent=rng.random() < 0.04)


def _writes_pnc(fl):
    return max(len(c) for c in fl["cells"]) > 1 or fl["ring"] is not None


def shared_dimension_other_counts(fields):
    """Two of the fields end up in containers that share a node dimension (equal number of nodes)
    or, with interior rings, a part dimension (equal number of parts) while their counts or ring
    variables differ: cfdm.read keeps one set of ragged-array parameters per dimension (open
    finding read-containers-sharing-a-node-or-part-dimension)."""
    for i, a in enumerate(fields):
        for b in fields[i + 1:]:
            same_struct = a["cells"] == b["cells"]
            if sum(map(sum, a["cells"])) == sum(map(sum, b["cells"])) and not same_struct:
                return True
            if (_writes_pnc(a) and _writes_pnc(b) and sum(map(len, a["cells"])) == sum(map(len, b["cells"]))
                    and (a["ring"] is not None or b["ring"] is not None)
                    and (not same_struct or (a["ring"] is not None and b["ring"] is not None and a["ring"] != b["ring"]))):
                return True
    return False


def shared_nodes_other_container(fields):
    """Two fields with some equal node coordinates (same values, same cells) whose containers differ
    (geometry type, interior ring): the node coordinate variable is shared by two containers and
    cfdm.read builds its coordinate construct once (open finding
    read-node-variable-shared-by-two-containers)."""
    for i, a in enumerate(fields):
        for b in fields[i + 1:]:
            if a["cells"] != b["cells"]:
                continue
            common = [x for x in a["coords"] if x in b["coords"] and ns_of(a, x) == ns_of(b, x)
                      and a.get("node_props") == b.get("node_props")]
            if common and (a["gtype"] != b["gtype"] or a["ring"] != b["ring"]):
                return True
    return False


def steer_multi(rng, p):
    """The file written by cfdm.write is always decoded independently; reading it back with
    cfdm.read is skipped for most of the inputs that are bound to meet one of the two open
    findings of cfdm.read about containers sharing dimensions / node variables (they stay a
    small, still present, fraction - and have their own stream C14.mread)."""
    prone = shared_dimension_other_counts(p["fields"]) or shared_nodes_other_container(p["fields"])
    p["readback"] = (not prone) or rng.random() < 0.08
    return p


def gen(rng, tier, n):
    n_read = int(n * 0.36)
    n_write = int(n * 0.17)
    n_rt = int(n * 0.09)
    n_multi = int(n * 0.14)
    n_mread = int(n * 0.12)
    n_ops = int(n * 0.12)
    for s in seed_names():
        yield mk_seed(dict(seed=s))
    # counts near the limits of the count variables' storage type: bytes often (cheap), 16-bit
    # types a few times per worker (30 000 - 130 000 nodes each)
    n_big8 = max(4, int(n_read * 0.08))
    n_big16 = max(2, int(n_read * 0.006))
    bigs = [rng.choice(["i1", "u1"]) for _ in range(n_big8)] + [rng.choice(["i2", "u2"]) for _ in range(n_big16)]
    every = max(1, n_read // max(1, len(bigs)))
    for j in range(n_read):
        fmt = rng.choice(["NETCDF4", "NETCDF4", "NETCDF3_CLASSIC"])
        if j % every == 0 and bigs:
            ctype = bigs.pop()
            p = gen_container(rng, big=ctype)
            if ctype[0] == "u":
                fmt = "NETCDF4"
            p["fmt"] = fmt
            # the part counts are stored in the type whose limit the cell totals approach; the
            # node counts in any type that can hold them
            p.update(gen_int_types(rng, p, fmt))
            p["pnc_type"] = ctype
        else:
            p = gen_container(rng)
            p["fmt"] = fmt
            p.update(gen_int_types(rng, p, fmt))
        fit_types(p)
        p["layout"] = rng.choice(["it", "it", "ti", "i"])
        yield mk_read(p)
    for _ in range(n_write):
        p = gen_container(rng)
        # written fields: node_count is always written; keep the presence of part_node_count
        # properties / netCDF names as a variation only
        p["named"] = rng.random() < 0.5
        p["layout"] = rng.choice(["it", "i"])
        p["check_gm_absent"] = rng.random() < 0.03
        yield mk_write(p)
    for j in range(n_rt):
        p = gen_container(rng, big=(rng.choice(["i1", "u1"]) if j % 12 == 5 else None))
        p["layout"] = rng.choice(["it", "ti", "i"])
        p["fmt"] = "NETCDF4"
        p.update(gen_int_types(rng, p, "NETCDF4"))
        if p.get("big"):
            p["pnc_type"] = p["big"]
        fit_types(p)
        yield mk_rt(p)
    for _ in range(n_multi):
        yield mk_multi(steer_multi(rng, gen_multi(rng)))
    for _ in range(n_mread):
        yield mk_mread(gen_mread(rng))
    for _ in range(n_ops):
        yield mk_ops(gen_ops(rng))


def enc_cells(cells):
    return "[" + ";".join(",".join(str(v) for v in c) for c in cells) + "]"


def _tags(stream, p):
    cells = p["cells"]
    t = [
        f"{stream}:type={p['gtype']}",
        f"{stream}:cells={len(cells)}",
        f"{stream}:maxparts={max(len(c) for c in cells)}",
        f"{stream}:node_count={'y' if p['use_nc'] else 'n'}",
        f"{stream}:part_node_count={'y' if p['use_pnc'] else 'n'}",
        f"{stream}:interior_ring={'y' if p['ring'] is not None else 'n'}",
        f"{stream}:ncoords={len(p['coords'])}",
        f"{stream}:nrep={len(p['rep'])}",
    ]
    if stream in ("read", "rt"):
        t.append(f"{stream}:node_count_type={p.get('nc_type', 'i4') if p['use_nc'] else '-'}")
        t.append(f"{stream}:part_node_count_type={p.get('pnc_type', 'i4') if p['use_pnc'] else '-'}")
        if p["ring"] is not None:
            t.append(f"{stream}:interior_ring_type={p.get('ring_type', 'i4')}")
        if p["use_pnc"]:
            top = INT_MAX[p.get("pnc_type", "i4")]
            worst = max(sum(c) for c in p["cells"] if len(c) > 1) if any(len(c) > 1 for c in p["cells"]) else 0
            t.append(f"{stream}:multi-part-cell-total-beyond-part-count-type={'y' if worst > top else 'n'}")
    return t


def _nontrivial(p):
    cells = p["cells"]
    return len(cells) > 1 or any(len(c) > 1 or c[0] > 1 for c in cells)


def mk_read(p):
    p = dict(p)
    cells = p["cells"]
    nn = sum(sum(c) for c in cells)
    nc = fmt_list([sum(c) for c in cells]) if p["use_nc"] else "-"
    pnc = fmt_list([v for c in cells for v in c]) if p["use_pnc"] else "-"
    ring = fmt_list([v for c in p["ring"] for v in c]) if p["ring"] is not None else "-"
    line = f"C14.read ncells={len(cells)} nnodes={nn} nc={nc} pnc={pnc} ring={ring}"
    key = (f"{line} {p['gtype']} {p['coords']} {p['rep']} {p['layout']} "
           f"{p.get('nc_type')} {p.get('pnc_type')} {p.get('ring_type')}")
    return Case("C14.read", p, line, key=key, nontrivial=_nontrivial(p), tags=_tags("read", p))


def mk_write(p):
    p = dict(p)
    ring = enc_cells(p["ring"]) if p["ring"] is not None else "-"
    line = f"C14.write cells={enc_cells(p['cells'])} ring={ring}"
    key = f"{line} {p['gtype']} {p['coords']} {p['rep']} {p.get('named')} {p['layout']}"
    return Case("C14.write", p, line, key=key, nontrivial=_nontrivial(p), tags=_tags("write", p))


def mk_rt(p):
    p = dict(p)
    key = f"rt {enc_cells(p['cells'])} {p['ring']} {p['gtype']} {p['use_nc']} {p['use_pnc']} {p['coords']} {p['rep']} {p['layout']} {p.get('nc_type')} {p.get('pnc_type')} {p.get('ring_type')}"
    return Case("C14.rt", p, None, key=key, nontrivial=_nontrivial(p), tags=_tags("rt", p))


def mk_seed(p):
    return Case("C14.seed", dict(p), None, key="seed " + p["seed"], nontrivial=True, tags=["seed:" + p["seed"]])


def from_payload(stream, payload):
    return {"C14.read": mk_read, "C14.write": mk_write, "C14.rt": mk_rt, "C14.seed": mk_seed,
            "C14.multi": mk_multi, "C14.mread": mk_mread, "C14.ops": mk_ops}[stream](payload)


# ---------------------------------------------------------------- hand encoder (netCDF4 only)
def hand_encode(path, p):
    """Write the container described by `p` with netCDF4, by the letter of CF 7.5."""
    import netCDF4

    cells = p["cells"]
    ncells = len(cells)
    nn = sum(sum(c) for c in cells)
    npart = sum(len(c) for c in cells)
    n = netCDF4.Dataset(path, "w", format=p.get("fmt", "NETCDF4"))
    n.Conventions = "CF-1.11"
    n.createDimension("instance", ncells)
    layout = p.get("layout", "it")
    if "t" in layout:
        n.createDimension("time", 2)
        t = n.createVariable("time", "i4", ("time",))
        t.standard_name = "time"
        t.units = "days since 2000-01-01"
        t[...] = [0, 1]
    # without a node_count variable the nodes are on the geometry dimension itself
    node_dim = "node" if p["use_nc"] else "instance"
    if p["use_nc"]:
        n.createDimension("node", nn)
    for k, a in enumerate(p["coords"]):
        v = n.createVariable(a, "f8", (node_dim,))
        v.standard_name, v.units, v.axis = STD[a][:3]
        v[...] = np.arange(nn) + 1000.0 * k
    repnames = []
    for a in p["rep"]:
        nm = STD[a][3]
        v = n.createVariable(nm, "f8", ("instance",))
        v.standard_name, v.units = STD[a][:2]
        v.nodes = a
        v[...] = np.arange(ncells) * 10.0 + 5.0
        repnames.append(nm)
    gc = n.createVariable("gc", "i4", ())
    gc.geometry_type = p["gtype"]
    gc.node_coordinates = " ".join(p["coords"])
    if repnames:
        gc.coordinates = " ".join(repnames)
    if p["use_nc"]:
        v = n.createVariable("node_count", p.get("nc_type", "i4"), ("instance",))
        v[...] = [sum(c) for c in cells]
        gc.node_count = "node_count"
    if p["use_pnc"]:
        n.createDimension("part", npart)
        v = n.createVariable("part_node_count", p.get("pnc_type", "i4"), ("part",))
        v[...] = [x for c in cells for x in c]
        gc.part_node_count = "part_node_count"
    if p["ring"] is not None:
        v = n.createVariable("interior_ring", p.get("ring_type", "i4"), ("part",))
        v[...] = [x for c in p["ring"] for x in c]
        gc.interior_ring = "interior_ring"
    dims = {"it": ("instance", "time"), "ti": ("time", "instance"), "i": ("instance",)}[layout]
    pr = n.createVariable("pr", "f8", dims)
    pr.standard_name = "precipitation_amount"
    pr.units = "kg m-2"
    cs = (["time"] if "t" in layout else []) + repnames
    if cs:
        pr.coordinates = " ".join(cs)
    pr.geometry = "gc"
    shape = tuple(ncells if d == "instance" else 2 for d in dims)
    pr[...] = np.arange(int(np.prod(shape))).reshape(shape)
    n.close()


def hand_encode_multi(path, p):
    """Several geometry containers / data variables in one file, by the letter of CF 7.5.

    p["containers"][j]: a container description as for `hand_encode` plus `inst` / `node` / `part`
    (index of the container whose instance / node / part dimension it uses: itself, or an earlier
    container with the same size), `nodes_of` (index of an earlier container whose node coordinate
    VARIABLES it names, or None), `gm` (grid mapping on the container), `node_atts` (attributes of
    the node coordinate variables).  p["vars"][i]: the container of data variable pr<i>.
    p["grouped"]: everything lives in the group /g1."""
    import netCDF4

    root = netCDF4.Dataset(path, "w", format="NETCDF4")
    root.Conventions = "CF-1.11"
    n = root.createGroup("g1") if p.get("grouped") else root
    made = set()

    def dim(name, size):
        if name not in made:
            n.createDimension(name, size)
            made.add(name)
        return name

    for j, q in enumerate(p["containers"]):
        cells = q["cells"]
        ncells = len(cells)
        nn = sum(sum(c) for c in cells)
        npart = sum(len(c) for c in cells)
        inst = dim(f"inst{q.get('inst', j)}", ncells)
        node_dim = dim(f"node{q.get('node', j)}", nn) if q["use_nc"] else inst
        src = q.get("nodes_of")
        names = {}
        for k, a in enumerate(q["coords"]):
            if src is not None:
                names[a] = f"{a}{src}"
                continue
            names[a] = f"{a}{j}"
            v = n.createVariable(names[a], "f8", (node_dim,))
            for att, val in zip(("standard_name", "units", "axis"), STD[a][:3]):
                if att in q.get("node_atts", ("standard_name", "units", "axis")):
                    v.setncattr(att, val)
            v[...] = np.arange(nn) + 1000.0 * k + NODESET * j
        repnames = []
        for a in q["rep"]:
            nm = f"{STD[a][3]}{j}"
            v = n.createVariable(nm, "f8", (inst,))
            v.standard_name, v.units = STD[a][:2]
            v.nodes = names[a]
            v[...] = np.arange(ncells) * 10.0 + 5.0 + 100.0 * j
            repnames.append(nm)
        gc = n.createVariable(f"gc{j}", "i4", ())
        gc.geometry_type = q["gtype"]
        gc.node_coordinates = " ".join(names[a] for a in q["coords"])
        if repnames:
            gc.coordinates = " ".join(repnames)
        if q.get("gm"):
            if "crs" not in n.variables:
                crs = n.createVariable("crs", "i4", ())
                crs.grid_mapping_name = "latitude_longitude"
                crs.semi_major_axis = 6378137.0
            gc.grid_mapping = "crs"
        if q["use_nc"]:
            v = n.createVariable(f"node_count{j}", q.get("nc_type", "i4"), (inst,))
            v[...] = [sum(c) for c in cells]
            gc.node_count = f"node_count{j}"
        if q["use_pnc"]:
            part = dim(f"part{q.get('part', j)}", npart)
            v = n.createVariable(f"part_node_count{j}", q.get("pnc_type", "i4"), (part,))
            v[...] = [x for c in cells for x in c]
            gc.part_node_count = f"part_node_count{j}"
            if q["ring"] is not None:
                v = n.createVariable(f"interior_ring{j}", q.get("ring_type", "i4"), (part,))
                v[...] = [x for c in q["ring"] for x in c]
                gc.interior_ring = f"interior_ring{j}"
        q["_rep"] = repnames
        q["_inst"] = inst
    for i, j in enumerate(p["vars"]):
        q = p["containers"][j]
        pr = n.createVariable(f"pr{i}", "f8", (q["_inst"],))
        pr.standard_name = "precipitation_amount"
        pr.units = "kg m-2"
        pr.long_name = f"variable {i}"
        if q["_rep"]:
            pr.coordinates = " ".join(q["_rep"])
        if q.get("gm"):
            pr.grid_mapping = "crs"
        pr.geometry = f"gc{j}"
        pr[...] = np.arange(len(q["cells"])) + 100.0 * i
    for q in p["containers"]:
        q.pop("_rep", None)
        q.pop("_inst", None)
    root.close()


def abstract_file(path, group=None):
    """Everything an independent decoder needs, read with netCDF4 only (of one group, if given:
    a group whose references all stay inside it is a dataset of its own)."""
    import netCDF4

    root = netCDF4.Dataset(path)
    root.set_auto_maskandscale(False)
    n = root[group] if group else root
    out = dict(dims={k: len(v) for k, v in n.dimensions.items()}, vars={})
    for k, v in n.variables.items():
        atts = {}
        for a in v.ncattrs():
            x = v.getncattr(a)
            atts[a] = x if isinstance(x, str) else np.asarray(x).tolist()
        vals = None
        if v.dtype.kind in "iuf":
            vals = np.asarray(v[...]).tolist()
        out["vars"][k] = dict(dims=list(v.dimensions), atts=atts, vals=vals)
    root.close()
    return out


# ---------------------------------------------------------------- independent CF 7.5 decoder
class Undecodable(Exception):
    pass


def cf75_decode(af, container, data_dims=None):
    """Decode a geometry container of an abstract file by the text of CF 7.5.

    `data_dims`: the dimensions of the data variable that references the container; the
    node_count variable (or, without one, the node coordinate variables) must then have one of
    them - the geometry dimension - as single dimension.

    Returns dict(type, cells={node var: [[[values]]]}, ring=[[flags]] or None, ncells).
    """
    V = af["vars"]
    if container not in V:
        raise Undecodable("no container variable")
    atts = V[container]["atts"]
    node_vars = str(atts.get("node_coordinates", "")).split()
    if not node_vars:
        raise Undecodable("no node_coordinates")
    for a in node_vars:
        if a not in V or len(V[a]["dims"]) != 1:
            raise Undecodable(f"node coordinate {a} missing or not 1-d")
    node_dim = V[node_vars[0]]["dims"][0]
    if any(V[a]["dims"][0] != node_dim for a in node_vars):
        raise Undecodable("node coordinate variables on different dimensions")
    total = af["dims"][node_dim]
    if "node_count" in atts:
        if atts["node_count"] not in V:
            raise Undecodable("node_count variable missing")
        nc = [int(x) for x in V[atts["node_count"]]["vals"]]
        ncd = V[atts["node_count"]]["dims"]
        if len(ncd) != 1:
            raise Undecodable(f"node_count variable has dimensions {ncd}")
        if data_dims is not None and ncd[0] not in data_dims:
            raise Undecodable(f"node_count variable {atts['node_count']}({ncd[0]}) does not span the geometry "
                              f"dimension of its data variable {tuple(data_dims)}")
    else:
        nc = [1] * total
        if data_dims is not None and node_dim not in data_dims:
            raise Undecodable(f"no node_count and the node dimension {node_dim} is not a dimension of the data "
                              f"variable {tuple(data_dims)}")
    if sum(nc) != total or any(x < 1 for x in nc):
        raise Undecodable(f"node_count {nc} inconsistent with {total} nodes")
    if "part_node_count" in atts:
        if atts["part_node_count"] not in V:
            raise Undecodable("part_node_count variable missing")
        pnc = [int(x) for x in V[atts["part_node_count"]]["vals"]]
    else:
        pnc = list(nc)
    if sum(pnc) != total or any(x < 1 for x in pnc):
        raise Undecodable(f"part_node_count {pnc} inconsistent with {total} nodes")
    ring = None
    if "interior_ring" in atts:
        if atts["interior_ring"] not in V:
            raise Undecodable("interior_ring variable missing")
        if "part_node_count" not in atts:
            raise Undecodable("interior_ring without part_node_count")
        ring = [int(x) for x in V[atts["interior_ring"]]["vals"]]
        if len(ring) != len(pnc):
            raise Undecodable("interior_ring and part_node_count differ in length")
        if V[atts["interior_ring"]]["dims"] != V[atts["part_node_count"]]["dims"]:
            raise Undecodable("interior_ring and part_node_count on different dimensions")
    # cell boundaries (cumulative node counts) must be part boundaries
    cell_end = np.cumsum(nc).tolist()
    part_start = np.concatenate([[0], np.cumsum(pnc)[:-1]]).astype(int).tolist() if pnc else []
    part_end = set(np.cumsum(pnc).tolist())
    if any(e not in part_end for e in cell_end):
        raise Undecodable("a cell boundary falls inside a part")
    # part p belongs to the cell whose node range holds its first node
    part_cell = [sum(1 for e in cell_end if e <= s) for s in part_start]
    cells = {}
    for a in node_vars:
        vals = V[a]["vals"]
        out = [[] for _ in nc]
        for p_, (s, m, c) in enumerate(zip(part_start, pnc, part_cell)):
            out[c].append(vals[s:s + m])
        cells[a] = out
    rings = None
    if ring is not None:
        rings = [[] for _ in nc]
        for r, c in zip(ring, part_cell):
            rings[c].append(r)
    return dict(type=atts.get("geometry_type"), cells=cells, ring=rings, ncells=len(nc), node_vars=node_vars)


def pad3(cells):
    """bounds[c][i][j] = node j of part i of cell c, else masked (None)."""
    mp = max(len(c) for c in cells)
    mn = max(len(p) for c in cells for p in c)
    flat = []
    for c in cells:
        for i in range(mp):
            part = c[i] if i < len(c) else []
            flat += list(part) + [None] * (mn - len(part))
    return [len(cells), mp, mn], flat


def pad2(rows):
    mp = max(len(r) for r in rows)
    return [len(rows), mp], [x for r in rows for x in list(r) + [None] * (mp - len(r))]


def show(flat):
    return "[" + ",".join("--" if x is None else str(int(x)) for x in flat) + "]"


def flat_masked(a, offset=0.0):
    a = np.ma.asanyarray(a)
    m = np.ma.getmaskarray(a).flatten()
    d = np.ma.getdata(a).flatten()
    out = []
    for x, mm in zip(d, m):
        if mm:
            out.append(None)
        else:
            y = float(x) - offset
            out.append(int(y) if y == int(y) else y)
    return out


# ---------------------------------------------------------------- implementation: read half
def observe_field(f, coords):
    """Observables of a geometry field, per node coordinate variable name."""
    obs = {}
    auxs = f.auxiliary_coordinates(todict=True)
    for k, a in enumerate(coords):
        found = [c for c in auxs.values() if c.has_bounds() and c.bounds.nc_get_variable(None) == a]
        if len(found) != 1:
            obs[a] = dict(error=f"{len(found)} auxiliary coordinates carry node variable {a}")
            continue
        c = found[0]
        b = c.bounds.array
        o = dict(
            shape=list(b.shape),
            b=flat_masked(b, 1000.0 * k),
            cshape=list(c.shape),
            cndim=c.ndim,
            csize=c.size,
            type=c.get_geometry(None),
            has_data=c.has_data(),
            data=(np.asarray(c.array).tolist() if c.has_data() else None),
            ring=None,
        )
        if c.has_interior_ring():
            r = c.get_interior_ring().array
            o["ring_shape"] = list(r.shape)
            o["ring"] = flat_masked(r)
        obs[a] = o
    return obs


def canon_read(obs):
    outs = set()
    for a, o in obs.items():
        if "error" in o:
            outs.add("error:" + o["error"])
            continue
        ring = show(o["ring"]) if o["ring"] is not None else "-"
        outs.add(f"cshape={fmt_list(o['cshape'])} shape={fmt_list(o['shape'])} b={show(o['b'])} ring={ring}")
    outs = sorted(outs)
    return outs[0] if len(outs) == 1 else "differ:" + " | ".join(outs)


def impl_read(c):
    C = cfdm()
    p = c.payload
    path = tmpfile("r")
    try:
        hand_encode(path, p)
        c.extra = dict(file=abstract_file(path))
        try:
            fs = C.read(path)
        except Exception as e:
            c.extra["obs"] = None
            return "raised:" + fw.exc_enum(e)
        if len(fs) != 1:
            c.extra["obs"] = None
            return f"fields={len(fs)}"
        f = fs[0]
        c.extra["obs"] = observe_field(f, p["coords"])
        c.extra["fshape"] = list(f.shape)
        return canon_read(c.extra["obs"])
    finally:
        if os.path.exists(path):
            os.remove(path)


# ---------------------------------------------------------------- implementation: write half
def build_field(p):
    """A geometry field built through the public API only (no file).

    Optional keys of `p` (multi-field writes): `dim` netCDF name asked for the cell axis, `var`
    netCDF name of the data variable, `nodeset` / `repset` shift of the node / representative
    values (fields with the same shift have equal node coordinates), `node_props` which of
    standard_name / units / axis the node coordinates carry, `gm` a grid mapping whose
    coordinates are the geometry coordinates."""
    C = cfdm()
    cells = p["cells"]
    ncells = len(cells)
    f = C.Field(properties={"standard_name": "precipitation_amount", "units": "kg m-2"})
    f.nc_set_variable(p.get("var", "pr"))
    if p.get("long_name"):
        f.set_property("long_name", p["long_name"])
    ai = f.set_construct(C.DomainAxis(ncells))
    f.domain_axes(todict=True)[ai].nc_set_dimension(p.get("dim", "instance"))
    axes = [ai]
    if "t" in p.get("layout", "i"):
        at = f.set_construct(C.DomainAxis(2))
        t = C.DimensionCoordinate(properties={"standard_name": "time", "units": "days since 2000-01-01"},
                                  data=C.Data(np.array([0, 1], dtype="i4")))
        t.nc_set_variable("time")
        f.set_construct(t, axes=[at])
        axes.append(at)
    shape = [ncells] + ([2] if len(axes) == 2 else [])
    f.set_data(C.Data(np.arange(int(np.prod(shape)), dtype=float).reshape(shape)), axes=axes)
    shp, flat = pad3(id_cells(cells))
    mask = np.array([x is None for x in flat]).reshape(shp)
    base = np.array([0 if x is None else x for x in flat], dtype=float).reshape(shp)
    rep_shift = 100.0 * p.get("repset", 0)
    node_props = p.get("node_props", ["standard_name", "units", "axis"])
    keys = []
    for k, a in enumerate(p["coords"]):
        if p.get("abs_k"):
            # multi-field writes: the value offset names the coordinate (x, y, z), not its position
            k = {"x": 0, "y": 1, "z": 2}[a]
        sn, un, ax, nm = STD[a]
        aux = C.AuxiliaryCoordinate(properties={"standard_name": sn, "units": un})
        b = C.Bounds(data=C.Data(np.ma.array(base + 1000.0 * k + NODESET * ns_of(p, a), mask=mask)))
        full = {"standard_name": sn, "units": un, "axis": ax}
        b.set_properties({q: full[q] for q in node_props})
        b.nc_set_variable(a)
        aux.set_bounds(b)
        aux.set_geometry(p["gtype"])
        if a in p["rep"]:
            aux.set_data(C.Data(np.arange(ncells) * 10.0 + 5.0 + rep_shift))
            aux.nc_set_variable(nm)
        if p["ring"] is not None:
            rs, rflat = pad2(p["ring"])
            rm = np.array([x is None for x in rflat]).reshape(rs)
            rb = np.array([0 if x is None else x for x in rflat], dtype="i4").reshape(rs)
            ir = C.InteriorRing(data=C.Data(np.ma.array(rb, mask=rm)))
            if p.get("named"):
                ir.nc_set_variable("interior_ring")
            aux.set_interior_ring(ir)
        if p.get("named"):
            ncp = C.NodeCountProperties()
            ncp.nc_set_variable("node_count")
            aux.set_node_count(ncp)
            pncp = C.PartNodeCountProperties()
            pncp.nc_set_variable("part_node_count")
            pncp.nc_set_dimension("part")
            aux.set_part_node_count(pncp)
        keys.append(f.set_construct(aux, axes=[ai]))
    if p.get("gm"):
        cr = C.CoordinateReference(
            coordinates=keys,
            coordinate_conversion=C.CoordinateConversion(parameters={"grid_mapping_name": "latitude_longitude"}),
            datum=C.Datum(parameters={"semi_major_axis": 6378137.0 + p.get("gm", 1)}),
        )
        cr.nc_set_variable("crs")
        f.set_construct(cr)
    return f


NODESET = 100000.0


def container_of(af):
    """The geometry container the data variable(s) point to."""
    names = set()
    for k, v in af["vars"].items():
        g = v["atts"].get("geometry")
        if isinstance(g, str):
            names.add(g)
    if len(names) != 1:
        raise Undecodable(f"{len(names)} geometry containers referenced")
    return names.pop()


def canon_written(af, coords):
    """node / count / ring variables of a written file as the model prints them."""
    try:
        g = container_of(af)
    except Undecodable as e:
        return "undecodable:" + str(e)
    V = af["vars"]
    atts = V[g]["atts"]

    def vals(att):
        name = atts.get(att)
        if not isinstance(name, str):
            return None
        if name not in V:
            return "missing"
        return V[name]["vals"]

    nc, pnc, ring = vals("node_count"), vals("part_node_count"), vals("interior_ring")
    node_vars = str(atts.get("node_coordinates", "")).split()
    nodes = set()
    for a in node_vars:
        k = coords.index(a) if a in coords else 0
        if a in V and V[a]["vals"] is not None:
            nodes.add(show([x - 1000.0 * k for x in V[a]["vals"]]))
        else:
            nodes.add("missing")
    nodes = sorted(nodes)
    nodes = nodes[0] if len(nodes) == 1 else "differ:" + "|".join(nodes)

    def s(x):
        return "-" if x is None else (x if isinstance(x, str) else fmt_list(x))

    return f"nc={s(nc)} pnc={s(pnc)} ring={s(ring)} nodes={nodes}"


def impl_write(c):
    C = cfdm()
    p = c.payload
    path = tmpfile("w")
    c.extra = dict(file=None)
    try:
        f = build_field(p)
        try:
            C.write(f, path)
        except Exception as e:
            return "raised:" + fw.exc_enum(e)
        c.extra["file"] = abstract_file(path)
        return canon_written(c.extra["file"], p["coords"])
    finally:
        if os.path.exists(path):
            os.remove(path)


def impl_rt(c):
    C = cfdm()
    p = c.payload
    path, path2 = tmpfile("a"), tmpfile("b")
    c.extra = dict(file=None, file2=None)
    try:
        hand_encode(path, p)
        c.extra["file"] = abstract_file(path)
        try:
            fs = C.read(path)
            if len(fs) != 1:
                return f"fields={len(fs)}"
            C.write(fs[0], path2)
        except Exception as e:
            return "raised:" + fw.exc_enum(e)
        c.extra["file2"] = abstract_file(path2)
        return "ok"
    finally:
        for q in (path, path2):
            if os.path.exists(q):
                os.remove(q)


# ---------------------------------------------------------------- seeds from the test suite
_seed_funcs = None
SEEDS = ["_make_geometry_1_file", "_make_geometry_2_file", "_make_geometry_3_file", "_make_geometry_4_file",
         "_make_interior_ring_file", "_make_interior_ring_file_2"]


def seed_funcs():
    global _seed_funcs
    if _seed_funcs is None:
        import netCDF4
        src = (fw.REPO / "cfdm" / "test" / "create_test_files.py").read_text()
        tree = ast.parse(src)
        ns = dict(netCDF4=netCDF4, np=np, VN="1.11", os=os)
        _seed_funcs = {}
        for node in tree.body:
            if isinstance(node, ast.FunctionDef) and node.name in SEEDS:
                mod = ast.Module(body=[node], type_ignores=[])
                try:
                    exec(compile(mod, "create_test_files.py", "exec"), ns)
                    _seed_funcs[node.name] = ns[node.name]
                except Exception:
                    pass
    return _seed_funcs


def seed_names():
    return sorted(seed_funcs())


def impl_seed(c):
    C = cfdm()
    name = c.payload["seed"]
    path = tmpfile("s")
    c.extra = dict(file=None, per_field=[])
    try:
        try:
            seed_funcs()[name](path)
        except Exception as e:
            # the generator itself cannot run with the installed netCDF4: nothing to check
            c.extra["skip"] = repr(e)[:100]
            return "seed-not-generated"
        af = abstract_file(path)
        c.extra["file"] = af
        try:
            fs = C.read(path)
        except Exception as e:
            return "raised:" + fw.exc_enum(e)
        g = container_of(af)
        node_vars = str(af["vars"][g]["atts"]["node_coordinates"]).split()
        for f in fs:
            obs = {}
            auxs = f.auxiliary_coordinates(todict=True)
            for a in node_vars:
                found = [x for x in auxs.values() if x.has_bounds() and x.bounds.nc_get_variable(None) == a]
                if len(found) != 1:
                    obs[a] = dict(error=f"{len(found)} coordinates for {a}")
                    continue
                x = found[0]
                o = dict(shape=list(x.bounds.shape), b=flat_masked(x.bounds.array), cshape=list(x.shape),
                         type=x.get_geometry(None), ring=None)
                if x.has_interior_ring():
                    o["ring"] = flat_masked(x.get_interior_ring().array)
                obs[a] = o
            c.extra["per_field"].append(obs)
        return f"fields={len(fs)}"
    finally:
        if os.path.exists(path):
            os.remove(path)


# ---------------------------------------------------------------- several geometry fields in one cfdm.write
KIDX = {"x": 0, "y": 1, "z": 2}


def ns_of(fl, a):
    """Node set of coordinate `a` of a field: `nodeset` is one number for all coordinates or a
    {coordinate: number} dictionary."""
    ns = fl.get("nodeset", 0)
    return ns.get(a, 0) if isinstance(ns, dict) else ns


def render_multi(fields):
    """Canonical text of the geometry variables of a multi-field file: netCDF names are not part of
    the observable, so dimensions / variables / containers are numbered D0.., V0.., G0.. in the
    order in which a fixed traversal meets them (fields in write order; cell dimension, node
    variables by coordinate, node_count, part_node_count, interior_ring, representative
    coordinates, container).

    `fields`: per field dict(cell=(dim, size), type, coords=[(k, var, dim, digest)], nc=(var, dim,
    values) | None, pnc=..., ring=..., rep=[(k, var)], gm, gc) with arbitrary hashable keys."""
    D, V, G = {}, {}, {}

    def num(tab, pre, key):
        if key not in tab:
            tab[key] = f"{pre}{len(tab)}"
        return tab[key]

    out = []
    for f in fields:
        if isinstance(f, str):
            out.append(f)
            continue
        t = [f"cell={num(D, 'D', f['cell'][0])}:{f['cell'][1]}", f"type={f['type']}"]
        for k, var, dim, digest in f["coords"]:
            t.append(f"{'xyz'[k]}={num(V, 'V', var)}@{num(D, 'D', dim)}{{{digest}}}")
        for role in ("nc", "pnc", "ring"):
            x = f[role]
            if x is None:
                t.append(f"{role}=-")
            else:
                var, dim, vals = x
                t.append(f"{role}={num(V, 'V', var)}@{num(D, 'D', dim)}{fmt_list(vals)}")
        t.append("rep=" + (",".join(f"{'xyz'[k]}:{num(V, 'V', var)}" for k, var in f["rep"]) or "-"))
        t.append(f"gm={f['gm']}")
        t.append(f"gc={num(G, 'G', f['gc'])}")
        out.append(" ".join(t))
    return " | ".join(out)


def node_digest(vals):
    """(node set, coordinate, number of nodes) of a node coordinate variable written by build_field."""
    v0 = float(vals[0])
    ns = int(v0 // NODESET)
    k = int((v0 - ns * NODESET) // 1000)
    return ns, k, len(vals)


def struct_of_file(af, nfields):
    """The geometry variables of the file, per data variable f0, f1, ... (netCDF4 view only)."""
    V = af["vars"]
    out = []
    for i in range(nfields):
        name = f"f{i}"
        if name not in V:
            out.append(f"missing:{name}")
            continue
        dv = V[name]
        g = dv["atts"].get("geometry")
        if not isinstance(g, str) or g not in V:
            out.append(f"no-container:{name}")
            continue
        atts = V[g]["atts"]
        cell = dv["dims"][0] if dv["dims"] else None
        coords = []
        for nm in str(atts.get("node_coordinates", "")).split():
            if nm not in V or not V[nm]["vals"]:
                coords.append((9, nm, None, "missing"))
                continue
            ns, k, n = node_digest(V[nm]["vals"])
            coords.append((k, nm, V[nm]["dims"][0], f"s{ns}n{n}"))
        coords.sort(key=lambda t: t[0])

        def role(att):
            nm = atts.get(att)
            if not isinstance(nm, str):
                return None
            if nm not in V:
                return (nm, None, [])
            return (nm, V[nm]["dims"][0] if V[nm]["dims"] else None, [int(x) for x in V[nm]["vals"]])

        rep = []
        cs = atts.get("coordinates")
        for nm in (cs.split() if isinstance(cs, str) else []):
            nodes = V.get(nm, {}).get("atts", {}).get("nodes")
            k = next((kk for kk, var, _, _ in coords if var == nodes), 9)
            rep.append((k, nm))
        rep.sort()
        gm = atts.get("grid_mapping")
        gmv = 0
        if isinstance(gm, str) and gm in V:
            a = V[gm]["atts"].get("semi_major_axis")
            gmv = int(round(float(a) - 6378137.0)) if a is not None else -1
        out.append(dict(cell=(cell, af["dims"].get(cell)), type=atts.get("geometry_type"), coords=coords,
                        nc=role("node_count"), pnc=role("part_node_count"), ring=role("interior_ring"),
                        rep=rep, gm=gmv, gc=g))
    return out


def enc_field(fl, dim_ids):
    """One field of a multi-field write as a protocol token:
    dim/type/cells/ring/coords/rep/nodesets/repset/props/gm"""
    ring = enc_cells(fl["ring"]) if fl["ring"] is not None else "-"
    props = sum(1 << i for i, q in enumerate(("standard_name", "units", "axis"))
                if q in fl.get("node_props", ["standard_name", "units", "axis"]))
    ks = lambda names: ("[" + ",".join(str(KIDX[a]) for a in names) + "]")
    nss = "[" + ",".join(str(ns_of(fl, a)) for a in fl["coords"]) + "]"
    return "/".join([str(dim_ids[fl["dim"]]), {"point": "0", "line": "1", "polygon": "2"}[fl["gtype"]],
                     enc_cells(fl["cells"]), ring, ks(fl["coords"]), ks(fl["rep"]), nss,
                     str(fl.get("repset", 0)), str(props), str(fl.get("gm", 0))])


def mk_multi(p):
    p = dict(p)
    fields = p["fields"]
    dim_ids = {}
    for fl in fields:
        dim_ids.setdefault(fl["dim"], len(dim_ids))
    line = f"C14.multi nf={len(fields)} " + " ".join(f"f{i}={enc_field(fl, dim_ids)}" for i, fl in enumerate(fields))
    tags = [f"multi:fields={len(fields)}", f"multi:readback={'y' if p.get('readback', True) else 'n'}"]
    tags += [f"multi:{t}" for t in sorted(set(p.get("family", [])))]
    tags += [f"multi:type={fl['gtype']}" for fl in fields]
    if len({fl["dim"] for fl in fields}) > 1:
        tags.append("multi:several-dimension-names")
    if any(fl.get("gm") for fl in fields):
        tags.append("multi:grid-mapping")
    nontrivial = len(fields) > 1
    return Case("C14.multi", p, line, key=line, nontrivial=nontrivial, tags=tags)


def observe_multi_field(f, fl):
    """Bounds / ring / shape of one field read back, per coordinate (values as node offsets)."""
    obs = {}
    auxs = f.auxiliary_coordinates(todict=True)
    for a in fl["coords"]:
        k = KIDX[a]
        shift = NODESET * ns_of(fl, a)
        found = []
        for c in auxs.values():
            if not c.has_bounds():
                continue
            b = c.bounds.array
            vals = np.ma.compressed(b)
            if vals.size and node_digest(vals)[1] == k:
                found.append((c, b))
        if len(found) != 1:
            obs[a] = dict(error=f"{len(found)} coordinates carry the {a} nodes")
            continue
        c, b = found[0]
        o = dict(shape=list(b.shape), b=flat_masked(b, 1000.0 * k + shift), cshape=list(c.shape),
                 type=c.get_geometry(None), has_data=c.has_data(),
                 data=(np.asarray(c.array).tolist() if c.has_data() else None), ring=None)
        if c.has_interior_ring():
            r = c.get_interior_ring().array
            o["ring_shape"] = list(r.shape)
            o["ring"] = flat_masked(r)
        obs[a] = o
    return obs


def impl_multi(c):
    C = cfdm()
    p = c.payload
    path = tmpfile("m")
    c.extra = dict(file=None, back=None)
    try:
        fs = []
        for i, fl in enumerate(p["fields"]):
            q = dict(fl)
            q["var"] = f"f{i}"
            q["layout"] = "i"
            q["abs_k"] = True
            fs.append(build_field(q))
        try:
            C.write(fs, path)
        except Exception as e:
            return "raised:" + fw.exc_enum(e)
        af = abstract_file(path)
        c.extra["file"] = af
        if not p.get("readback", True):
            c.extra["back"] = "skipped"
            return render_multi(struct_of_file(af, len(p["fields"])))
        try:
            back = C.read(path)
            byname = {}
            for g in back:
                byname.setdefault(g.nc_get_variable(None), []).append(g)
            obs = []
            for i, fl in enumerate(p["fields"]):
                gs = byname.get(f"f{i}", [])
                obs.append(observe_multi_field(gs[0], fl) if len(gs) == 1 else dict(error=f"{len(gs)} fields f{i} read back"))
            c.extra["back"] = obs
        except Exception as e:
            c.extra["back"] = "raised:" + fw.exc_enum(e)
        return render_multi(struct_of_file(af, len(p["fields"])))
    finally:
        if os.path.exists(path):
            os.remove(path)


def oracle_multi(c):
    """Every written container, decoded by the text of CF 7.5, must give the cells of the field whose
    data variable references it; its node_count must span that data variable's cell dimension; and
    cfdm.read must present each field's own cells."""
    p = c.payload
    ex = c.extra if isinstance(c.extra, dict) else {}
    if str(c.impl_out).startswith("raised"):
        return f"cfdm.write {c.impl_out} on valid geometry fields"
    af = ex.get("file")
    if af is None:
        return "no file written"
    V = af["vars"]
    for i, fl in enumerate(p["fields"]):
        name = f"f{i}"
        if name not in V:
            return f"{name}: data variable missing"
        dv = V[name]
        g = dv["atts"].get("geometry")
        if not isinstance(g, str):
            return f"{name}: no geometry attribute"
        try:
            dec = cf75_decode(af, g, data_dims=dv["dims"])
        except Undecodable as e:
            return f"{name}: container {g} is not decodable by CF 7.5: {e}"
        if dec["type"] != fl["gtype"]:
            return f"{name}: geometry_type {dec['type']} != {fl['gtype']}"
        if dec["ncells"] != len(fl["cells"]):
            return f"{name}: {dec['ncells']} cells decoded, the field has {len(fl['cells'])}"
        want = id_cells(fl["cells"])
        seen_k = []
        for a in dec["node_vars"]:
            ns, k, n = node_digest(V[a]["vals"])
            seen_k.append(k)
            shift = NODESET * ns_of(fl, "xyz"[k]) if "xyz"[k] in fl["coords"] else 0.0
            got = [[[x - 1000.0 * k - shift for x in part] for part in cell] for cell in dec["cells"][a]]
            if got != want:
                return f"{name}: node variable {a}: decoded cells {_short_cells(got)} are not the field's {_short_cells(want)}"
        if sorted(seen_k) != sorted(KIDX[a] for a in fl["coords"]):
            return f"{name}: node coordinate variables {dec['node_vars']} are not the field's {fl['coords']}"
        # properties of the node coordinates: the bounds' own ones, possibly completed by those they
        # inherit from the coordinate (standard_name, units); never another value
        own = fl.get("node_props", ["standard_name", "units", "axis"])
        for a in dec["node_vars"]:
            k = node_digest(V[a]["vals"])[1]
            full = dict(zip(("standard_name", "units", "axis"), STD["xyz"[k]][:3]))
            atts = {q: v for q, v in V[a]["atts"].items() if q in full}
            if any(atts[q] != full[q] for q in atts) or any(q not in atts for q in own) or \
                    any(q not in own and q not in ("standard_name", "units") for q in atts):
                return f"{name}: node variable {a} has attributes {atts}, the node coordinates' properties are {own} of {full}"
        if fl["ring"] is None:
            if dec["ring"] is not None:
                return f"{name}: interior ring invented"
        elif dec["ring"] != fl["ring"]:
            return f"{name}: interior ring {dec['ring']} != {fl['ring']}"
        # representative coordinates named by the container
        cs = V[g]["atts"].get("coordinates")
        reps = cs.split() if isinstance(cs, str) else []
        want_rep = [10.0 * j + 5.0 + 100.0 * fl.get("repset", 0) for j in range(len(fl["cells"]))]
        got_k = []
        for nm in reps:
            if nm not in V:
                return f"{name}: container names a missing coordinate {nm}"
            nodes = V[nm]["atts"].get("nodes")
            if nodes not in dec["node_vars"]:
                return f"{name}: representative coordinate {nm} has nodes={nodes!r}, not a node variable of {g}"
            got_k.append(node_digest(V[nodes]["vals"])[1])
            if V[nm]["dims"] != [dv["dims"][0]] or V[nm]["vals"] != want_rep:
                return f"{name}: representative coordinate {nm} changed"
        if sorted(got_k) != sorted(KIDX[a] for a in fl["rep"]):
            return f"{name}: representative coordinates {reps} do not match the field's {fl['rep']}"
        # grid mapping on the container
        gm = V[g]["atts"].get("grid_mapping")
        if fl.get("gm"):
            if not isinstance(gm, str) or gm not in V or "grid_mapping_name" not in V[gm]["atts"]:
                return f"{name}: container grid_mapping {gm!r} does not name a grid mapping variable"
            if dv["atts"].get("grid_mapping") != gm:
                return f"{name}: data variable grid_mapping {dv['atts'].get('grid_mapping')!r} != container's {gm!r}"
        elif p.get("check_gm_absent") and gm is not None:
            return f"{name}: container has a grid_mapping attribute {gm!r} but the field has no grid mapping"
    back = ex.get("back")
    if back == "skipped":
        return None
    if isinstance(back, str):
        return f"cfdm.read of the written file {back}"
    for i, (fl, obs) in enumerate(zip(p["fields"], back or [])):
        if "error" in obs and isinstance(obs.get("error"), str):
            return f"f{i}: read back: {obs['error']}"
        shp, flat = pad3(id_cells(fl["cells"]))
        for a in fl["coords"]:
            o = obs[a]
            if "error" in o:
                return f"f{i}: read back: {o['error']}"
            if o["shape"] != shp or o["b"] != flat:
                return f"f{i}: read back: {a}: bounds shape {o['shape']} are not the field's cells {shp}" if o["shape"] != shp \
                    else f"f{i}: read back: {a}: bounds are not the field's cells"
            if o["cshape"] != [len(fl["cells"])] or o["type"] != fl["gtype"]:
                return f"f{i}: read back: {a}: shape {o['cshape']} / type {o['type']}"
            if o["has_data"] != (a in fl["rep"]):
                return f"f{i}: read back: {a}: representative coordinate presence"
            if fl["ring"] is None:
                if o["ring"] is not None:
                    return f"f{i}: read back: {a}: interior ring invented"
            else:
                rs, rflat = pad2(fl["ring"])
                if o["ring"] is None or o["ring_shape"] != rs or o["ring"] != rflat:
                    return f"f{i}: read back: {a}: interior ring differs"
    return None


def _short_cells(cells):
    return [[len(p_) for p_ in c] for c in cells]


# ---------------------------------------------------------------- several containers in one hand-encoded file
def gen_mread(rng):
    """1-3 geometry containers and 1-4 data variables in one file: containers with their own
    dimensions (the usual case), sharing the instance dimension, in a group, with a grid mapping,
    with node coordinate variables that carry any subset of standard_name / units / axis; rarely
    sharing a node / part dimension with other counts, or naming the node coordinate variables
    of another container (open findings of cfdm.read)."""
    nc_ = rng.choice([1, 2, 2, 2, 3])
    conts = []
    fam = []
    for j in range(nc_):
        q = gen_container(rng, big=(rng.choice(["i1", "u1"]) if rng.random() < 0.04 else None))
        q.update(gen_int_types(rng, q, "NETCDF4"))
        if q.get("big"):
            q["pnc_type"] = q["big"]
        q["fmt"] = "NETCDF4"
        fit_types(q)
        q["gm"] = rng.random() < 0.15
        if rng.random() < 0.3:
            q["node_atts"] = rng.choice([[], ["units"], ["standard_name", "units"], ["axis"], ["standard_name"]])
        if j > 0:
            r = rng.random()
            src = rng.randrange(j)
            o = conts[src]
            if r < 0.25:
                # the same number of cells on the same instance dimension (other dimensions own)
                k = len(o["cells"])
                q["cells"] = (q["cells"] * k)[:k]
                if q["ring"] is not None:
                    q["ring"] = (q["ring"] * k)[:k]
                fit_types(q)
                q["inst"] = o.get("inst", src)
                fam.append("same-instance-dimension")
            elif r < 0.32:
                # identical counts on shared node / part / instance dimensions: consistent sharing
                for key in ("cells", "ring", "use_nc", "use_pnc", "nc_type", "pnc_type", "ring_type"):
                    q[key] = o[key]
                q["gtype"] = o["gtype"] if o["ring"] is not None else q["gtype"] if q["gtype"] != "polygon" or True else "line"
                if q["gtype"] == "point" and (o["use_pnc"] and any(v > 1 for c in o["cells"] for v in c)):
                    q["gtype"] = "line"
                q["inst"], q["node"], q["part"] = o.get("inst", src), o.get("node", src), o.get("part", src)
                fam.append("shared-dimensions-same-counts")
            elif r < 0.345 and o["use_nc"]:
                # the same nodes divided into other cells, on the same node dimension (open finding)
                q["cells"] = recount_cells(rng, o["cells"])
                q["use_nc"], q["use_pnc"] = True, True
                if q["gtype"] == "point":
                    q["gtype"] = "line"
                q["ring"] = ring_for(rng, q["gtype"], q["cells"])
                fit_types(q)
                q["node"] = o.get("node", src)
                if o["use_pnc"]:
                    q["part"] = o.get("part", src)
                fam.append("shared-node-dimension-other-counts")
            elif r < 0.365 and o.get("nodes_of") is None and o["gtype"] != "point":
                # another container for the same node coordinate VARIABLES, of another type (open finding)
                for key in ("cells", "use_nc", "use_pnc", "nc_type", "pnc_type", "ring_type", "coords"):
                    q[key] = o[key]
                q["ring"] = None
                q["rep"] = []
                q["gtype"] = "line" if o["gtype"] == "polygon" else "polygon"
                q["inst"], q["node"], q["part"] = o.get("inst", src), o.get("node", src), o.get("part", src)
                q["nodes_of"] = src
                fam.append("shared-node-variables-other-type")
        conts.append(q)
    nv = rng.choice([nc_, nc_, nc_ + 1])
    vars_ = list(range(nc_)) + [rng.randrange(nc_) for _ in range(nv - nc_)]
    rng.shuffle(vars_)
    grouped = rng.random() < 0.15
    if grouped:
        fam.append("grouped")
    if any(q["gm"] for q in conts):
        fam.append("grid-mapping")
    if len(set(vars_)) < len(vars_):
        fam.append("data-variables-sharing-a-container")
    return dict(containers=conts, vars=vars_, grouped=grouped, family=fam)


def read_tokens(q):
    cells = q["cells"]
    nn = sum(sum(c) for c in cells)
    nc = fmt_list([sum(c) for c in cells]) if q["use_nc"] else "-"
    pnc = fmt_list([v for c in cells for v in c]) if q["use_pnc"] else "-"
    ring = fmt_list([v for c in q["ring"] for v in c]) if q["ring"] is not None else "-"
    return len(cells), nn, nc, pnc, ring


def mk_mread(p):
    p = dict(p)
    toks = []
    for j, q in enumerate(p["containers"]):
        toks.append(f"c{j}=" + "/".join(str(t) for t in read_tokens(q)))
    line = f"C14.mread n={len(p['containers'])} " + " ".join(toks) + " vars=" + fmt_list(p["vars"])
    key = line + " " + json_key([(q["gtype"], q["coords"], q["rep"], q.get("inst"), q.get("node"), q.get("part"),
                                  q.get("nodes_of"), q.get("gm"), q.get("node_atts"), q.get("nc_type"),
                                  q.get("pnc_type"), q.get("ring_type")) for q in p["containers"]]) + str(p.get("grouped"))
    tags = [f"mread:containers={len(p['containers'])}", f"mread:variables={len(p['vars'])}"]
    tags += [f"mread:{t}" for t in sorted(set(p.get("family", [])))]
    for q in p["containers"]:
        tags.append(f"mread:type={q['gtype']}")
    nontrivial = len(p["containers"]) > 1 or _nontrivial(p["containers"][0])
    return Case("C14.mread", p, line, key=key, nontrivial=nontrivial, tags=tags)


def json_key(x):
    import json
    return json.dumps(x, sort_keys=True, default=str)


def impl_mread(c):
    C = cfdm()
    p = c.payload
    path = tmpfile("mr")
    c.extra = dict(file=None, obs=None)
    try:
        hand_encode_multi(path, p)
        c.extra["file"] = abstract_file(path, group=("g1" if p.get("grouped") else None))
        try:
            fs = C.read(path)
        except Exception as e:
            return "raised:" + fw.exc_enum(e)
        by = {}
        for f in fs:
            by.setdefault(str(f.nc_get_variable("")).split("/")[-1], []).append(f)
        outs, obs = [], []
        for i, j in enumerate(p["vars"]):
            q = p["containers"][j]
            src = q.get("nodes_of")
            fl = by.get(f"pr{i}", [])
            if len(fl) != 1:
                obs.append(dict(error=f"{len(fl)} fields for data variable pr{i}"))
                outs.append(f"fields={len(fl)}")
                continue
            f = fl[0]
            o = {}
            auxs = f.auxiliary_coordinates(todict=True)
            for k, a in enumerate(q["coords"]):
                name = f"{a}{j if src is None else src}"
                found = [x for x in auxs.values()
                         if x.has_bounds() and str(x.bounds.nc_get_variable("")).split("/")[-1] == name]
                if len(found) != 1:
                    o[a] = dict(error=f"{len(found)} auxiliary coordinates carry node variable {name}")
                    continue
                x = found[0]
                b = x.bounds.array
                r = dict(shape=list(b.shape), b=flat_masked(b, 1000.0 * k + NODESET * (j if src is None else src)),
                         cshape=list(x.shape), cndim=x.ndim, csize=x.size, type=x.get_geometry(None),
                         has_data=x.has_data(), data=(np.asarray(x.array).tolist() if x.has_data() else None),
                         ring=None, bprops=dict(x.bounds.properties()), cprops=dict(x.properties()))
                if x.has_interior_ring():
                    rr = x.get_interior_ring().array
                    r["ring_shape"] = list(rr.shape)
                    r["ring"] = flat_masked(rr)
                o[a] = r
            o["_fshape"] = list(f.shape)
            o["_ngm"] = sum(1 for cr in f.coordinate_references(todict=True).values()
                            if cr.coordinate_conversion.get_parameter("grid_mapping_name", None) is not None)
            obs.append(o)
            outs.append(canon_read({a: o[a] for a in q["coords"]}))
        c.extra["obs"] = obs
        return " | ".join(outs)
    finally:
        if os.path.exists(path):
            os.remove(path)


def oracle_mread(c):
    p = c.payload
    ex = c.extra if isinstance(c.extra, dict) else {}
    af = ex.get("file")
    if af is None:
        return "no file was produced: " + str(c.impl_out)
    decs = []
    for j, q in enumerate(p["containers"]):
        dec = cf75_decode(af, f"gc{j}")
        src = q.get("nodes_of")
        jj = j if src is None else src
        want = id_cells(q["cells"])
        for k, a in enumerate(q["coords"]):
            got = [[[int(x - 1000.0 * k - NODESET * jj) for x in part] for part in cell] for cell in dec["cells"][f"{a}{jj}"]]
            if got != want:
                raise fw.HarnessError(f"mread: the independent decoder does not recover the generated cells of container {j}")
        if (dec["ring"] is None) != (q["ring"] is None) or (q["ring"] is not None and dec["ring"] != q["ring"]):
            raise fw.HarnessError(f"mread: the independent decoder does not recover the ring flags of container {j}")
        decs.append(dec)
    obs = ex.get("obs")
    if obs is None:
        return f"cfdm.read failed on a CF-compliant file with {len(p['containers'])} geometry containers: {c.impl_out}"
    for i, j in enumerate(p["vars"]):
        q, dec, o = p["containers"][j], decs[j], obs[i]
        src = q.get("nodes_of")
        jj = j if src is None else src
        if "error" in o:
            return f"pr{i}: {o['error']}"
        if o["_fshape"] != [dec["ncells"]]:
            return f"pr{i}: field shape {o['_fshape']} != [{dec['ncells']}]"
        for k, a in enumerate(q["coords"]):
            r = o[a]
            if "error" in r:
                return f"pr{i}: {r['error']}"
            cells = [[[int(x - 1000.0 * k - NODESET * jj) for x in part] for part in cell] for cell in dec["cells"][f"{a}{jj}"]]
            shp, flat = pad3(cells)
            if r["shape"] != shp:
                return f"pr{i}: {a}: bounds shape {r['shape']} != {shp} (cells x max parts x max nodes of container gc{j})"
            if r["b"] != flat:
                return f"pr{i}: {a}: bounds are not the cells of container gc{j} in file order, padded"
            if r["cshape"] != [dec["ncells"]] or r["cndim"] != 1 or r["csize"] != dec["ncells"]:
                return f"pr{i}: {a}: coordinate shape/ndim/size {r['cshape']}/{r['cndim']}/{r['csize']} are not those of {dec['ncells']} cells"
            if r["type"] != dec["type"]:
                return f"pr{i}: {a}: geometry type {r['type']} != {dec['type']} of container gc{j}"
            if r["has_data"] != (a in q["rep"]):
                return f"pr{i}: {a}: representative coordinate presence wrong"
            if r["has_data"] and r["data"] != [10.0 * t + 5.0 + 100.0 * j for t in range(dec["ncells"])]:
                return f"pr{i}: {a}: representative coordinate values changed"
            if dec["ring"] is None:
                if r["ring"] is not None:
                    return f"pr{i}: {a}: interior ring invented"
            else:
                if r["ring"] is None:
                    return f"pr{i}: {a}: interior ring lost"
                rs, rflat = pad2(dec["ring"])
                if r["ring_shape"] != rs or r["ring"] != rflat:
                    return f"pr{i}: {a}: interior ring is not the flags of container gc{j} by part"
            # the node coordinate variable's attributes are the properties of the bounds; the
            # representative coordinate variable's (without `nodes`) those of the coordinate
            src_q = p["containers"][jj]
            want_b = {att: val for att, val in zip(("standard_name", "units", "axis"), STD[a][:3])
                      if att in src_q.get("node_atts", ("standard_name", "units", "axis"))}
            if r["bprops"] != want_b:
                return f"pr{i}: {a}: bounds properties {r['bprops']} != attributes of the node coordinate variable {want_b}"
            want_c = dict(zip(("standard_name", "units"), STD[a][:2])) if a in q["rep"] else {}
            if r["cprops"] != want_c:
                return f"pr{i}: {a}: coordinate properties {r['cprops']} != {want_c}"
        if o["_ngm"] != (1 if q.get("gm") else 0):
            return f"pr{i}: {o['_ngm']} grid mapping coordinate references, the container has {'one' if q.get('gm') else 'none'}"
    return None


# ---------------------------------------------------------------- Field-level operations on geometry cells
COPS = ["ins0", "ins1", "T", "sq"]


def gen_ops(rng):
    p = gen_container(rng)
    p["layout"] = rng.choice(["it", "i"])
    n = len(p["cells"])
    r = rng.random()
    if r < 0.1:
        sel = None
        idx = list(range(n))
    elif r < 0.6:
        start = rng.choice([None, None, rng.randint(-n - 1, n + 1)])
        stop = rng.choice([None, None, rng.randint(-n - 1, n + 1)])
        step = rng.choice([None, 1, 1, 2, -1, -1, -2, 3])
        idx = list(range(n))[slice(start, stop, step)]
        if not idx:
            start, stop, step = None, None, rng.choice([1, -1])
            idx = list(range(n))[slice(start, stop, step)]
        sel = dict(kind="slice", start=start, stop=stop, step=step)
    elif r < 0.8:
        k = rng.randint(1, n)
        idx = sorted(rng.sample(range(n), k))
        if rng.random() < 0.3:
            idx = idx[::-1]
        sel = dict(kind="list", idx=[i - n if rng.random() < 0.2 else i for i in idx])
    else:
        i = rng.randrange(n)
        idx = [i]
        sel = dict(kind="slice", start=i, stop=i + 1, step=None)
    p["sel"], p["idx"] = sel, idx
    fops = ["none", "none", "transpose", "transpose-constructs"]
    p["fop"] = rng.choice(fops)
    if len(idx) == 1 and rng.random() < 0.12:
        p["fop"] = "squeeze"     # the geometry axis is no longer spanned by the data (open finding on write)
    p["cop"] = [rng.choice(COPS) for _ in range(rng.choice([0, 1, 2, 3, 4]))]
    p["named"] = rng.random() < 0.3
    return p


def cop_shape(shape, ops):
    """Independent restatement: shape of a coordinate after insert_dimension / transpose / squeeze."""
    s = list(shape)
    for o in ops:
        if o == "ins0":
            s = [1] + s
        elif o == "ins1":
            s = s[:1] + [1] + s[1:] if len(s) >= 1 else [1]
        elif o == "T":
            s = s[::-1]
        elif o == "sq":
            s = [x for x in s if x != 1]
    return s


def mk_ops(p):
    p = dict(p)
    ring = enc_cells(p["ring"]) if p["ring"] is not None else "-"
    cop = "[" + ",".join(p["cop"]) + "]"
    line = f"C14.ops cells={enc_cells(p['cells'])} ring={ring} sel={fmt_list(p['idx'])} cop={cop}"
    key = f"{line} {p['gtype']} {p['coords']} {p['rep']} {p['layout']} {p['fop']} {p['sel']}"
    tags = [f"ops:sel={'all' if p['sel'] is None else p['sel']['kind']}", f"ops:fop={p['fop']}",
            f"ops:ncop={len(p['cop'])}", f"ops:selected={min(len(p['idx']), 3)}{'+' if len(p['idx']) > 3 else ''}",
            f"ops:reversed={'y' if p['idx'] != sorted(p['idx']) else 'n'}"]
    return Case("C14.ops", p, line, key=key, nontrivial=_nontrivial(p), tags=tags)


def impl_ops(c):
    C = cfdm()
    p = c.payload
    path = tmpfile("o")
    c.extra = dict(file=None, obs=None, cop=None)
    try:
        f = build_field(p)
        sel = p["sel"]
        if sel is None:
            g = f
        elif sel["kind"] == "slice":
            g = f[slice(sel["start"], sel["stop"], sel["step"])]
        else:
            g = f[sel["idx"]]
        if p["fop"] == "transpose":
            g = g.transpose()
        elif p["fop"] == "transpose-constructs":
            g = g.transpose(constructs=True)
        elif p["fop"] == "squeeze":
            g = g.squeeze()
        obs = observe_field(g, p["coords"])
        c.extra["obs"] = obs
        # coordinate-level operations
        cops = {}
        for k, a in enumerate(p["coords"]):
            x = [y for y in g.auxiliary_coordinates(todict=True).values()
                 if y.has_bounds() and y.bounds.nc_get_variable(None) == a][0]
            b0 = np.ma.asanyarray(x.bounds.array)
            for o in p["cop"]:
                if o == "ins0":
                    x = x.insert_dimension(0)
                elif o == "ins1":
                    x = x.insert_dimension(1 if x.ndim >= 1 else 0)
                elif o == "T":
                    x = x.transpose()
                elif o == "sq":
                    x = x.squeeze()
            b1 = np.ma.asanyarray(x.bounds.array)
            same = (np.array_equal(np.ma.getmaskarray(b0).flatten(), np.ma.getmaskarray(b1).flatten())
                    and np.array_equal(b0.filled(-1).flatten(), b1.filled(-1).flatten()))
            cops[a] = dict(c=list(x.shape), ndim=x.ndim, size=x.size, b=list(x.bounds.shape),
                           r=(list(x.get_interior_ring().shape) if x.has_interior_ring() else None), same=same)
        c.extra["cop"] = cops
        first = cops[p["coords"][0]]
        copS = (f"c={fmt_list(first['c'])} b={fmt_list(first['b'])} "
                f"r={fmt_list(first['r']) if first['r'] is not None else '-'}")
        if any(v != first for v in cops.values()):
            copS = "differ:" + str(cops)
        try:
            C.write(g, path)
        except Exception as e:
            c.extra["write_error"] = "raised:" + fw.exc_enum(e)
            return canon_read(obs) + " | " + copS + " | " + c.extra["write_error"]
        c.extra["file"] = abstract_file(path)
        return canon_read(obs) + " | " + copS + " | " + canon_written(c.extra["file"], p["coords"])
    finally:
        if os.path.exists(path):
            os.remove(path)


def oracle_ops(c):
    p = c.payload
    ex = c.extra if isinstance(c.extra, dict) else {}
    obs = ex.get("obs")
    if obs is None:
        return f"the operation failed on a valid geometry field: {c.impl_out}"
    idx = p["idx"]
    allc = id_cells(p["cells"])
    want = [allc[i] for i in idx]
    mp = max(len(x) for x in allc)
    mn = max(len(q) for x in allc for q in x)
    flat = []
    for cell in want:
        for i in range(mp):
            part = cell[i] if i < len(cell) else []
            flat += list(part) + [None] * (mn - len(part))
    shp = [len(want), mp, mn]
    for k, a in enumerate(p["coords"]):
        o = obs[a]
        if "error" in o:
            return o["error"]
        if o["shape"] != shp:
            return f"{a}: bounds shape {o['shape']} after the subspace != {shp}"
        if o["b"] != flat:
            return f"{a}: bounds after the subspace are not the selected cells {idx}"
        if o["cshape"] != [len(want)] or o["csize"] != len(want):
            return f"{a}: coordinate shape {o['cshape']} / size {o['csize']} after the subspace"
        if o["type"] != p["gtype"]:
            return f"{a}: geometry type lost"
        if o["has_data"] != (a in p["rep"]) or (o["has_data"] and o["data"] != [10.0 * i + 5.0 for i in idx]):
            return f"{a}: representative values after the subspace"
        if p["ring"] is None:
            if o["ring"] is not None:
                return f"{a}: interior ring invented"
        else:
            rflat = []
            for i in idx:
                r = p["ring"][i]
                rflat += list(r) + [None] * (mp - len(r))
            if o["ring"] is None or o["ring_shape"] != [len(want), mp] or o["ring"] != rflat:
                return f"{a}: interior ring after the subspace is not that of the selected cells"
        co = ex["cop"][a]
        cs = cop_shape([len(want)], p["cop"])
        if co["c"] != cs or co["ndim"] != len(cs) or co["size"] != len(want):
            return f"{a}: coordinate shape {co['c']} (ndim {co['ndim']}, size {co['size']}) after {p['cop']} != {cs}"
        if co["b"] != cs + [mp, mn]:
            return f"{a}: bounds shape {co['b']} after {p['cop']} != {cs + [mp, mn]}"
        if (co["r"] is None) != (p["ring"] is None) or (co["r"] is not None and co["r"] != cs + [mp]):
            return f"{a}: interior ring shape {co['r']} after {p['cop']} != {cs + [mp]}"
        if not co["same"]:
            return f"{a}: node values moved under {p['cop']}"
    if ex.get("write_error"):
        return f"cfdm.write {ex['write_error']} on the field after {p['sel']} / {p['fop']}"
    q = dict(p)
    q["cells"] = [p["cells"][i] for i in idx]
    q["ring"] = None if p["ring"] is None else [p["ring"][i] for i in idx]
    af = ex.get("file")
    msg = oracle_written_values(af, q, [allc[i] for i in idx], [10.0 * i + 5.0 for i in idx], "write after the operation")
    return msg


def oracle_written_values(af, p, want, want_rep, where):
    """As oracle_written, with the node values / representative values given explicitly."""
    if af is None:
        return f"{where}: no file written"
    try:
        g = container_of(af)
        dv = [v for v in af["vars"].values() if v["atts"].get("geometry") == g][0]
        dec = cf75_decode(af, g, data_dims=dv["dims"])
    except Undecodable as e:
        return f"{where}: written container is not decodable by CF 7.5: {e}"
    if sorted(dec["node_vars"]) != sorted(p["coords"]):
        return f"{where}: node coordinate variables {dec['node_vars']} != {p['coords']}"
    if dec["type"] != p["gtype"]:
        return f"{where}: geometry_type {dec['type']} != {p['gtype']}"
    for k, a in enumerate(p["coords"]):
        got = [[[x - 1000.0 * k for x in part] for part in cell] for cell in dec["cells"][a]]
        if got != want:
            return f"{where}: {a}: decoded cells {_short_cells(got)} != {_short_cells(want)} (or other node values)"
    if p["ring"] is None:
        if dec["ring"] is not None:
            return f"{where}: interior ring invented"
    elif dec["ring"] != p["ring"]:
        return f"{where}: interior ring {dec['ring']} != {p['ring']}"
    V = af["vars"]
    for a in p["rep"]:
        reps = [k for k, v in V.items() if v["atts"].get("nodes") == a]
        if len(reps) != 1:
            return f"{where}: {len(reps)} variables with nodes={a}"
        if V[reps[0]]["vals"] != want_rep:
            return f"{where}: representative coordinate of {a} changed"
    return None


def impl(c):
    if c.stream == "C14.read":
        return impl_read(c)
    if c.stream == "C14.write":
        return impl_write(c)
    if c.stream == "C14.rt":
        return impl_rt(c)
    if c.stream == "C14.seed":
        return impl_seed(c)
    if c.stream == "C14.multi":
        return impl_multi(c)
    if c.stream == "C14.mread":
        return impl_mread(c)
    if c.stream == "C14.ops":
        return impl_ops(c)
    raise fw.HarnessError("unknown stream " + c.stream)


def agree(c):
    if c.impl_out == c.model_out:
        return True
    if c.stream == "C14.multi" and c.line is not None:
        # The model is the writer with the repair proposed for the open finding
        # write-node-variable-reused-with-other-cells.  On the inputs where that repair changes the
        # sharing decisions (an equal node coordinate variable of other cells / rings exists on the same
        # geometry dimension) the writer as it stands must behave exactly as the model of the writer as it
        # stands (`old=1`); whether the file is right is the oracle's business (it is not always wrong: a
        # node variable shared by a container with and one without rings decodes correctly).
        try:
            old = fw.model_run([c.line + " old=1"])[0]
        except Exception:
            return False
        return old != c.model_out and c.impl_out == old
    return False


# ---------------------------------------------------------------- oracle
def id_cells(cells):
    off = 0
    out = []
    for c in cells:
        cc = []
        for m in c:
            cc.append(list(range(off, off + m)))
            off += m
        out.append(cc)
    return out


def check_decoded_is_payload(dec, p, where):
    """The independent decoder applied to the harness's own file must give the generated cells."""
    want = id_cells(p["cells"])
    for k, a in enumerate(p["coords"]):
        got = [[[int(x - 1000.0 * k) for x in part] for part in cell] for cell in dec["cells"][a]]
        if got != want:
            raise fw.HarnessError(f"{where}: the independent decoder does not recover the generated cells for {a}")
    if (dec["ring"] is None) != (p["ring"] is None) or (p["ring"] is not None and dec["ring"] != p["ring"]):
        raise fw.HarnessError(f"{where}: the independent decoder does not recover the generated ring flags")


def oracle_read(c):
    p = c.payload
    ex = c.extra if isinstance(c.extra, dict) else {}
    af = ex.get("file")
    if af is None:
        return "no file was produced: " + str(c.impl_out)
    dec = cf75_decode(af, "gc")
    check_decoded_is_payload(dec, p, "read")
    obs = ex.get("obs")
    if obs is None:
        return f"cfdm.read failed on a CF-compliant geometry container: {c.impl_out}"
    if ex.get("fshape") is not None:
        want = [len(p["cells"]) if d == "i" else 2 for d in p["layout"]]
        if ex["fshape"] != want:
            return f"field shape {ex['fshape']} != {want}"
    for k, a in enumerate(p["coords"]):
        o = obs[a]
        if "error" in o:
            return o["error"]
        cells = [[[int(x - 1000.0 * k) for x in part] for part in cell] for cell in dec["cells"][a]]
        shp, flat = pad3(cells)
        if o["shape"] != shp:
            return f"{a}: bounds shape {o['shape']} != {shp} (cells x max parts x max nodes)"
        if o["b"] != flat:
            return f"{a}: bounds {show(o['b'])} != cells in file order padded {show(flat)}"
        if o["cshape"] != [dec["ncells"]] or o["cndim"] != 1 or o["csize"] != dec["ncells"]:
            return f"{a}: coordinate shape/ndim/size {o['cshape']}/{o['cndim']}/{o['csize']} are not those of {dec['ncells']} cells"
        if o["type"] != dec["type"]:
            return f"{a}: geometry type {o['type']} != {dec['type']}"
        if o["has_data"] != (a in p["rep"]):
            return f"{a}: representative coordinate presence wrong"
        if o["has_data"] and o["data"] != [10.0 * i + 5.0 for i in range(dec["ncells"])]:
            return f"{a}: representative coordinate values changed"
        if dec["ring"] is None:
            if o["ring"] is not None:
                return f"{a}: interior ring invented"
        else:
            if o["ring"] is None:
                return f"{a}: interior ring lost"
            rs, rflat = pad2(dec["ring"])
            if o["ring_shape"] != rs or o["ring"] != rflat:
                return f"{a}: interior ring {show(o['ring'])} shape {o['ring_shape']} != flags by part {show(rflat)} shape {rs}"
    return None


def oracle_written(af, p, where):
    """The written file, decoded independently, must give the cells of `p`."""
    if af is None:
        return f"{where}: no file written"
    try:
        g = container_of(af)
        dv = [v for v in af["vars"].values() if v["atts"].get("geometry") == g][0]
        dec = cf75_decode(af, g, data_dims=dv["dims"])
    except Undecodable as e:
        return f"{where}: written container is not decodable by CF 7.5: {e}"
    if sorted(dec["node_vars"]) != sorted(p["coords"]):
        return f"{where}: node coordinate variables {dec['node_vars']} != {p['coords']}"
    if dec["type"] != p["gtype"]:
        return f"{where}: geometry_type {dec['type']} != {p['gtype']}"
    if p.get("check_gm_absent") and af["vars"][g]["atts"].get("grid_mapping") is not None:
        return (f"{where}: container has a grid_mapping attribute {af['vars'][g]['atts'].get('grid_mapping')!r} "
                "but the field has no grid mapping")
    want = id_cells(p["cells"])
    for k, a in enumerate(p["coords"]):
        got = [[[x - 1000.0 * k for x in part] for part in cell] for cell in dec["cells"][a]]
        if got != want:
            return f"{where}: {a}: decoded cells {got} != {want}"
    if p["ring"] is None:
        if dec["ring"] is not None:
            return f"{where}: interior ring invented"
    elif dec["ring"] != p["ring"]:
        return f"{where}: interior ring {dec['ring']} != {p['ring']}"
    # representative coordinates survive
    V = af["vars"]
    for a in p["rep"]:
        reps = [k for k, v in V.items() if v["atts"].get("nodes") == a]
        if len(reps) != 1:
            return f"{where}: {len(reps)} variables with nodes={a}"
        if V[reps[0]]["vals"] != [10.0 * i + 5.0 for i in range(len(p["cells"]))]:
            return f"{where}: representative coordinate of {a} changed"
    for a in p["coords"]:
        if a not in p["rep"] and any(v["atts"].get("nodes") == a for v in V.values()):
            return f"{where}: representative coordinate invented for {a}"
    return None


def oracle(c):
    p = c.payload
    ex = c.extra if isinstance(c.extra, dict) else {}
    if c.stream == "C14.read":
        return oracle_read(c)
    if c.stream == "C14.multi":
        return oracle_multi(c)
    if c.stream == "C14.mread":
        return oracle_mread(c)
    if c.stream == "C14.ops":
        return oracle_ops(c)
    if c.stream == "C14.write":
        if str(c.impl_out).startswith("raised"):
            return f"cfdm.write {c.impl_out} on a valid geometry field"
        return oracle_written(ex.get("file"), p, "write")
    if c.stream == "C14.rt":
        af = ex.get("file")
        if af is None:
            return "no file was produced"
        check_decoded_is_payload(cf75_decode(af, "gc"), p, "rt")
        if c.impl_out != "ok":
            return f"read-then-write failed: {c.impl_out}"
        return oracle_written(ex.get("file2"), p, "rt")
    if c.stream == "C14.seed":
        if c.impl_out == "seed-not-generated":
            return None
        af = ex.get("file")
        if str(c.impl_out).startswith("raised"):
            return "cfdm.read failed on a test-suite geometry file: " + c.impl_out
        dec = cf75_decode(af, container_of(af))
        for obs in ex["per_field"]:
            for a in dec["node_vars"]:
                o = obs[a]
                if "error" in o:
                    return o["error"]
                shp, flat = pad3(dec["cells"][a])
                if o["shape"] != shp or o["b"] != [None if x is None else (int(x) if x == int(x) else x) for x in flat]:
                    return f"{p['seed']}: {a}: bounds differ from the independent decoding"
                if o["cshape"] != [dec["ncells"]]:
                    return f"{p['seed']}: {a}: coordinate shape {o['cshape']}"
                if o["type"] != dec["type"]:
                    return f"{p['seed']}: {a}: geometry type"
                if (dec["ring"] is None) != (o["ring"] is None):
                    return f"{p['seed']}: {a}: interior ring presence"
                if dec["ring"] is not None and o["ring"] != pad2(dec["ring"])[1]:
                    return f"{p['seed']}: {a}: interior ring flags"
        return None
    return None


# ---------------------------------------------------------------- shrinking
def _variants(p):
    """Smaller containers of the same kind."""
    cells, ring = p["cells"], p["ring"]

    def mk(cells2, ring2, **kw):
        q = dict(p)
        q["cells"], q["ring"] = cells2, ring2
        q.update(kw)
        return q

    for i in range(len(cells)):
        if len(cells) > 1:
            yield mk(cells[:i] + cells[i + 1:], None if ring is None else ring[:i] + ring[i + 1:])
    for i, c in enumerate(cells):
        for j in range(len(c)):
            if len(c) > 1 and p["use_pnc"]:
                c2 = c[:j] + c[j + 1:]
                r2 = None if ring is None else ring[:i] + [ring[i][:j] + ring[i][j + 1:]] + ring[i + 1:]
                if r2 is not None and r2[i] and r2[i][0] != 0:
                    continue
                yield mk(cells[:i] + [c2] + cells[i + 1:], r2)
            if c[j] > 8 and p["use_nc"]:
                # large counts (storage-type families): halve before decrementing
                c2 = c[:j] + [c[j] // 2] + c[j + 1:]
                yield mk(cells[:i] + [c2] + cells[i + 1:], ring)
            if c[j] > 1 and p["use_nc"]:
                c2 = c[:j] + [c[j] - 1] + c[j + 1:]
                yield mk(cells[:i] + [c2] + cells[i + 1:], ring)
    if ring is not None:
        yield mk(cells, None)
    if len(p["coords"]) > 1:
        for a in p["coords"]:
            yield mk(cells, ring, coords=[b for b in p["coords"] if b != a], rep=[b for b in p["rep"] if b != a])
    if p["rep"]:
        yield mk(cells, ring, rep=[])
    if p.get("layout") != "i":
        yield mk(cells, ring, layout="i")


def _variants_new(stream, p):
    """Smaller inputs of the multi / mread / ops streams."""
    if stream == "C14.multi":
        fs = p["fields"]
        for i in range(len(fs)):
            if len(fs) > 1:
                yield dict(p, fields=fs[:i] + fs[i + 1:], family=p.get("family", []))
        for i, fl in enumerate(fs):
            for q in _variants(dict(fl, use_nc=True, use_pnc=True)):
                q = {k: v for k, v in q.items() if k not in ("use_nc", "use_pnc")}
                if isinstance(q.get("nodeset"), dict):
                    q["nodeset"] = {a: q["nodeset"].get(a, 0) for a in q["coords"]}
                yield dict(p, fields=fs[:i] + [q] + fs[i + 1:])
    elif stream == "C14.mread":
        cs, vs = p["containers"], p["vars"]
        for i in range(len(vs)):
            if len(vs) > 1:
                yield dict(p, vars=vs[:i] + vs[i + 1:])
        # a container that no data variable names and no other container depends on can go
        for j in range(len(cs) - 1, -1, -1):
            used = j in vs or any(q.get(k) == j for jj, q in enumerate(cs) if jj != j for k in ("inst", "node", "part", "nodes_of"))
            if not used and len(cs) > 1 and j == len(cs) - 1:
                yield dict(p, containers=cs[:j])
        if p.get("grouped"):
            yield dict(p, grouped=False)
        for j, q in enumerate(cs):
            if q.get("gm"):
                yield dict(p, containers=cs[:j] + [dict(q, gm=False)] + cs[j + 1:])
    elif stream == "C14.ops":
        if p["cop"]:
            yield dict(p, cop=p["cop"][:-1])
        if p["layout"] != "i":
            yield dict(p, layout="i")
        if len(p["coords"]) > 1:
            a = p["coords"][-1]
            yield dict(p, coords=p["coords"][:-1], rep=[b for b in p["rep"] if b != a])
        if p["rep"]:
            yield dict(p, rep=[])


def shrink_new(c):
    sig = classify(c)
    best = c
    improved = True
    steps = 0
    while improved and steps < 120:
        improved = False
        for q in _variants_new(c.stream, best.payload):
            steps += 1
            try:
                d = from_payload(c.stream, q)
                if d.line is not None:
                    d.model_out = fw.model_run([d.line])[0]
                    if d.model_out == "bad-op":
                        continue
                d.impl_out = impl(d)
                d.oracle_fail = oracle(d)
            except Exception:
                continue
            if d.oracle_fail and classify(d) == sig:
                best = d
                improved = True
                break
    return best if best is not c else None


def shrink(c, run):
    """Greedy delta-debugging: keep a smaller container while it still fails with the same signature."""
    if c.stream == "C14.seed":
        return None
    if c.stream in ("C14.multi", "C14.mread", "C14.ops"):
        return shrink_new(c)
    sig = classify(c)
    best = c
    improved = True
    steps = 0
    while improved and steps < 200:
        improved = False
        for q in _variants(best.payload):
            steps += 1
            d = from_payload(c.stream, q)
            try:
                d.impl_out = impl(d)
                d.oracle_fail = oracle(d)
            except fw.HarnessError:
                continue
            except Exception:
                continue
            if d.oracle_fail and classify(d) == sig:
                if d.line is not None:
                    try:
                        d.model_out = fw.model_run([d.line])[0]
                    except Exception:
                        pass
                best = d
                improved = True
                break
    return best if best is not c else None


# ---------------------------------------------------------------- extra evidence
def extra_coverage(run):
    """How many of the failing (known-finding) cases behave exactly as the model of the
    *unpatched* code (`old=1`) predicts.  Informational: never part of pass/fail."""
    cs = [c for c, _, _ in run.failures if c.line is not None and c.impl_out is not None]
    if not cs or not fw.EXE.exists():
        return {}
    try:
        outs = fw.model_run([c.line + " old=1" for c in cs])
    except Exception as e:
        return dict(old_code_model=f"not evaluated: {e!r}"[:200])
    same = sum(1 for c, o in zip(cs, outs) if c.impl_out == o)
    return dict(old_code_model=dict(failing_cases_with_a_model_line=len(cs), agree_with_model_of_unpatched_code=same))


# ---------------------------------------------------------------- findings
def old_part_index(nc, pnc):
    """The part->cell vector the loop of _parse_geometry computes with `i += k + 1`."""
    index = list(pnc)
    inst = 0
    i = 0
    for need in nc:
        n = 0
        for k in range(i, len(pnc)):
            index[k] = inst
            n += pnc[k]
            if n >= need:
                inst += 1
                i += k + 1
                break
    return index


def true_part_index(cells):
    return [ci for ci, c in enumerate(cells) for _ in c]


W1 = "write-node-variable-reused-with-other-cells"
W2 = "write-empty-grid-mapping-attribute-on-container"
W3 = "write-geometry-axis-not-spanned-by-data"
R1 = "read-containers-sharing-a-node-or-part-dimension"
R2 = "read-node-variable-shared-by-two-containers"


def mread_shared_dimension(p):
    """Two containers of a hand-encoded file on one node dimension with other counts, or on one part
    dimension with an interior ring variable each."""
    cs = p["containers"]
    for i, a in enumerate(cs):
        for j in range(i + 1, len(cs)):
            b = cs[j]
            if a.get("nodes_of") == i or b.get("nodes_of") == i:
                pass
            if a["use_nc"] and b["use_nc"] and a.get("node", i) == b.get("node", j) and a["cells"] != b["cells"]:
                return True
            if (a["use_pnc"] and b["use_pnc"] and a.get("part", i) == b.get("part", j)
                    and a["ring"] is not None and b["ring"] is not None):
                return True
    return False


def mread_shared_nodes(p):
    cs = p["containers"]
    return any(q.get("nodes_of") is not None
               and (q["gtype"] != cs[q["nodes_of"]]["gtype"] or q["ring"] != cs[q["nodes_of"]]["ring"]) for q in cs)


def classify_new(c):
    """Signatures of the streams multi / mread / ops (input condition + which check failed)."""
    p = c.payload
    msg = str(c.oracle_fail or "")
    kind = c.stream.split(".")[-1]
    if c.stream == "C14.multi":
        if "has a grid_mapping attribute" in msg and p.get("check_gm_absent"):
            return W2
        if "read back" in msg or msg.startswith("cfdm.read of the written file"):
            if shared_dimension_other_counts(p["fields"]):
                return R1
            if shared_nodes_other_container(p["fields"]):
                return R2
            return "unclassified-multi-readback"
        # a file-level failure (or cfdm.write raised): known only where the writer as it stands and
        # the writer with the proposed repair decide differently on this very input
        try:
            old, new = fw.model_run([c.line + " old=1", c.line])
        except Exception:
            return "unclassified-multi"
        if old != new:
            return W1
        return "unclassified-multi"
    if c.stream == "C14.mread":
        if mread_shared_dimension(p):
            return R1
        if mread_shared_nodes(p):
            return R2
        return "unclassified-mread"
    if c.stream == "C14.ops":
        if p.get("fop") == "squeeze" and len(p["idx"]) == 1 and "cfdm.write raised:IndexError" in msg:
            return W3
        return "unclassified-ops"
    return "unclassified-" + kind


def classify(c):
    p = c.payload
    if c.stream == "C14.seed":
        return "unclassified-seed"
    if c.stream in ("C14.multi", "C14.mread", "C14.ops"):
        return classify_new(c)
    if c.stream == "C14.write" and p.get("check_gm_absent") and "has a grid_mapping attribute" in str(c.oracle_fail or ""):
        return W2
    cells = p["cells"]
    nc = [sum(x) for x in cells]
    pnc = [v for x in cells for v in x]
    mp = max(len(x) for x in cells)
    D1 = "read-part-cell-running-offset-3-or-more-cells"
    D2 = "write-part-node-count-zero-for-padding-parts"
    D3 = "write-interior-ring-without-part-node-count"
    # D1: part_node_count present, >= 3 cells, and the loop as coded assigns some part to another cell
    d1 = bool(p.get("use_pnc") and p.get("use_nc") and len(cells) >= 3 and old_part_index(nc, pnc) != true_part_index(cells))
    # D2: a cell other than the last has fewer parts than the widest cell: zero inside part_node_count
    d2 = mp > 1 and any(len(x) < mp for x in cells[:-1])
    # D3: an interior ring on a geometry none of whose cells has a second part
    d3 = mp == 1 and p.get("ring") is not None
    if c.stream == "C14.read" and d1:
        return D1
    if c.stream == "C14.write":
        if d2:
            return D2
        if d3:
            return D3
    if c.stream == "C14.rt":
        # read then write: the oracle's message tells which half went wrong first
        msg = str(c.oracle_fail or "")
        if d2 and ("raised:ValueError" in msg or ("part_node_count" in msg and "inconsistent" in msg)):
            return D2
        if d3 and "interior_ring without part_node_count" in msg:
            return D3
        if d1:
            return D1
        if d2:
            return D2
        if d3:
            return D3
    # anything else is new: one group (hence one shrunk replay) per stream, never a known signature
    return "unclassified-" + c.stream.split(".")[-1]
