"""C20 — global settings changed for a call or a block are always restored.

Stream
  C20.prog   a random well-nested program over the real cfdm API, observed after every step
             (model + oracle).  Statements:
               set / cfg            cfdm.atol(x), rtol(x), log_level(x), configuration(...)
               with / wcfg          the same used as context managers
               call                 a synthetic function or method decorated with the real
                                    cfdm.decorators._manage_log_level_via_verbosity whose body
                                    runs the nested statements and observes in between
               real                 a decorated cfdm function found by reflection (equals of
                                    every construct class, Constructs._equals_*, read, write, …),
                                    called so that it returns or so that it raises
               try / raise / eq     try-except, raise, Data.equals(rtol=, atol=)
             Observed after every step: cfdm.atol(), rtol(), log_level(), configuration(),
             logging.root.manager.disable, logging.getLogger().level.

               req                  `equals` of a cfdm class found by reflection (Field, Domain, Constructs,
                                    every construct class, Bounds, Datum, …) on operands that differ by a
                                    known amount in their own data, their bounds, a parameter or — five
                                    calls deep — the data / bounds of a metadata construct, with tolerance
                                    and verbose arguments (keyword or positional): the verdict and the
                                    decorated call are two model statements (`vd` + `real`)
  C20.cm     objects returned by the setters / configuration() used as context managers in ANY
             interleaving: `with` blocks inside generators suspended at a `yield` (left later by
             resuming, by throw() or by close()), the same object entered several times
             (model + oracle)
  C20.fn     the private helpers `_disable_logging`, `_is_valid_log_level_int`,
             `_reset_log_emergence_level`, `log_level._parse` called directly from any logging state
             (model only: intermediates, a mismatch is model drift, never by itself a failing input)

The driver answers C20.prog with three predictions: `decoNew` (what the property demands of
every decorated call), the decorator after fixes/C20-verbose-scope.patch (`decoMidFine`) and the
decorator of 1.11.2.0 (`decoOldFine`).  They are proved equal on guarded programs
(C20_mid_eq_new_on_guarded, C20_old_eq_new_on_guarded); the implementation is compared with the
first, and where it differs a failure is a known finding only if the whole observed trace equals
the second or the third and the first violated clause is the one that defect describes.
"""
import ast
import contextlib
import copy
import inspect
import io
import json
import logging as _logging
import multiprocessing
import multiprocessing.util
import os
import sys
import tempfile

from .. import fw
from ..fw import Case

REQUIRED = [
    "C20_enum_table",
    "C20_setter_returns_old",
    "C20_with_restores",
    "C20_with_restores_logging",
    "C20_with_cfg_restores",
    "C20_configuration_rollback",
    "C20_verbose_call_restores",
    "C20_verbose_scoped",
    "C20_verbose_scoped_with_blocks",
    "C20_decorated_call_keeps_consistency",
    "C20_logging_follows_global_level",
    "C20_tol_args_local",
    "C20_old_invalid_verbose_leaks_counter",
    "C20_old_nested_verbose_not_restored",
    "C20_old_equals_disables_logging",
    "C20_old_verbose_zero_reenables_logging",
    "C20_old_single_call_restores_partial",
    "C20_old_verbose_scoped_partial",
    "C20_old_eq_new_on_guarded",
    "C20_mid_invalid_verbose_no_trace",
    "C20_mid_nested_call_restores",
    "C20_mid_repairs_leak_and_nested",
    "C20_mid_verbose_zero_still_reenables_logging",
    "C20_mid_verbose_scoped_partial",
    "C20_mid_eq_new_on_guarded",
    "C20_nested_verbose_table",
    "C20_helpers_refine",
    "C20_verbose_in_force",
    "C20_lift_must_be_unconditional",
    "C20_passed_tolerances_reach_every_comparison",
    "C20_cm_exit_restores_what_the_object_captured",
    "C20_cm_exit_restores_configuration",
    "C20_blocks_restore_everything",
]
BUDGET = {"quick": 10000, "thorough": 300000}
RULE = (
    "C20.prog: well-nested programs (depth <= 3 quick, <= 6 thorough) of {setter, configuration, with-block of a "
    "setter / of configuration (with and without argument), decorated call (synthetic function or method, "
    "or one of the decorated cfdm functions found by reflection, returning or raising), try, raise, "
    "equals of a minimal Data / coordinate / Field, and equals of every cfdm class with an equals method found by "
    "reflection on the example fields (difference placed in its data, its bounds, a parameter, or the data / bounds of "
    "a metadata construct of a Field / Domain / Constructs) with tolerance arguments (explicit zero included; spelled as "
    "int, float, numpy float64 / int64 / float32 scalar, 0-d numpy array or cfdm.Constant; keyword or positional; global "
    "loose vs passed tight and vice versa on operands differing by a known amount) and a verbose argument} x verbose in "
    "{None, -1..3, level names in any case, True, False, invalid ints, invalid names} x initial level in the 5 values x 9 "
    "tolerance values (8 powers of two and zero); observed after every step at every depth.  Families: general programs; "
    "the table (global level) x (outermost verbose) x (nested verbose) with synthetic and real nested calls; real cfdm call "
    "chains (Field/Domain/Constructs.equals, read, write) under every global level; tolerance programs.  Programs predicted "
    "to end in a defect class the decorator under test was measured to have are kept about one time in eight.  "
    "C20.cm: flat histories of {object = setter(arg) / configuration(...), enter a with-block on an object (itself, a copy, a "
    "deepcopy; any object any number of times) inside a generator suspended at a yield, leave any open block (resume, throw, "
    "close) in any order, plain setter calls, a hand-made Constant}.  C20.fn: the private logging helpers from any "
    "(LOG_LEVEL, root level, disable level).  non-trivial = has a call with verbose not None, a with-block, a raise, a "
    "reflected equals, a block exit or a helper call; distinct = distinct program / history text"
)
ASSUMPTIONS = [
    "tolerances are 8 exact powers of two and exact zero (floats are abstract identifiers in the model); arguments that make float() raise TypeError are not generated (only ValueError is rolled back by _configuration)",
    "the root logger level is compared while logging is enabled (manager.disable == 0); under logging.disable(CRITICAL) it filters nothing and cfdm re-derives it whenever logging is re-enabled, so it is printed as '-'",
    "a with-block of log_level/configuration placed *inside* a call with a verbose re-derives the logging state from the restored global level on exit (by design of Constant.__exit__); there the oracle demands the three settings only, the model comparison covers the rest",
    "bodies of the real cfdm functions are opaque: they are observed after they return/raise only; the net verbosity of the decorated calls such a function makes itself is measured through public observables (logging state right after it returns inside an enclosing verbose=None call) and only feeds the models of the decorator as coded; an equals whose nested calls depend on the verdict for some verbose is driven with that verbose through the fixed `real` recipes only",
    "the private nesting counter of the decorator is reset between programs (best effort, so that cases stay independent) and is never compared",
    "verbose values of other types (floats etc.) are outside the property's quantifier and not generated",
    "C20.cm: a block is left at most once (a finished generator cannot run __exit__ again); copies of a Configuration are not generated (Configuration.copy()/deepcopy recurse for ever in 1.11.2.0 - outside the property's text, reported separately); garbage collection of a suspended generator (which would run __exit__ at an unpredictable time) is excluded by keeping references",
    "C20.fn compares private helpers with the step-by-step model (names passed to getattr(logging, .) restricted to those both sides define); a mismatch there is model drift and can by itself only yield no-failing-input-found",
]

LEVELS = ["DISABLE", "WARNING", "INFO", "DETAIL", "DEBUG"]
VALUE = {"DISABLE": 0, "WARNING": 1, "INFO": 2, "DETAIL": 3, "DEBUG": -1}
BYVALUE = {v: k for k, v in VALUE.items()}
NUM = {"WARNING": 30, "INFO": 20, "DETAIL": 15, "DEBUG": 10}
CRITICAL = 50
TOL_EXP = [52, 40, 30, 20, 12, 8, 4, 1]
TOLS = [2.0 ** -e for e in TOL_EXP] + [0.0]     # number 8 is exactly zero
ZERO = len(TOLS) - 1
TOL_INDEX = {t: i for i, t in enumerate(TOLS)}

# ------------------------------------------------------------------ table regeneration


def _tables_from_repo():
    repo = fw.REPO
    src = (repo / "cfdm" / "constants.py").read_text()
    tree = ast.parse(src)
    members = None
    keys = None
    for node in tree.body:
        if isinstance(node, ast.ClassDef) and node.name == "ValidLogLevels":
            members = []
            for st in node.body:
                if isinstance(st, ast.Assign) and len(st.targets) == 1 and isinstance(st.targets[0], ast.Name):
                    members.append((st.targets[0].id, int(ast.literal_eval(st.value))))
        if isinstance(node, ast.Assign) and any(isinstance(t, ast.Name) and t.id == "CONSTANTS" for t in node.targets):
            if isinstance(node.value, ast.Dict):
                keys = [ast.literal_eval(k) for k in node.value.keys]
    if members is None or keys is None:
        raise fw.HarnessError("ValidLogLevels / CONSTANTS not found in cfdm/constants.py")
    # numeric levels: those cfdm adds to `logging` in cfdm/__init__.py, else the standard module's
    extra = {}
    init = ast.parse((repo / "cfdm" / "__init__.py").read_text())
    for node in ast.walk(init):
        if isinstance(node, ast.Assign) and len(node.targets) == 1:
            t = node.targets[0]
            if isinstance(t, ast.Attribute) and isinstance(t.value, ast.Name) and t.value.id == "logging":
                try:
                    extra[t.attr] = int(ast.literal_eval(node.value))
                except Exception:
                    pass
    std = {"CRITICAL": 50, "ERROR": 40, "WARNING": 30, "INFO": 20, "DEBUG": 10, "NOTSET": 0}
    nums = []
    for name, _ in members:
        if name in extra:
            nums.append((name, extra[name]))
        elif name in std:
            nums.append((name, std[name]))
    return members, nums, keys, std["CRITICAL"], std["NOTSET"]


def pre():
    members, nums, keys, critical, notset = _tables_from_repo()

    def pairs(xs):
        return "[" + ", ".join(f'("{n}", {v})' for n, v in xs) + "]"

    text = (
        "/- GENERATED by harness/corr/C20.py:pre() from /repo/cfdm/constants.py (class ValidLogLevels),\n"
        "   /repo/cfdm/__init__.py (logging.DETAIL) and the standard `logging` module.  Do not edit. -/\n"
        "namespace Cfdm.Generated.LogLevels\n\n"
        "/-- `ValidLogLevels` members in definition order: (name, value). -/\n"
        f"def validLogLevels : List (String × Int) :=\n  {pairs(members)}\n\n"
        "/-- `getattr(logging, name)` for every member name that `logging` defines. -/\n"
        f"def loggingNo : List (String × Nat) :=\n  {pairs(nums)}\n\n"
        "/-- `logging.CRITICAL`, the default argument of `logging.disable()`. -/\n"
        f"def critical : Nat := {critical}\n\n"
        "/-- `logging.NOTSET`. -/\n"
        f"def notset : Nat := {notset}\n\n"
        "/-- Keys of `CONSTANTS`, in definition order. -/\n"
        "def constantsKeys : List String := [" + ", ".join(f'"{k}"' for k in keys) + "]\n\n"
        "end Cfdm.Generated.LogLevels\n"
    )
    fw.write_if_changed(fw.LEAN / "Cfdm" / "Generated" / "LogLevels.lean", text)
    # import cfdm and build the scratch files here, in the main process, so that the forked
    # workers share them and the single scratch directory is removed when the main process exits
    env()


# ------------------------------------------------------------------ cfdm, reflection, recipes
_env = None


class Env:
    pass


def _is_verbosity_decorated(fn):
    """Reflection + behavioural probe: a decorated function (`__wrapped__`) whose wrapper
    validates `verbose` before anything else.  (Signatures are no use: the docstring-rewriting
    metaclass gives every class its own copy of an inherited decorated method, and those copies
    show `(*args, **kwargs)`.)"""
    if not (inspect.isfunction(fn) and hasattr(fn, "__wrapped__")):
        return False
    try:
        with contextlib.redirect_stdout(io.StringIO()):
            fn(object(), verbose="__no_such_level__")
    except ValueError:
        return True
    except Exception:
        return False
    return False


def discover(C):
    """Every function object defined on a cfdm class or module that is wrapped by the
    verbosity decorator, keyed `module:Class.name` (the class that owns that function object)."""
    import importlib
    import pkgutil

    mods = [C]
    for m in pkgutil.walk_packages(C.__path__, C.__name__ + "."):
        if ".test" in m.name:
            continue
        try:
            mods.append(importlib.import_module(m.name))
        except Exception:
            pass
    classes = {}
    cands = {}
    for mod in mods:
        for nm, obj in list(vars(mod).items()):
            if inspect.isclass(obj) and getattr(obj, "__module__", "").startswith(C.__name__):
                classes[f"{obj.__module__}:{obj.__qualname__}"] = obj
            elif inspect.isfunction(obj) and getattr(obj, "__module__", "").startswith(C.__name__):
                cands.setdefault(id(obj), (f"{mod.__name__}:{nm}", obj))
    for cname in sorted(classes):
        cls = classes[cname]
        for name, attr in sorted(vars(cls).items()):
            fn = attr.__func__ if isinstance(attr, (staticmethod, classmethod)) else attr
            if inspect.isfunction(fn):
                cands.setdefault(id(fn), (f"{cname}.{name}", fn))
    found = {}
    for key, fn in cands.values():
        if _is_verbosity_decorated(fn):
            found[key] = fn
    return dict(sorted(found.items()))


def env():
    """Import cfdm, silence handlers, find the decorated functions and a way to call each."""
    global _env
    if _env is not None:
        return _env
    import cfdm as C

    e = Env()
    e.C = C
    e.logging = C.logging if hasattr(C, "logging") else _logging
    root = _logging.getLogger()
    for h in list(root.handlers):
        root.removeHandler(h)
    root.addHandler(_logging.NullHandler())
    e.deco = C.decorators._manage_log_level_via_verbosity
    deco = e.deco

    @deco
    def syn_func(body, verbose=None):
        return body()

    class Syn:
        @deco
        def method(self, body, verbose=None):
            return body()

    e.syn_func = syn_func
    e.syn_obj = Syn()
    e.funcs = discover(C)
    e.names = list(e.funcs)
    _reset(e)
    # object pool from the example fields
    pool = []

    def add(o):
        if o is not None:
            pool.append(o)

    fields = []
    for i in range(16):
        try:
            fields.append(C.example_field(i))
        except Exception:
            pass
    for f in fields:
        add(f)
        add(getattr(f, "domain", None))
        add(f.constructs)
        add(f.data if f.has_data() else None)
        if f.has_data():
            for getter in ("get_count", "get_index", "get_list", "source"):
                try:
                    add(getattr(f.data, getter)(None))
                except Exception:
                    pass
        for c in f.constructs.values():
            add(c)
            try:
                if c.has_data():
                    add(c.data)
                    for getter in ("get_count", "get_index", "get_list", "source"):
                        try:
                            add(getattr(c.data, getter)(None))
                        except Exception:
                            pass
            except Exception:
                pass
            for getter in ("get_node_count", "get_part_node_count"):
                try:
                    add(getattr(c, getter)(None))
                except Exception:
                    pass
            for attr in ("bounds", "interior_ring", "datum", "coordinate_conversion"):
                try:
                    sub = getattr(c, attr, None)
                    if sub is not None and not callable(sub):
                        add(sub)
                except Exception:
                    pass
    e.scratch = tempfile.mkdtemp(prefix="verif_c20_")
    import atexit
    import shutil

    atexit.register(shutil.rmtree, e.scratch, True)
    if multiprocessing.current_process().name != "MainProcess":
        # pool workers do not run atexit handlers
        multiprocessing.util.Finalize(None, shutil.rmtree, args=(e.scratch, True), exitpriority=1)
    e.ncfile = os.path.join(e.scratch, "f.nc")      # written once here, then only read
    # written by the `write` recipe: one file per process (the workers are forked after this)
    e.ncout = lambda: os.path.join(e.scratch, f"g_{os.getpid()}.nc")
    e.field0 = fields[0] if fields else None
    try:
        with contextlib.redirect_stdout(io.StringIO()):
            C.write(e.field0, e.ncfile)
    except Exception:
        e.ncfile = None
    # recipes: qualified name -> list of thunks taking verbose
    e.recipes = {}
    for qn, fn in e.funcs.items():
        name = qn.rsplit(".", 1)[-1]
        rs = []
        if name == "read" and "netcdfread" in qn.lower():
            if e.ncfile:
                rs.append(lambda v, C=C, p=e.ncfile: C.read(p, verbose=v))
        elif name == "write" and "netcdfwrite" in qn.lower():
            if e.field0 is not None:
                rs.append(lambda v, C=C, f=e.field0, p=e.ncout: C.write(f, p(), verbose=v))
        else:
            types_seen = set()
            for o in pool:
                if type(o) in types_seen:
                    continue
                try:
                    bound = getattr(o, name, None)
                    if bound is None or getattr(bound, "__func__", None) is not fn:
                        continue
                except Exception:
                    continue
                types_seen.add(type(o))
                if "equals" in name:
                    other = o.copy() if hasattr(o, "copy") else o
                    rs.append(lambda v, b=bound, other=other: b(other, verbose=v))
                    # an unequal partner: makes the function log and return False
                    diff = next((q for q in pool if type(q) is type(o) and q is not o), None)
                    if diff is not None:
                        rs.append(lambda v, b=bound, other=diff: b(other, verbose=v))
                else:
                    rs.append(lambda v, b=bound: b(verbose=v))
                if len(types_seen) >= 4:
                    break
        # calibrate: keep the thunks that return normally with verbose=None
        good = []
        for r in rs:
            try:
                with contextlib.redirect_stdout(io.StringIO()):
                    r(None)
                good.append(r)
            except Exception:
                pass
        e.recipes[qn] = good
    _reset(e)
    d1 = {}
    e.eq_cache = d1
    e.eq_variants = _build_eq_variants(e, pool)
    e.chain_names = [qn for qn in e.names if e.recipes.get(qn) and qn.rsplit(":", 1)[-1] in (
        "Field.equals", "Domain.equals", "Constructs.equals", "NetCDFRead.read", "NetCDFWrite.write",
        "AuxiliaryCoordinate.equals", "DimensionCoordinate.equals", "CoordinateReference.equals")]
    e.flags = _behaviour_flags(e)
    _reset(e)
    _env = e
    return e


DELTA_M0 = 5          # calibration of the reflected `equals` variants: operands differing by 7*2^-5


def _set_numbers(C, obj, value):
    """Replace the data of `obj` by an array of the same shape filled with `value`."""
    import numpy as np

    d = obj.data
    new = C.Data(np.full(d.shape, value, dtype=float), units=d.get_units(None), calendar=d.get_calendar(None))
    if isinstance(obj, C.Field):
        obj.set_data(new, axes=obj.get_data_axes(), copy=False)
    else:
        obj.set_data(new, copy=False)


def _eq_makers(C, o):
    """Ways of deriving from the cfdm object `o` two objects that differ by `delta` everywhere in ONE
    numeric component (and are otherwise equal): [(where, make(delta) -> (x, y))]."""
    import numpy as np

    out = []
    if isinstance(o, C.Data):
        out.append(("data", lambda dl, o=o: (C.Data(np.full(o.shape, 2.0 + dl)), C.Data(np.full(o.shape, 2.0)))))
        return out

    def two(mod):
        def make(dl):
            x, y = o.copy(), o.copy()
            mod(x, 2.0 + dl)
            mod(y, 2.0)
            return x, y
        return make

    try:
        if hasattr(o, "has_data") and o.has_data():
            out.append(("data", two(lambda t, v: _set_numbers(C, t, v))))
    except Exception:
        pass
    try:
        if hasattr(o, "has_bounds") and o.has_bounds():
            out.append(("bounds", two(lambda t, v: _set_numbers(C, t.bounds, v))))
    except Exception:
        pass
    try:
        cs = o if isinstance(o, C.Constructs) else getattr(o, "constructs", None)
        if isinstance(cs, C.Constructs):
            def sub(t, key):
                return (t if isinstance(t, C.Constructs) else t.constructs)[key]

            done = set()
            for key, c in sorted(cs.filter_by_data(todict=True).items()):
                tn = type(c).__name__
                if ("c", tn) not in done:
                    done.add(("c", tn))
                    out.append(("construct-data:" + tn, two(lambda t, v, key=key: _set_numbers(C, sub(t, key), v))))
                if getattr(c, "has_bounds", lambda: False)() and ("b", tn) not in done:
                    done.add(("b", tn))
                    out.append(("construct-bounds:" + tn, two(lambda t, v, key=key: _set_numbers(C, sub(t, key).bounds, v))))
    except Exception:
        pass
    try:
        if hasattr(o, "parameters") and hasattr(o, "set_parameter"):
            for k, v in sorted(o.parameters().items()):
                if isinstance(v, (int, float, np.floating, np.integer)) and not isinstance(v, bool):
                    out.append(("parameter", two(lambda t, val, k=k: t.set_parameter(k, val))))
                    break
    except Exception:
        pass
    try:
        cc = getattr(o, "coordinate_conversion", None)
        if cc is not None and not callable(cc):
            for k, v in sorted(cc.parameters().items()):
                if isinstance(v, (int, float, np.floating, np.integer)) and not isinstance(v, bool):
                    out.append(("conversion-parameter", two(lambda t, val, k=k: t.coordinate_conversion.set_parameter(k, val))))
                    break
    except Exception:
        pass
    return out


def _build_eq_variants(e, pool):
    """Every cfdm class with an `equals` that takes tolerances, found by reflection on the objects of
    the example fields, each with the places where a numeric difference can sit.  A variant is kept
    if the method sees that component at all — with everything at its default an operand equals its
    copy and the two operands (differing by 7*2^-5) are unequal.  Deliberately NOT calibrated with
    tolerance arguments: a method that drops or mangles them must stay in the list to be caught.
    Positional calls are made only where reflection shows the order (self, other, rtol, atol)."""
    C = e.C
    dl = 7 * 2.0 ** -DELTA_M0
    variants = {}
    for o in pool:
        tn = type(o).__name__
        if not callable(getattr(o, "equals", None)):
            continue
        for where, make in _eq_makers(C, o):
            if (tn, where) in variants:
                continue
            try:
                with contextlib.redirect_stdout(io.StringIO()):
                    x, y = make(dl)
                    ok = x.equals(y) is False and x.equals(x.copy()) is True
            except Exception:
                ok = False
            _reset(e)
            if not ok:
                continue
            # the decorated calls the method makes itself must not depend on the verdict (the protocol
            # line carries ONE nested verbosity): e.g. Field.equals returns before comparing the metadata
            # constructs when the field's own data differ — that placement is left to the minimal `eq` kinds.
            # Checked here for verbose=None, and per verbose value in `probe_req`.
            try:
                if _probe_paths(e, ("variant-probe", tn, where), x, y, "N", tn) is None:
                    continue
            except fw.HarnessError:
                continue
            fn = getattr(type(o), "equals", None)
            qn = next((k for k, f in e.funcs.items() if f is fn), None)
            variants[(tn, where)] = dict(cls=tn, where=where, make=make, qn=qn, cache={}, positional=_positional_ok(type(o)))
    return [variants[k] for k in sorted(variants)]


def _positional_ok(cls):
    """Does the `equals` of this class take (self, other, rtol, atol, …) in that order?  Read from the
    first function along the MRO whose signature is visible (the docstring-rewriting metaclass gives
    subclasses copies that show `(*args, **kwargs)`)."""
    for k in cls.__mro__:
        f = k.__dict__.get("equals")
        while f is not None and hasattr(f, "__wrapped__"):
            f = f.__wrapped__
        if f is None:
            continue
        try:
            names = list(inspect.signature(f).parameters)
        except (TypeError, ValueError):
            continue
        if "rtol" in names:
            return names[:4] == ["self", "other", "rtol", "atol"]
    return False


def _probe_paths(e, key0, x, y, vtok, what):
    """The nested verbosity left behind by x.equals(., verbose=vtok) on the path that finds the operands
    unequal and on the path that finds them equal; None if the two differ (then the single-`inner`
    protocol cannot describe the call and the generator avoids that verbose for this variant)."""
    x2 = x.copy()
    a = _probe(e, (key0, "unequal"), lambda v: x.equals(y, verbose=v), vtok, what)
    b = _probe(e, (key0, "equal"), lambda v: x.equals(x2, verbose=v), vtok, what)
    return a if a == b else None


def _behaviour_flags(e):
    """Which of the three known defect classes does the decorator under test show?  Used ONLY to steer
    the generator (so that cases ending in a known finding stay a small fraction); never for a verdict."""
    fl = dict(leak=False, nested=False, zero=False)
    try:
        _reset(e)
        try:
            e.syn_func(lambda: 1, verbose=7)
        except ValueError:
            pass
        e.syn_func(lambda: 1, verbose=3)
        fl["leak"] = _logging.getLogger().level != _logging.WARNING
        _reset(e)
        e.syn_func(lambda: e.syn_func(lambda: 1, verbose=3), verbose=None)
        fl["nested"] = _logging.getLogger().level != _logging.WARNING
        _reset(e)
        e.C.log_level("DISABLE")
        e.syn_func(lambda: 1, verbose=0)
        fl["zero"] = _logging.root.manager.disable == 0
    except Exception:
        pass
    _reset(e)
    return fl


def _reset(e):
    try:  # private nesting counter of the unpatched decorator: best effort, never compared
        d = e.deco.__defaults__
        if d and isinstance(d[0], list) and d[0] and isinstance(d[0][0], int):
            d[0][0] = 0
    except Exception:
        pass
    _logging.disable(_logging.NOTSET)
    _logging.getLogger().setLevel(_logging.WARNING)
    e.C.configuration(atol=TOLS[0], rtol=TOLS[0], log_level="WARNING")


_probe_cache = {}


def probe_inner(e, qn, idx, vtok):
    rs = e.recipes.get(qn) or []
    if not rs:
        return "N"
    return _probe(e, (qn, idx % len(rs)), rs[idx % len(rs)], vtok, qn)


def probe_req(e, vidx, vtok):
    """The same for the `equals` of reflected variant number `vidx` (operands at the calibration distance)."""
    var = e.eq_variants[vidx]
    x, y = _operands(e, vidx, DELTA_M0)
    return _probe_paths(e, ("req", vidx), x, y, vtok, f"{var['cls']}.equals[{var['where']}]")


def _operands(e, vidx, m):
    var = e.eq_variants[vidx]
    if m not in var["cache"]:
        if len(var["cache"]) > 64:
            var["cache"].clear()
        with contextlib.redirect_stdout(io.StringIO()):
            var["cache"][m] = var["make"](7 * 2.0 ** -m)
    return var["cache"][m]


def _probe(e, key0, recipe, vtok, what):
    """Which verbosity does this cfdm function hard-code for the decorated calls it makes itself
    (e.g. Constructs.equals compares candidate pairs with verbose=0)?  Measured through public
    observables only: the function is called inside a synthetic decorated call with verbose=None
    and the logging state is read right after it returns.  The answer goes into the protocol
    line; it has no influence on the prediction for the patched decorator (theorem
    C20_verbose_scoped: whatever the inner verbosity, nothing is left behind) and serves only to
    let the model of the *unpatched* decorator recognise the known defect exactly."""
    res = resolve_verbose(vtok)
    if res[0] == "invalid":
        return "N"
    # the function body sees the raw value (`if verbose == -1:` is false for "debug"): key on its kind too
    key = (key0, res, vtok if vtok[0] == "b" else vtok[0])
    if key in _probe_cache:
        return _probe_cache[key]
    v = verbose_value(vtok)
    seen = []
    for init in ("WARNING", "DEBUG"):
        _reset(e)
        e.C.log_level(init)

        def body():
            with contextlib.redirect_stdout(io.StringIO()):
                recipe(v)
            dis = _logging.root.manager.disable
            seen.append((str(_logging.getLogger().level) if dis == 0 else "-", str(dis)))

        try:
            e.syn_func(body, verbose=None)
        except Exception as ex:
            _reset(e)
            raise fw.HarnessError(f"probe: {what} raised {ex!r} when called normally")
    _reset(e)
    out = "N"
    if len(seen) == 2:
        restored = seen == [_canon("WARNING"), _canon("DEBUG")]
        as_outer = res[0] == "level" and seen == [_canon(res[1]), _canon(res[1])]
        if not restored and not as_outer:
            root, dis = seen[0]
            if dis != "0":
                out = "i0"
            else:
                lv = [n for n, k in NUM.items() if str(k) == root]
                out = "i" + str(VALUE[lv[0]]) if lv else "N"
    _probe_cache[key] = out
    return out


# ------------------------------------------------------------------ tokens
def tol_value(tok):
    if tok == "bad":
        return "x"
    return TOLS[int(tok[1:])]


def lvl_value(tok):
    return tok[1:] if tok[0] == "n" else int(tok[1:])


def verbose_value(tok):
    if tok == "N":
        return None
    if tok == "bT":
        return True
    if tok == "bF":
        return False
    if tok[0] == "i":
        return int(tok[1:])
    return tok[1:]


def resolve_verbose(tok):
    """Independent reading of the documented rule: returns ('invalid',), ('none',) or ('level', NAME)."""
    if tok == "N":
        return ("none",)
    if tok == "bT":
        return ("level", "DETAIL")
    if tok == "bF":
        return ("level", "DISABLE")
    if tok[0] == "i":
        k = int(tok[1:])
        return ("level", BYVALUE[k]) if k in BYVALUE else ("invalid",)
    up = tok[1:].upper()
    return ("level", up) if up in VALUE else ("invalid",)


def lvl_valid(tok):
    """None if invalid else the level name."""
    if tok[0] == "n":
        up = tok[1:].upper()
        return up if up in VALUE else None
    k = int(tok[1:])
    return BYVALUE.get(k)


def enc(prog, names=None):
    out = []
    for st in prog:
        k = st[0]
        if k == "set":
            out.append(f"set:{st[1]}:{st[2]}")
        elif k == "cfg":
            out.append(f"cfg:{st[1]}:{st[2]}:{st[3]}")
        elif k == "with":
            out.append(f"with:{st[1]}:{st[2]}{{{enc(st[3], names)}}}")
        elif k == "wcfg":
            out.append(f"wcfg:{st[1]}:{st[2]}:{st[3]}{{{enc(st[4], names)}}}")
        elif k == "call":
            out.append(f"call:{st[2]}{{{enc(st[3], names)}}}")
        elif k == "real":
            idx = names.index(st[1]) if names and st[1] in names else 0
            out.append(f"real:{idx}:{st[2]}:{st[3]}:{st[5]}")
        elif k == "try":
            out.append(f"try{{{enc(st[1], names)}}}")
        elif k == "raise":
            out.append(f"raise:{st[1]}")
        elif k == "eq":
            out.append(f"eq:{st[1]}:{st[2]}:{st[3]}:{st[4]}{st[5]}{st[6]}")
        elif k == "req":
            # ["req", variant, verbose, rtol, atol, m, spelling, k|p, inner]: the verdict, then the call
            qn = env().eq_variants[st[1]]["qn"]
            idx = names.index(qn) if names and qn in names else 0
            if resolve_verbose(st[2])[0] != "invalid":
                out.append(f"vd:{st[3]}:{st[4]}:{st[5]}:k{st[1]}s{st[6]}{st[7]}")
            out.append(f"real:{idx}:{st[2]}:o:{st[8]}")
        else:
            raise fw.HarnessError("unknown statement " + repr(st))
    return ";".join(out)


def walk(prog):
    for st in prog:
        yield st
        if st[0] in ("with", "call"):
            yield from walk(st[3])
        elif st[0] == "wcfg":
            yield from walk(st[4])
        elif st[0] == "try":
            yield from walk(st[1])


def depth_of(prog):
    d = 0
    for st in prog:
        body = st[3] if st[0] in ("with", "call") else st[4] if st[0] == "wcfg" else st[1] if st[0] == "try" else None
        if body is not None:
            d = max(d, 1 + depth_of(body))
    return d


# ------------------------------------------------------------------ generators
_NAME_FORMS = ["{u}", "{l}", "{c}", "{m}"]


def _name_form(rng, name):
    f = rng.choice(_NAME_FORMS)
    mixed = "".join(ch.upper() if rng.random() < 0.5 else ch.lower() for ch in name)
    return f.format(u=name, l=name.lower(), c=name.capitalize(), m=mixed)


def gen_verbose(rng):
    r = rng.random()
    if r < 0.22:
        return "N"
    if r < 0.50:
        return "i" + str(rng.choice([-1, 0, 1, 2, 3]))
    if r < 0.68:
        return "s" + _name_form(rng, rng.choice(LEVELS))
    if r < 0.80:
        return rng.choice(["bT", "bF"])
    if r < 0.92:
        return "i" + str(rng.choice([4, -2, 7, 10, 30, 99, -3]))
    return "s" + rng.choice(["loud", "warn", "verbose", "none", "Quiet", "debugg"])


def gen_tol(rng, allow_none=True):
    r = rng.random()
    if allow_none and r < 0.2:
        return "_"
    if r < 0.3:
        return "bad"
    return "t" + str(rng.randrange(len(TOLS)))


def gen_lvl(rng, allow_none=True):
    r = rng.random()
    if allow_none and r < 0.2:
        return "_"
    if r < 0.55:
        return "n" + _name_form(rng, rng.choice(LEVELS))
    if r < 0.85:
        return "i" + str(rng.choice([-1, 0, 1, 2, 3]))
    if r < 0.93:
        return "i" + str(rng.choice([4, -2, 15, 30]))
    return "n" + rng.choice(["loud", "warn", "critical", "notset"])


def gen_stmt(rng, depth, maxdepth, names):
    leaf = depth >= maxdepth
    kinds = ["set", "cfg", "raise", "eq", "real"]
    weights = [14, 5, 5, 5, 9]
    if not leaf:
        kinds += ["call", "with", "wcfg", "try"]
        weights += [30, 12, 6, 10]
    k = rng.choices(kinds, weights)[0]
    if k == "set":
        key = rng.choice("arl")
        return ["set", key, gen_lvl(rng) if key == "l" else gen_tol(rng)]
    if k == "cfg":
        return ["cfg", gen_tol(rng), gen_tol(rng), gen_lvl(rng)]
    if k == "raise":
        return ["raise", rng.choice("VTK")]
    if k == "eq":
        return gen_eq(rng, leaf)
    if k == "real":
        if not names:
            return ["call", "f", gen_verbose(rng), []]
        return ["real", rng.choice(names), gen_verbose(rng), "x" if rng.random() < 0.3 else "o", rng.randrange(8)]
    body = gen_body(rng, depth + 1, maxdepth, names)
    if k == "call":
        return ["call", rng.choice("fm"), gen_verbose(rng), body]
    if k == "with":
        key = rng.choice("arl")
        return ["with", key, gen_lvl(rng) if key == "l" else gen_tol(rng), body]
    if k == "wcfg":
        return ["wcfg", gen_tol(rng), gen_tol(rng), gen_lvl(rng), body]
    return ["try", body]


def gen_eq(rng, leaf, deep=None):
    """An equality test with tolerance arguments.  Half of the time placed inside a
    configuration block chosen so that global and passed tolerances disagree about the operands
    (global loose / passed tight — explicit zero included — and the other way round).
    Either a minimal Data / coordinate / Field (`eq`), or the `equals` of a cfdm class found by
    reflection with the difference placed in its data, bounds, a parameter or a metadata construct
    (`req`, with a verbose argument)."""
    kind = rng.choice("dcf")
    spell = rng.randrange(len(SPELLINGS))
    mode = "p" if rng.random() < 0.3 else "k"
    nvar = len(env().eq_variants)
    if deep is None:
        deep = rng.random() < 0.45
    vidx = rng.randrange(nvar) if (deep and nvar) else None

    def finish(st):
        st = st + [mode]
        if vidx is None:
            return st
        # ["req", variant, verbose, rtol, atol, m, spelling, mode, inner]
        v = "N" if rng.random() < 0.55 else gen_verbose(rng)
        return ["req", vidx, v, st[1], st[2], st[3], st[5], mode]
    tight = [ZERO, ZERO, 0, 1, 2]
    loose = [6, 7, 7]

    def passed(pool):
        return "_" if rng.random() < 0.25 else str(rng.choice(pool))

    r = rng.random()
    if leaf or r < 0.4:
        def t():
            return "_" if rng.random() < 0.35 else str(rng.choice(list(range(len(TOLS))) + [ZERO, ZERO]))
        return finish(["eq", t(), t(), rng.randint(2, 45), kind, spell])
    # operands differ by 7*2^-m with 2^-4 < |x-y| < 0.5: loose (2^-4.. 2^-1) vs tight (<= 2^-30)
    m = rng.randint(3, 6)
    if r < 0.7:
        glob, arg = loose, tight
    else:
        glob, arg = tight, loose
    ga, gr = rng.choice(glob), rng.choice(glob)
    st = ["eq", passed(arg), passed(arg), m, kind, spell]
    if st[1] == "_" and st[2] == "_":
        st[rng.choice([1, 2])] = str(rng.choice(arg))
    return ["wcfg", f"t{ga}", f"t{gr}", "_", [finish(st)]]


def gen_body(rng, depth, maxdepth, names):
    n = rng.choice([0, 1, 1, 2, 2, 3])
    return [gen_stmt(rng, depth, maxdepth, names) for _ in range(n)]


def gen_prog(rng, maxdepth, names):
    prog = []
    if rng.random() < 0.7:
        prog.append(["set", "l", "n" + rng.choice(LEVELS)])
        if rng.random() < 0.5:
            prog.append(["set", rng.choice("ar"), "t" + str(rng.randrange(len(TOLS)))])
    n = rng.randint(1, 5)
    for _ in range(n):
        st = gen_stmt(rng, 0, maxdepth, names)
        # an escaping exception ends the program: mostly keep going
        if rng.random() < 0.6 and st[0] != "try":
            st = ["try", [st]]
        prog.append(st)
    return prog


# ---- steering: keep the cases that end in a known finding a small (still present) fraction
def _prone(prog, flags):
    """Rough prediction (never used for a verdict): does this program run into one of the defect
    classes that the decorator under test was measured to have (`_behaviour_flags`)?"""
    state = dict(g="WARNING", invalid=False, hit=False)

    def calls(v, inner, depth, outer):
        r = resolve_verbose(v)
        if r[0] == "invalid":
            if flags["leak"]:
                state["invalid"] = True
            return None, False
        if state["invalid"] and r[0] == "level":
            state["hit"] = True
        lv = r[1] if r[0] == "level" else None
        if depth == 0:
            if lv == "DISABLE" and state["g"] in ("DISABLE", None) and flags["zero"]:
                state["hit"] = True
            top = lv
        else:
            top = outer
            if lv is not None and lv != outer and flags["nested"]:
                state["hit"] = True
        if inner not in (None, "N") and flags["nested"]:
            il = resolve_verbose(inner)
            if il[0] == "level" and il[1] != top:
                state["hit"] = True
        return top, True

    def go(stmts, depth, outer):
        for st in stmts:
            k = st[0]
            if k == "set" and st[1] == "l" and st[2] != "_":
                state["g"] = lvl_valid(st[2]) or state["g"]
            elif k == "cfg" and st[3] != "_":
                state["g"] = None
            elif k == "with":
                g0 = state["g"]
                if st[1] == "l" and st[2] != "_":
                    state["g"] = lvl_valid(st[2]) or g0
                go(st[3], depth, outer)
                if st[1] == "l":
                    state["g"] = g0
            elif k == "wcfg":
                g0 = state["g"]
                if st[3] != "_":
                    state["g"] = lvl_valid(st[3]) or g0
                go(st[4], depth, outer)
                state["g"] = g0
            elif k == "try":
                go(st[1], depth, outer)
            elif k == "call":
                top, ok = calls(st[2], None, depth, outer)
                if ok:
                    go(st[3], depth + 1, top)
            elif k == "real":
                calls(st[2], st[5] if len(st) > 5 else None, depth, outer)
            elif k == "req":
                calls(st[2], st[8] if len(st) > 8 else None, depth, outer)
            elif k == "eq" and state["invalid"]:
                pass

    go(prog, 0, None)
    return state["hit"]


V_TABLE = ["N", "i-1", "i0", "i1", "i2", "i3", "sDISABLE", "sdisable", "sDeBuG", "sWarning", "sinfo", "sDETAIL",
           "bT", "bF", "i7", "i-2", "sloud"]


def gen_table(rng, names):
    """One cell of the table (global level) x (outermost verbose) x (nested verbose), the nested call
    being a synthetic one, the one a real cfdm function makes itself, or a real cfdm function called
    inside a synthetic one."""
    e = env()
    g = rng.choice(LEVELS)
    vo, vi = rng.choice(V_TABLE), rng.choice(V_TABLE)
    shape = rng.choice("ABCDE")
    chain = e.chain_names
    if shape == "A" or not chain:
        body = [["call", rng.choice("fm"), vo, [["call", rng.choice("fm"), vi, []]]]]
    elif shape == "B":
        body = [["real", rng.choice(chain), vo, "o", rng.randrange(8)]]
    elif shape == "C":
        body = [["call", rng.choice("fm"), vo, [["real", rng.choice(chain), vi, "o", rng.randrange(8)]]]]
    elif shape == "D":
        body = [["call", rng.choice("fm"), vo, [["call", rng.choice("fm"), vi, [["raise", rng.choice("VTK")]]]]]]
    else:
        body = [["call", rng.choice("fm"), vo, [["try", [["call", rng.choice("fm"), vi, []]]],
                                                 ["call", rng.choice("fm"), rng.choice(V_TABLE), []]]]]
    return [["set", "l", "n" + _name_form(rng, g)], ["try", body]]


def gen_chain(rng, names):
    """Real nested cfdm call chains (Field.equals -> Constructs.equals -> construct.equals -> Data.equals,
    Domain.equals, read, write) with a verbose argument under every global level."""
    e = env()
    prog = [["set", "l", "n" + rng.choice(LEVELS)]]
    deep = [i for i, v in enumerate(e.eq_variants) if v["cls"] in ("Field", "Domain", "Constructs")]
    for _ in range(rng.randint(1, 3)):
        v = rng.choice(V_TABLE)
        if deep and rng.random() < 0.5:
            st = ["req", rng.choice(deep), v, rng.choice(["_", "8", "0", "6"]), rng.choice(["_", "8", "1", "7"]),
                  rng.randint(3, 30), rng.randrange(len(SPELLINGS)), rng.choice("kkp")]
        elif e.chain_names:
            st = ["real", rng.choice(e.chain_names), v, "o", rng.randrange(8)]
        else:
            st = ["call", "f", v, []]
        if rng.random() < 0.3:
            st = ["call", rng.choice("fm"), rng.choice(V_TABLE), [st]]
        prog.append(["try", [st]])
    return prog


def gen_eqx(rng, names):
    """Passed zero / tiny tolerances with loosened globals (and the converse) on every class with an
    `equals` found by reflection, keyword and positional."""
    prog = []
    if rng.random() < 0.5:
        prog.append(["set", "l", "n" + rng.choice(LEVELS)])
    for _ in range(rng.randint(1, 3)):
        st = gen_eq(rng, False, deep=rng.random() < 0.8)
        if rng.random() < 0.25:
            st = ["call", rng.choice("fm"), rng.choice(["N", "N", "i3", "i0"]), [st]]
        prog.append(["try", [st]])
    return prog


# ---- the object-level context-manager stream
def gen_cm(rng):
    evs = []
    nobj = 0
    blocks = []          # open block numbers
    nblocks = 0
    for _ in range(rng.randint(4, 14)):
        r = rng.random()
        if r < 0.25 or nobj == 0:
            if rng.random() < 0.3:
                evs.append(["mkcfg", gen_tol(rng), gen_tol(rng), gen_lvl(rng)])
                ok = all(t != "bad" for t in evs[-1][1:3]) and (evs[-1][3] == "_" or lvl_valid(evs[-1][3]) is not None)
            else:
                key = rng.choice("arl")
                evs.append(["mk", key, gen_lvl(rng) if key == "l" else gen_tol(rng)])
                tok = evs[-1][2]
                ok = tok == "_" or (lvl_valid(tok) is not None if key == "l" else tok != "bad")
            if ok:
                nobj += 1
        elif r < 0.29:
            evs.append(["bare"])
        elif r < 0.55:
            evs.append(["enter", rng.randrange(nobj), rng.choice("ooocd")])      # the same object may be entered again
            blocks.append(nblocks)
            nblocks += 1
        elif r < 0.85 and blocks:
            j = blocks.pop(rng.randrange(len(blocks)))       # any open block: not a stack
            evs.append(["exit", j, rng.choice("ntc")])
        else:
            key = rng.choice("arl")
            evs.append(["set", key, gen_lvl(rng) if key == "l" else gen_tol(rng)])
    rng.shuffle(blocks)
    for j in blocks:
        if rng.random() < 0.8:
            evs.append(["exit", j, rng.choice("ntc")])
    return evs


# ---- the private helpers
FN_NAMES_OK = ["DISABLE", "WARNING", "INFO", "DETAIL", "DEBUG"]


def gen_fn(rng):
    f = rng.choice(["dl", "valid", "reset", "reset", "parse"])
    if f == "dl":
        arg = rng.choice(["_", "e", "NOTSET", "CRITICAL", "WARNING", "INFO", "DETAIL", "DEBUG", "nonsense"])
    elif f == "valid":
        arg = str(rng.choice([-1, 0, 1, 2, 3, 4, -2, 7, 30]))
    elif f == "reset":
        form = rng.choice("cis")
        if form == "i":
            arg = "i:" + str(rng.choice([-1, 0, 1, 2, 3, 3, 4, -2, 15]))
        else:
            arg = form + ":" + rng.choice(FN_NAMES_OK + (["NOTSET", "CRITICAL", "nonsense"] if form == "s" else []))
    else:
        arg = gen_lvl(rng, allow_none=False)
    return dict(f=f, arg=arg, lvl=rng.choice(LEVELS), root=rng.choice([0, 10, 15, 20, 30, 50]),
                dis=rng.choice([0, 0, 50, 15, 30]))


def gen(rng, tier, n):
    e = env()
    names = e.names
    maxdepth = 3 if tier == "quick" else 6
    fams = ["prog", "table", "chain", "eqx", "cm", "fn"]
    weights = [50, 10, 8, 12, 14, 6]
    for _ in range(n):
        fam = rng.choices(fams, weights)[0]
        if fam == "cm":
            yield mk(dict(cm=gen_cm(rng)))
            continue
        if fam == "fn":
            yield mk(dict(fn=gen_fn(rng)))
            continue
        for attempt in range(6):
            if fam == "prog":
                prog = gen_prog(rng, rng.randint(1, maxdepth), names)
            elif fam == "table":
                prog = gen_table(rng, names)
            elif fam == "chain":
                prog = gen_chain(rng, names)
            else:
                prog = gen_eqx(rng, names)
            case = mk(dict(prog=prog, family=fam))
            # a program predicted to end in a known finding is kept about one time in eight
            if not _prone(case.payload["prog"], e.flags) or rng.random() < 0.12:
                break
        yield case


def mk(p):
    p = dict(p)
    if "cm" in p:
        return mk_cm(p)
    if "fn" in p:
        return mk_fn(p)
    prog = p["prog"]
    names = env().names
    for st in walk(prog):
        if st[0] == "eq":
            # [eq, rtol, atol, m, kind (d Data / c coordinate / f Field), spelling of the numbers, k|p]
            if len(st) < 5:
                st.append("d")
            if len(st) < 6:
                st.append(1)
            if len(st) < 7:
                st.append("k")
        if st[0] == "req":
            if isinstance(st[1], str):
                # "Class|where" (corpus entries): robust against a changed order of discovery
                cls_, _, where_ = st[1].partition("|")
                st[1] = next((i for i, v in enumerate(env().eq_variants) if v["cls"] == cls_ and v["where"] == where_), 0)
            if st[1] >= len(env().eq_variants):
                raise fw.HarnessError(f"no reflected equals variant number {st[1]}")
            if st[7] == "p" and not env().eq_variants[st[1]]["positional"]:
                st[7] = "k"
            if len(st) < 9:
                inner = probe_req(env(), st[1], st[2])
                if inner is None:
                    # which decorated calls this `equals` makes with this verbose depends on the verdict:
                    # such chains are driven through the `real` recipes; here fall back to verbose=None
                    st[2] = "N"
                    inner = probe_req(env(), st[1], "N")
                st.append(inner)
        if st[0] == "real":
            # a function for which no normal call was found can only be called so that it raises
            if st[3] == "o" and not env().recipes.get(st[1]):
                st[3] = "x"
            while len(st) < 5:
                st.append(0)
            if len(st) < 6:
                st.append(probe_inner(env(), st[1], st[4], st[2]) if st[3] == "o" else "N")
    text = enc(prog, names)
    line = "C20.prog p=" + text
    tags = set()
    nontrivial = False
    for st in walk(prog):
        if st[0] in ("call", "real"):
            r = resolve_verbose(st[2])
            tok = st[2]
            kind = "none" if tok == "N" else "invalid" if r[0] == "invalid" else {"i": "int", "s": "name", "b": "bool"}[tok[0]]
            tags.add("v:" + kind)
            tags.add("call:" + ("real" if st[0] == "real" else "synthetic"))
            if st[0] == "real":
                tags.add("real:" + st[1].rsplit(".", 1)[-1])
                if st[3] == "x":
                    tags.add("real:raising")
            if tok != "N":
                nontrivial = True
        elif st[0] in ("with", "wcfg", "raise"):
            nontrivial = True
            tags.add(st[0])
        elif st[0] == "eq":
            tags.add("eq")
            tags.add("eq:" + {"d": "Data", "c": "coordinate", "f": "Field"}[st[4]])
            if str(ZERO) in (st[1], st[2]):
                tags.add("eq:explicit-zero")
            if st[1] != "_" or st[2] != "_":
                tags.add("eq:passed-" + SPELLINGS[st[5] % len(SPELLINGS)])
                tags.add("eq:positional" if st[6] == "p" else "eq:keyword")
        elif st[0] == "req":
            var = env().eq_variants[st[1]]
            nontrivial = True
            tags.add("req")
            tags.add("req:" + var["cls"])
            tags.add("req:in-" + var["where"].split(":")[0])
            r = resolve_verbose(st[2])
            tags.add("v:" + ("none" if st[2] == "N" else "invalid" if r[0] == "invalid" else {"i": "int", "s": "name", "b": "bool"}[st[2][0]]))
            tags.add("call:real")
            if st[8] != "N":
                tags.add("req:makes-nested-call-" + st[8])
            if str(ZERO) in (st[3], st[4]):
                tags.add("eq:explicit-zero")
            if st[3] != "_" or st[4] != "_":
                tags.add("eq:passed-" + SPELLINGS[st[6] % len(SPELLINGS)])
                tags.add("eq:positional" if st[7] == "p" else "eq:keyword")
        else:
            tags.add(st[0])
    tags.add(f"depth:{depth_of(prog)}")
    if p.get("family"):
        tags.add("family:" + p["family"])
    return Case("C20.prog", p, line, key=text, nontrivial=nontrivial, tags=sorted(tags))


def enc_cm(evs):
    out = []
    for ev in evs:
        if ev[0] in ("mk", "set"):
            out.append(f"{ev[0]}:{ev[1]}:{ev[2]}")
        elif ev[0] == "mkcfg":
            out.append(f"mkcfg:{ev[1]}:{ev[2]}:{ev[3]}")
        elif ev[0] == "enter":
            out.append(f"enter:{ev[1]}")       # entered on the object itself, a copy() or a deepcopy: harness's business
        elif ev[0] == "bare":
            out.append("bare")
        elif ev[0] == "exit":
            out.append(f"exit:{ev[1]}")        # how the block is left is the harness's business
        else:
            raise fw.HarnessError("unknown event " + repr(ev))
    return ";".join(out)


def mk_cm(p):
    evs = p["cm"]
    text = enc_cm(evs)
    tags = {"cm:" + ev[0] for ev in evs}
    order = [ev[1] for ev in evs if ev[0] == "exit"]
    entered = [ev[1] for ev in evs if ev[0] == "enter"]
    if len(set(entered)) < len(entered):
        tags.add("cm:same-object-entered-twice")
    if any(ev[0] == "enter" and len(ev) > 2 and ev[2] != "o" for ev in evs):
        tags.add("cm:entered-on-a-copy")
    # not a stack: some block is left while a later-entered one is still open
    open_, lifo = [], True
    nb = 0
    for ev in evs:
        if ev[0] == "enter":
            open_.append(nb)
            nb += 1
        elif ev[0] == "exit" and ev[1] in open_:
            if open_[-1] != ev[1]:
                lifo = False
            open_.remove(ev[1])
            tags.add("cm:left-by-" + {"n": "resuming", "t": "throw", "c": "close"}[ev[2]])
    tags.add("cm:nested" if lifo else "cm:interleaved")
    if open_:
        tags.add("cm:block-left-open")
    return Case("C20.cm", p, "C20.cm ev=" + text, key="cm|" + text + "|" + "".join(ev[2] for ev in evs if ev[0] == "exit"),
                nontrivial=bool(order), tags=sorted(tags))


def mk_fn(p):
    f = p["fn"]
    line = f"C20.fn f={f['f']} arg={f['arg']} lvl={f['lvl']} root={f['root']} dis={f['dis']}"
    return Case("C20.fn", p, line, key=line, nontrivial=True, tags=["fn:" + f["f"]])


def from_payload(stream, payload):
    return mk(payload)


def _is_prog(c):
    return "prog" in c.payload


# ------------------------------------------------------------------ implementation
def _show(v):
    if isinstance(v, str):
        return v
    try:
        return str(TOL_INDEX[float(v)])
    except Exception:
        return "?" + repr(v)


_EXC = {"V": ValueError, "T": TypeError, "K": KeyError}


def _operand(C, kind, value):
    """Data, a coordinate construct or a field construct holding the single number `value`."""
    d = C.Data([value])
    if kind == "d":
        return d
    if kind == "c":
        return C.DimensionCoordinate(data=d)
    f = C.Field()
    ax = f.set_construct(C.DomainAxis(1))
    f.set_data(d, axes=[ax])
    return f


def _spelled(C, value, spell):
    """The same number as a Python int/float, a numpy scalar or a cfdm.Constant."""
    import numpy as np

    if spell == 0:
        return int(value) if value == int(value) else value      # 0 -> the int 0
    if spell == 1:
        return float(value)
    if spell == 2:
        return np.float64(value)
    if spell == 3:
        return C.Constant(value)
    if spell == 4:
        return np.int64(0) if value == 0 else np.float32(value)      # powers of two: exact in float32
    return np.array(value)                                           # a 0-d array: float() works, bool() is False for 0


SPELLINGS = ["int-or-float", "float", "numpy-float64", "Constant", "numpy-int64-or-float32", "numpy-0d-array"]


def _tol_call_args(C, st_r, st_a, spell, mode):
    """(positional tuple, keyword dict) for the tolerance arguments of an `equals` call."""
    r = None if st_r == "_" else _spelled(C, TOLS[int(st_r)], spell % len(SPELLINGS))
    a = None if st_a == "_" else _spelled(C, TOLS[int(st_a)], (spell + 1) % len(SPELLINGS))
    if mode == "p":
        if a is not None:
            return (r, a), {}          # an omitted rtol is passed as an explicit None
        return ((r,), {}) if r is not None else ((), {})
    kw = {}
    if r is not None:
        kw["rtol"] = r
    if a is not None:
        kw["atol"] = a
    return (), kw


def _observe(C, tag):
    a = C.atol().value
    r = C.rtol().value
    lv = C.log_level().value
    cfg = dict(C.configuration())
    dis = _logging.root.manager.disable
    root = _logging.getLogger().level
    s = f"{tag}|a={_show(a)},r={_show(r)},l={lv},root={root if dis == 0 else '-'},dis={dis}"
    if cfg != {"atol": a, "rtol": r, "log_level": lv}:
        s += ",cfg!=getters"
    return s


def impl(c):
    if "cm" in c.payload:
        return impl_cm(c)
    if "fn" in c.payload:
        return impl_fn(c)
    e = env()
    C = e.C
    events = []

    def obs(tag):
        events.append(_observe(C, tag))

    def setter(key):
        return {"a": C.atol, "r": C.rtol, "l": C.log_level}[key]

    def arg_of(key, tok):
        return lvl_value(tok) if key == "l" else tol_value(tok)

    def cfg_kwargs(a, r, lv):
        kw = {}
        if a != "_":
            kw["atol"] = tol_value(a)
        if r != "_":
            kw["rtol"] = tol_value(r)
        if lv != "_":
            kw["log_level"] = lvl_value(lv)
        return kw

    def show_cfg(d):
        return f"{_show(d['atol'])}/{_show(d['rtol'])}/{d['log_level']}"

    def run_seq(stmts):
        for st in stmts:
            run_stmt(st)

    def run_stmt(st):
        k = st[0]
        if k == "set":
            f = setter(st[1])
            try:
                old = f() if st[2] == "_" else f(arg_of(st[1], st[2]))
            except Exception as ex:
                obs("set!" + fw.exc_enum(ex))
                raise
            obs("set=" + _show(old.value))
        elif k == "cfg":
            try:
                old = C.configuration(**cfg_kwargs(st[1], st[2], st[3]))
            except Exception as ex:
                obs("cfg!" + fw.exc_enum(ex))
                raise
            obs("cfg=" + show_cfg(old))
        elif k in ("with", "wcfg"):
            try:
                if k == "with":
                    f = setter(st[1])
                    cm = f() if st[2] == "_" else f(arg_of(st[1], st[2]))
                    body = st[3]
                else:
                    cm = C.configuration(**cfg_kwargs(st[1], st[2], st[3]))
                    body = st[4]
            except Exception as ex:
                obs("with!" + fw.exc_enum(ex))
                raise
            try:
                with cm as got:
                    obs("enter=" + (_show(got.value) if k == "with" else show_cfg(got)))
                    run_seq(body)
            except Exception as ex:
                obs("exit=raised:" + fw.exc_enum(ex))
                raise
            obs("exit=ok")
        elif k == "call":
            entered = []

            def body_fn():
                entered.append(1)
                obs("in")
                run_seq(st[3])
                return 1

            v = verbose_value(st[2])
            try:
                if st[1] == "m":
                    e.syn_obj.method(body_fn, verbose=v)
                else:
                    e.syn_func(body_fn, verbose=v)
            except Exception as ex:
                obs(("ret=raised:" if entered else "call!") + fw.exc_enum(ex))
                raise
            obs("ret=ok")
        elif k == "real":
            fn = e.funcs.get(st[1])
            if fn is None:
                raise fw.HarnessError("decorated function not found: " + st[1])
            v = verbose_value(st[2])
            rs = e.recipes.get(st[1]) or []
            try:
                with contextlib.redirect_stdout(io.StringIO()):
                    if st[3] == "x" or not rs:
                        fn(verbose=v)  # no `self`: TypeError raised by the call inside the wrapper
                    else:
                        rs[st[4] % len(rs)](v)
            except Exception as ex:
                obs("real=raised:" + fw.exc_enum(ex))
                raise
            obs("real=ok")
        elif k == "try":
            try:
                run_seq(st[1])
            except fw.HarnessError:
                raise
            except Exception as ex:
                obs("try=raised:" + fw.exc_enum(ex))
            else:
                obs("try=ok")
        elif k == "raise":
            raise _EXC[st[1]]("boom")
        elif k == "eq":
            m, kind, spell = st[3], st[4], st[5]
            key = (kind, m)
            if key not in e.eq_cache:
                e.eq_cache[key] = (_operand(C, kind, 2.0 + 7 * 2.0 ** -m), _operand(C, kind, 2.0))
            x, y = e.eq_cache[key]
            pos, kw = _tol_call_args(C, st[1], st[2], spell, st[6])
            res = x.equals(y, *pos, **kw)
            obs("eq=" + ("T" if res else "F"))
        elif k == "req":
            x, y = _operands(e, st[1], st[5])
            pos, kw = _tol_call_args(C, st[3], st[4], st[6], st[7])
            if st[2] != "N" or st[7] == "k":
                kw["verbose"] = verbose_value(st[2])
            before = _observe(C, "")
            try:
                with contextlib.redirect_stdout(io.StringIO()):
                    res = x.equals(y, *pos, **kw)
            except Exception as ex:
                obs("real=raised:" + fw.exc_enum(ex))
                raise
            events.append("eq=" + ("T" if res else "F") + before)     # the verdict, with the state found before the call
            obs("real=ok")
        else:
            raise fw.HarnessError("unknown statement " + repr(st))

    _reset(e)
    try:
        try:
            run_seq(c.payload["prog"])
        except fw.HarnessError:
            raise
        except Exception as ex:
            obs("end=raised:" + fw.exc_enum(ex))
        else:
            obs("end=ok")
    finally:
        out = ";".join(events)
        _reset(e)
    return out


def impl_cm(c):
    """Objects returned by the setters / configuration() used as context managers; every block lives
    in a generator suspended at the `yield` inside its `with` statement, so blocks can be left in any order."""
    e = env()
    C = e.C
    events = []
    objs, blocks = [], []

    def block(o):
        with o:
            yield

    def setter(key):
        return {"a": C.atol, "r": C.rtol, "l": C.log_level}[key]

    _reset(e)
    try:
        for ev in c.payload["cm"]:
            k = ev[0]
            if k in ("mk", "set"):
                f = setter(ev[1])
                try:
                    old = f() if ev[2] == "_" else f(lvl_value(ev[2]) if ev[1] == "l" else tol_value(ev[2]))
                except ValueError:
                    events.append(_observe(C, k + "!ValueError"))
                    continue
                if k == "mk":
                    objs.append(old)
                events.append(_observe(C, k + "=" + _show(old.value)))
            elif k == "mkcfg":
                kw = {}
                if ev[1] != "_":
                    kw["atol"] = tol_value(ev[1])
                if ev[2] != "_":
                    kw["rtol"] = tol_value(ev[2])
                if ev[3] != "_":
                    kw["log_level"] = lvl_value(ev[3])
                try:
                    old = C.configuration(**kw)
                except ValueError:
                    events.append(_observe(C, "mkcfg!ValueError"))
                    continue
                objs.append(old)
                events.append(_observe(C, f"mkcfg={_show(old['atol'])}/{_show(old['rtol'])}/{old['log_level']}"))
            elif k == "enter":
                if ev[1] < len(objs):
                    o = objs[ev[1]]
                    how = ev[2] if len(ev) > 2 else "o"
                    if how != "o" and isinstance(o, C.Constant):
                        # a copy of a Constant carries the same value and setter
                        # (copies of a Configuration are not generated: Configuration.copy() recurses for ever)
                        o = o.copy() if how == "c" else copy.deepcopy(o)
                    g = block(o)
                    next(g)
                    blocks.append(g)
                events.append(_observe(C, "enter"))
            elif k == "bare":
                try:
                    with C.Constant(TOLS[3]):
                        events.append(_observe(C, "bare-entered"))
                except AttributeError:
                    events.append(_observe(C, "bare!AttributeError"))
            elif k == "exit":
                if ev[1] < len(blocks) and blocks[ev[1]] is not None:
                    g = blocks[ev[1]]
                    blocks[ev[1]] = None
                    if ev[2] == "n":
                        try:
                            next(g)
                        except StopIteration:
                            pass
                    elif ev[2] == "t":
                        try:
                            g.throw(KeyError("thrown into the block"))
                        except KeyError:
                            pass
                    else:
                        g.close()
                elif ev[1] < len(blocks):
                    raise fw.HarnessError("a block is left twice")
                events.append(_observe(C, "exit"))
            else:
                raise fw.HarnessError("unknown event " + repr(ev))
    finally:
        for g in blocks:
            if g is not None:
                try:
                    g.close()
                except Exception:
                    pass
        out = ";".join(events)
        _reset(e)
    return out


def impl_fn(c):
    """The private helpers of cfdm/functions.py, called directly from a prepared logging state."""
    e = env()
    C = e.C
    f = c.payload["fn"]
    F = C.functions
    _reset(e)
    try:
        helper = {"dl": getattr(F, "_disable_logging", None), "valid": getattr(F, "_is_valid_log_level_int", None),
                  "reset": getattr(F, "_reset_log_emergence_level", None),
                  "parse": getattr(C.log_level, "_parse", None)}[f["f"]]
        if helper is None:
            return "absent"
        C.log_level(f["lvl"])
        _logging.getLogger().setLevel(f["root"])
        _logging.disable(f["dis"])
        arg = f["arg"]
        ret = ""
        try:
            if f["f"] == "dl":
                helper() if arg == "_" else helper(at_level="" if arg == "e" else arg)
                ret = "ok"
            elif f["f"] == "valid":
                ret = "T" if helper(int(arg)) else "F"
            elif f["f"] == "reset":
                form, _, val = arg.partition(":")
                helper(C.Constant(val) if form == "c" else int(val) if form == "i" else val)
                ret = "ok"
            else:
                ret = "ret=" + str(helper(C.log_level, lvl_value(arg))) + ";ok"
        except Exception as ex:
            ret = "raised:" + fw.exc_enum(ex)
        return f"{ret}|l={C.log_level().value},root={_logging.getLogger().level},dis={_logging.root.manager.disable}"
    finally:
        _reset(e)


def _model_part(c, i):
    if c.model_out is None:
        return None
    parts = c.model_out.split("#")
    return parts[i] if len(parts) > i else None


def model_new(c):
    return _model_part(c, 0)


def model_mid(c):
    return _model_part(c, 1)


def model_old(c):
    return _model_part(c, 2)


def agree(c):
    if c.stream == "C20.fn" and c.impl_out == "absent":
        return True          # the helper no longer exists: nothing to compare (the public behaviour is C20.prog's business)
    return c.impl_out == model_new(c)


# ------------------------------------------------------------------ oracle (clauses of the property)
def _parse_event(s):
    tag, _, rest = s.partition("|")
    o = {}
    for kv in rest.split(","):
        k, _, v = kv.partition("=")
        o[k] = v
    return tag, o


def _canon(level):
    return ("-", str(CRITICAL)) if level == "DISABLE" else (str(NUM[level]), "0")


def _filter(o):
    return (o["root"], o["dis"])


def _consistent(o):
    return _filter(o) == _canon(o["l"])


class _Fail(Exception):
    pass


class Walker:
    """Walks program and event list in lockstep and checks every clause of the property.
    On failure `info` describes where (used by classify)."""

    def __init__(self, events):
        self.ev = [_parse_event(x) for x in events]
        self.i = 0
        self.depth = 0            # enclosing synthetic decorated calls with a valid verbose or None
        self.invalid_seen = False  # an invalid verbose has been passed earlier in this program
        self.info = None
        self.where = "trace"      # which clause of the property is being checked

    def fail(self, msg, **info):
        info.setdefault("clause", self.where)
        self.info = dict(info, event=self.i - 1)
        raise _Fail(f"event {self.i - 1}: {msg}")

    def next(self):
        if self.i >= len(self.ev):
            self.i += 1
            self.fail("trace ends early")
        t = self.ev[self.i]
        self.i += 1
        if "cfg!" in t[1]:
            self.fail("configuration() disagrees with the getters")
        return t

    def same(self, o, cur, what, keys=("a", "r", "l", "root", "dis"), **info):
        for k in keys:
            if o[k] != cur[k]:
                self.fail(f"{what}: {k}={o[k]} but {cur[k]} expected", **info)

    def seq(self, stmts, cur):
        for st in stmts:
            out, cur = self.stmt(st, cur)
            if out != "ok":
                return out, cur
        return "ok", cur

    def stmt(self, st, cur):
        k = st[0]
        self.where = {"set": "setter", "cfg": "configuration", "with": "with-block", "wcfg": "configuration-with-block",
                      "call": "decorated-call", "real": "decorated-call", "try": "try", "raise": "raise",
                      "eq": "equals-tolerances", "req": "equals-tolerances"}.get(k, "trace")
        if k == "set":
            return self.do_set(st[1], st[2], cur, "set")
        if k == "cfg":
            return self.do_cfg(st[1], st[2], st[3], cur, "cfg")
        if k == "with":
            out, c1 = self.do_set(st[1], st[2], cur, "with")
            if out != "ok":
                return out, c1
            out, c2 = self.seq(st[3], c1)
            self.where = "with-block"
            tag, o = self.next()
            if tag != "exit=" + out:
                self.fail(f"with-block: outcome {tag} but the body gave {out}")
            key = st[1]
            want = dict(c2)
            want[key] = cur[key]
            self.same(o, want, "after the with-block the setting must be the one before it, the others as the body left them", keys=("a", "r", "l"))
            if key == "l":
                if _consistent(cur):
                    self.same(o, cur, "after a log_level with-block the logging state must be as before", keys=("root", "dis"))
            else:
                self.same(o, c2, "a tolerance with-block must not touch the logging state", keys=("root", "dis"))
            return out, o
        if k == "wcfg":
            out, c1 = self.do_cfg(st[1], st[2], st[3], cur, "with")
            if out != "ok":
                return out, c1
            out, c2 = self.seq(st[4], c1)
            self.where = "configuration-with-block"
            tag, o = self.next()
            if tag != "exit=" + out:
                self.fail(f"configuration with-block: outcome {tag} but the body gave {out}")
            self.same(o, cur, "after a configuration with-block all settings must be as before", keys=("a", "r", "l"))
            if _consistent(cur):
                self.same(o, cur, "after a configuration with-block the logging state must be as before", keys=("root", "dis"))
            return out, o
        if k in ("call", "real"):
            return self.do_call(st, cur)
        if k == "req":
            return self.do_req(st, cur)
        if k == "try":
            out, c2 = self.seq(st[1], cur)
            self.where = "try"
            tag, o = self.next()
            if tag != "try=" + out:
                self.fail(f"try: {tag} but the body gave {out}")
            self.same(o, c2, "a try block changes nothing itself")
            return "ok", o
        if k == "raise":
            return "raised:" + {"V": "ValueError", "T": "TypeError", "K": "KeyError"}[st[1]], cur
        if k == "eq":
            tag, o = self.next()
            rt = TOLS[int(st[1])] if st[1] != "_" else TOLS[int(cur["r"])]
            at = TOLS[int(st[2])] if st[2] != "_" else TOLS[int(cur["a"])]
            want = abs((2.0 + 7 * 2.0 ** -st[3]) - 2.0) <= at + rt * 2.0
            if tag != "eq=" + ("T" if want else "F"):
                self.fail(f"equals({'Data' if st[4] == 'd' else 'coordinate' if st[4] == 'c' else 'Field'}, "
                          f"rtol={'global ' if st[1] == '_' else ''}{rt}, atol={'global ' if st[2] == '_' else ''}{at}) on operands "
                          f"differing by {7 * 2.0 ** -st[3]}: verdict {tag}, expected {want} (|a-b| <= atol + rtol*|b| with the "
                          f"passed values where given; globals in force: rtol={TOLS[int(cur['r'])]}, atol={TOLS[int(cur['a'])]})")
            self.same(o, cur, "an equality test must not change any setting")
            return "ok", o
        raise fw.HarnessError("unknown statement " + repr(st))

    def do_req(self, st, cur):
        """`equals` of a reflected class: verdict by the passed tolerances where given (whatever their
        value), by the global ones otherwise; afterwards everything as before the call."""
        var = env().eq_variants[st[1]]
        what = f"{var['cls']}.equals (difference in {var['where']})"
        tok = st[2]
        res = resolve_verbose(tok)
        info = dict(node="real", verbose=tok, depth=self.depth, invalid_seen=self.invalid_seen,
                    level=cur["l"], nested=st[8] != "N")
        if res[0] == "invalid":
            self.invalid_seen = True
            self.where = "decorated-call"
            tag, o = self.next()
            if tag != "real=raised:ValueError":
                self.fail(f"invalid verbose {tok} gave {tag}, ValueError expected")
            self.same(o, cur, "a call with an invalid verbose must change nothing", clause="decorated-call-invalid-verbose", **info)
            return "raised:ValueError", o
        tag, o = self.next()
        rt = TOLS[int(st[3])] if st[3] != "_" else TOLS[int(cur["r"])]
        at = TOLS[int(st[4])] if st[4] != "_" else TOLS[int(cur["a"])]
        want = abs((2.0 + 7 * 2.0 ** -st[5]) - 2.0) <= at + rt * 2.0
        if tag != "eq=" + ("T" if want else "F"):
            self.fail(f"{what}(rtol={'global ' if st[3] == '_' else ''}{rt}, atol={'global ' if st[4] == '_' else ''}{at}, "
                      f"{'positional' if st[7] == 'p' else 'keyword'}) on operands differing by {7 * 2.0 ** -st[5]}: verdict {tag}, "
                      f"expected {want} (|a-b| <= atol + rtol*|b| with the passed values where given; globals in force: "
                      f"rtol={TOLS[int(cur['r'])]}, atol={TOLS[int(cur['a'])]})")
        self.same(o, cur, "state observed before the call")
        self.where = "decorated-call"
        tag, o2 = self.next()
        if tag != "real=ok":
            self.fail(f"{what}: {tag}, expected to return")
        self.same(o2, cur, f"after {what}(verbose={tok}) everything must be as before the call", clause="decorated-call-exit", **info)
        return "ok", o2

    def do_set(self, key, tok, cur, what):
        tag, o = self.next()
        if key == "l":
            new = cur["l"] if tok == "_" else lvl_valid(tok)
        else:
            new = cur[key] if tok == "_" else (None if tok == "bad" else tok[1:])
        if new is None:
            if tag != what + "!ValueError":
                self.fail(f"{what}: invalid argument {tok} gave {tag}")
            self.same(o, cur, "a setter that raises must change nothing")
            return "raised:ValueError", o
        head = "set=" if what == "set" else "enter="
        if tag != head + cur[key]:
            self.fail(f"{what}: returned {tag} but the previous value was {cur[key]}")
        want = dict(cur)
        want[key] = new
        if key == "l" and tok != "_":
            want["root"], want["dis"] = _canon(new)
        self.same(o, want, "state after the setter")
        return "ok", o

    def do_cfg(self, a, r, lv, cur, what):
        tag, o = self.next()
        want = dict(cur)
        ok = True
        if a != "_":
            ok = ok and a != "bad"
            want["a"] = a[1:]
        if r != "_":
            ok = ok and r != "bad"
            want["r"] = r[1:]
        if lv != "_":
            n = lvl_valid(lv)
            ok = ok and n is not None
            if n is not None:
                want["l"] = n
                want["root"], want["dis"] = _canon(n)
        if not ok:
            if tag != what + "!ValueError":
                self.fail(f"configuration: invalid argument gave {tag}")
            self.same(o, cur, "a configuration() call that raises must leave everything as it was")
            return "raised:ValueError", o
        head = "cfg=" if what == "cfg" else "enter="
        if tag != f"{head}{cur['a']}/{cur['r']}/{cur['l']}":
            self.fail(f"configuration: returned {tag}, previous values were {cur['a']}/{cur['r']}/{cur['l']}")
        self.same(o, want, "state after configuration()")
        return "ok", o

    def do_call(self, st, cur):
        real = st[0] == "real"
        tok = st[2]
        res = resolve_verbose(tok)
        info = dict(node=st[0], verbose=tok, depth=self.depth, invalid_seen=self.invalid_seen,
                    level=cur["l"], nested=_has_nested_verbose(st))   # level/invalid_seen: updated at the exit
        if res[0] == "invalid":
            self.invalid_seen = True
            tag, o = self.next()
            if tag != ("real=raised:ValueError" if real else "call!ValueError"):
                self.fail(f"invalid verbose {tok} gave {tag}, ValueError expected")
            self.same(o, cur, "a call with an invalid verbose must change nothing", clause="decorated-call-invalid-verbose", **info)
            return "raised:ValueError", o
        if real:
            tag, o = self.next()
            want_out = "raised:TypeError" if (st[3] == "x") else "ok"
            if tag != "real=" + want_out:
                self.fail(f"{st[1]}: {tag}, expected {want_out}")
            self.same(o, cur, f"after {st[1]}(verbose={tok}) everything must be as before the call", clause="decorated-call-exit", **info)
            return want_out, o
        tag, o = self.next()
        if tag != "in":
            self.fail(f"decorated body not entered: {tag}")
        self.same(o, cur, "entering a decorated call must not change the settings", keys=("a", "r", "l"))
        if res[0] == "none":
            self.same(o, cur, "verbose=None must not change the logging state", keys=("root", "dis"), clause="decorated-call-enter", **info)
        else:
            w = dict(o)
            w["root"], w["dis"] = _canon(res[1])
            self.same(o, w, f"inside a call with verbose={tok} the logging state must be that of {res[1]}", keys=("root", "dis"), clause="decorated-call-enter", **info)
        self.depth += 1
        out, c2 = self.seq(st[3], o)
        self.depth -= 1
        self.where = "decorated-call"
        tag, o2 = self.next()
        info["invalid_seen"] = self.invalid_seen
        info["level"] = c2["l"]
        if tag != "ret=" + out:
            self.fail(f"decorated call: {tag} but the body gave {out}")
        self.same(o2, c2, "the decorator must not touch the settings", keys=("a", "r", "l"))
        if res[0] == "none":
            self.same(o2, c2, "verbose=None: the logging state after the call is the one the body left", keys=("root", "dis"), clause="decorated-call-exit", **info)
        elif c2["l"] == cur["l"]:
            self.same(o2, cur, f"after a call with verbose={tok} the logging state must be exactly as before the call", keys=("root", "dis"), clause="decorated-call-exit", **info)
        else:
            w = dict(o2)
            w["root"], w["dis"] = _canon(c2["l"])
            self.same(o2, w, "the body changed the global level: the logging state must follow it", keys=("root", "dis"), clause="decorated-call-exit", **info)
        return out, o2


def _has_nested_verbose(st):
    if st[0] == "real":
        return len(st) > 5 and st[5] != "N"
    if st[0] == "req":
        return len(st) > 8 and st[8] != "N"
    if st[0] != "call":
        return False
    for s in walk(st[3]):
        if s[0] in ("call", "real", "req") and resolve_verbose(s[2])[0] == "level":
            return True
        if s[0] == "real" and len(s) > 5 and s[5] != "N":
            return True
        if s[0] == "req" and len(s) > 8 and s[8] != "N":
            return True
    return False


def oracle_cm(c):
    """Every clause on its own, from the property text: a setter returns the previous value and applies
    the new one; entering changes nothing; leaving a block — however, whenever, in whatever order —
    puts back what was in force just before the object was created."""
    evs = c.payload["cm"]
    obs = [_parse_event(x) for x in (c.impl_out or "").split(";") if x]
    if len(obs) != len(evs):
        return f"{len(obs)} observations for {len(evs)} events"
    cur = dict(a="0", r="0", l="WARNING", root="30", dis="0")
    objs, blocks = [], []
    K = ("a", "r", "l", "root", "dis")
    for n, (ev, (tag, o)) in enumerate(zip(evs, obs)):
        if "cfg!" in o:
            return f"event {n}: configuration() disagrees with the getters"
        want = dict(cur)
        k = ev[0]
        if k in ("mk", "set"):
            key, tok = ev[1], ev[2]
            new = cur[key] if tok == "_" else (lvl_valid(tok) if key == "l" else (None if tok == "bad" else tok[1:]))
            if new is None:
                wtag = k + "!ValueError"
            else:
                wtag = k + "=" + cur[key]
                want[key] = new
                if key == "l" and tok != "_":
                    want["root"], want["dis"] = _canon(new)
                if k == "mk":
                    objs.append(("const", key, cur[key]))
        elif k == "mkcfg":
            ok = ev[1] != "bad" and ev[2] != "bad" and (ev[3] == "_" or lvl_valid(ev[3]) is not None)
            if not ok:
                wtag = "mkcfg!ValueError"
            else:
                wtag = f"mkcfg={cur['a']}/{cur['r']}/{cur['l']}"
                if ev[1] != "_":
                    want["a"] = ev[1][1:]
                if ev[2] != "_":
                    want["r"] = ev[2][1:]
                if ev[3] != "_":
                    want["l"] = lvl_valid(ev[3])
                    want["root"], want["dis"] = _canon(want["l"])
                objs.append(("config", cur["a"], cur["r"], cur["l"]))
        elif k == "enter":
            wtag = "enter"
            if ev[1] < len(objs):
                blocks.append(ev[1])
        elif k == "bare":
            wtag = "bare!AttributeError"
        else:
            wtag = "exit"
            if ev[1] < len(blocks):
                ob = objs[blocks[ev[1]]]
                if ob[0] == "const":
                    want[ob[1]] = ob[2]
                    if ob[1] == "l":
                        want["root"], want["dis"] = _canon(ob[2])
                else:
                    want["a"], want["r"], want["l"] = ob[1], ob[2], ob[3]
                    want["root"], want["dis"] = _canon(ob[3])
        if tag != wtag:
            return f"event {n} ({':'.join(str(x) for x in ev)}): {tag}, expected {wtag}"
        for key in K:
            if o[key] != want[key]:
                what = ("leaving the block must put back what was in force before its object was created"
                        if k == "exit" else "state after the event")
                return f"event {n} ({':'.join(str(x) for x in ev)}): {key}={o[key]} but {want[key]} expected ({what})"
        cur = {key: o[key] for key in K}
    return None


def _walk_case(c):
    events = (c.impl_out or "").split(";")
    w = Walker(events)
    cur = dict(a="0", r="0", l="WARNING", root="30", dis="0")
    try:
        out, cur = w.seq(c.payload["prog"], cur)
        w.where = "trace"
        tag, o = w.next()
        if tag != "end=" + out:
            w.fail(f"program outcome {tag}, expected {out}")
        w.same(o, cur, "final observation")
        if w.i != len(w.ev):
            w.fail("more events than the program can produce")
    except _Fail as f:
        return str(f), w.info
    return None, None


def oracle(c):
    if c.impl_out is None:
        return "no implementation output"
    if c.stream == "C20.fn":
        return None          # private intermediates: the model comparison (drift) is all there is
    if c.impl_out.startswith("raised:"):
        return "the harness's interpreter raised: " + c.impl_out
    if c.stream == "C20.cm":
        return oracle_cm(c)
    msg, _ = _walk_case(c)
    return msg


# ------------------------------------------------------------------ known findings
SIG_LEAK = "invalid-verbose-leaks-call-counter"
SIG_NESTED = "nested-call-verbosity-not-restored"
SIG_ZERO = "verbose-0-under-global-DISABLE-reenables-logging"


def classify(c):
    """A known signature only if (1) the whole observed trace is exactly what the Lean model of
    the *unpatched* decorator predicts for this program and (2) the first violated clause is at
    the exit of a decorated call in the situation that defect describes."""
    if c.line is None or c.impl_out is None:
        return None
    if c.stream == "C20.cm":
        return "unexplained:context-manager-object" if oracle_cm(c) else None
    if c.stream != "C20.prog":
        return None
    msg, info = _walk_case(c)
    if not msg:
        return None
    # anything that is not one of the known defects: grouped by the violated clause (these
    # signatures are never listed in known_findings.json, so they are reported as VIOLATION)
    other = "unexplained:" + ((info or {}).get("clause") or "trace")
    if not info or info.get("clause") != "decorated-call-exit":
        return other
    old, mid = model_old(c), model_mid(c)
    if old is None or mid is None:
        try:
            parts = fw.model_run(["C20.prog " + c.line.split(" ", 1)[1]])[0].split("#")
            mid, old = parts[1], parts[2]
        except Exception:
            return other
    r = resolve_verbose(info["verbose"])
    zero = info["depth"] == 0 and info["level"] == "DISABLE" and r == ("level", "DISABLE")
    if mid == c.impl_out:
        # the decorator after fixes/C20-verbose-scope.patch: only the outermost verbose=0 under DISABLE is left
        return SIG_ZERO if zero else other
    if old != c.impl_out:
        return other
    if info["invalid_seen"]:
        return SIG_LEAK
    if info["depth"] >= 1 or info["nested"]:
        return SIG_NESTED
    if zero:
        return SIG_ZERO
    return other


# ------------------------------------------------------------------ shrinking
def _variants(prog):
    """Programs one step smaller: drop a statement, or replace a block by its body."""
    for i, st in enumerate(prog):
        yield prog[:i] + prog[i + 1:]
        body_ix = 3 if st[0] in ("with", "call") else 4 if st[0] == "wcfg" else 1 if st[0] == "try" else None
        if body_ix is not None:
            body = st[body_ix]
            yield prog[:i] + body + prog[i + 1:]
            for b in _variants(body):
                st2 = list(st)
                st2[body_ix] = b
                yield prog[:i] + [st2] + prog[i + 1:]


def shrink(c, run):
    if not _is_prog(c):
        return c
    sig = classify(c)

    def evaluate(prog):
        c2 = mk(dict(prog=prog))
        c2.impl_out = impl(c2)
        c2.oracle_fail = oracle(c2)
        return c2

    best = c
    budget = 400
    improved = True
    while improved and budget > 0:
        improved = False
        for v in _variants(best.payload["prog"]):
            budget -= 1
            if budget <= 0:
                break
            c2 = evaluate(v)
            if c2.oracle_fail:
                try:
                    c2.model_out = fw.model_run([c2.line])[0]
                except Exception:
                    pass
            if c2.oracle_fail and classify(c2) == sig:
                best = c2
                improved = True
                break
    if best is not c:
        try:
            best.model_out = fw.model_run([best.line])[0]
        except Exception:
            pass
        best.payload = dict(best.payload, shrunk_from=c.line)
    return best


def extra_coverage(run):
    e = env()
    return dict(
        equals_variants_found=[dict(cls=v["cls"], difference_in=v["where"]) for v in e.eq_variants],
        classes_with_equals=sorted({v["cls"] for v in e.eq_variants}),
        decorator_defects_measured_for_steering=e.flags,
        decorated_functions_found=len(e.funcs),
        decorated_functions=[dict(name=qn, ways_to_call=len(e.recipes.get(qn) or [])) for qn in e.names],
        enum_table=fw.model_run(["C20.tab"])[0] if fw.EXE.exists() else None,
    )
