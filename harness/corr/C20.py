"""C20 — global settings changed for a call or a block are always restored.

Stream
  C20.prog   a random well-nested program over the real cfdm API, observed after every step
             (model + oracle).  Statements:
               set / cfg            cfdm.atol(x), rtol(x), log_level(x), configuration(...)
               with / wcfg          the same used as context managers
               call                 a synthetic function or method decorated with the real
                                    cfdm.decorators._manage_log_level_via_verbosity whose body
                                    runs the nested statements and observes in between
               real                 a decorated cfdm function found by reflection (equals of
                                    every construct class, Constructs._equals_*, read, write, …),
                                    called so that it returns or so that it raises
               try / raise / eq     try-except, raise, Data.equals(rtol=, atol=)
             Observed after every step: cfdm.atol(), rtol(), log_level(), configuration(),
             logging.root.manager.disable, logging.getLogger().level.

The driver answers with two predictions: the decorator as patched by
fixes/C20-verbose-scope.patch (proposed, not applied) and the decorator of 1.11.2.0 as coded.
The two are proved equal on guarded programs (C20_old_eq_new_on_guarded); the implementation is
compared with the first, and where the two differ (the three defect classes) a failure is a
known finding only if the whole observed trace equals the second.
"""
import ast
import contextlib
import inspect
import io
import json
import logging as _logging
import multiprocessing
import multiprocessing.util
import os
import sys
import tempfile

from .. import fw
from ..fw import Case

REQUIRED = [
    "C20_enum_table",
    "C20_setter_returns_old",
    "C20_with_restores",
    "C20_with_restores_logging",
    "C20_with_cfg_restores",
    "C20_configuration_rollback",
    "C20_verbose_call_restores",
    "C20_verbose_scoped",
    "C20_verbose_scoped_with_blocks",
    "C20_decorated_call_keeps_consistency",
    "C20_logging_follows_global_level",
    "C20_tol_args_local",
    "C20_old_invalid_verbose_leaks_counter",
    "C20_old_nested_verbose_not_restored",
    "C20_old_equals_disables_logging",
    "C20_old_verbose_zero_reenables_logging",
    "C20_old_single_call_restores_partial",
    "C20_old_verbose_scoped_partial",
    "C20_old_eq_new_on_guarded",
]
BUDGET = {"quick": 10000, "thorough": 300000}
RULE = (
    "well-nested programs (depth <= 3 quick, <= 6 thorough) of {setter, configuration, with-block of a "
    "setter / of configuration (with and without argument), decorated call (synthetic function or method, "
    "or one of the decorated cfdm functions found by reflection, returning or raising), try, raise, "
    "equals of Data / a coordinate / a Field with tolerance arguments (explicit zero included, spelled as int, float, "
    "numpy scalar or cfdm.Constant; global loose vs passed tight and vice versa on operands differing by a known amount)} x verbose in {None, -1..3, level names in any case, True, False, "
    "invalid ints, invalid names} x initial level in the 5 values x 9 tolerance values (8 powers of two and zero); observed after every "
    "step at every depth. non-trivial = has a call with verbose not None, a with-block or a raise; "
    "distinct = distinct program text"
)
ASSUMPTIONS = [
    "tolerances are 8 exact powers of two and exact zero (floats are abstract identifiers in the model); arguments that make float() raise TypeError are not generated (only ValueError is rolled back by _configuration)",
    "the root logger level is compared while logging is enabled (manager.disable == 0); under logging.disable(CRITICAL) it filters nothing and cfdm re-derives it whenever logging is re-enabled, so it is printed as '-'",
    "a with-block of log_level/configuration placed *inside* a call with a verbose re-derives the logging state from the restored global level on exit (by design of Constant.__exit__); there the oracle demands the three settings only, the model comparison covers the rest",
    "bodies of the real cfdm functions are opaque: they are observed after they return/raise only",
    "the private nesting counter of the unpatched decorator is reset between programs (best effort, so that cases stay independent) and is never compared",
    "verbose values of other types (floats etc.) are outside the property's quantifier and not generated",
]

LEVELS = ["DISABLE", "WARNING", "INFO", "DETAIL", "DEBUG"]
VALUE = {"DISABLE": 0, "WARNING": 1, "INFO": 2, "DETAIL": 3, "DEBUG": -1}
BYVALUE = {v: k for k, v in VALUE.items()}
NUM = {"WARNING": 30, "INFO": 20, "DETAIL": 15, "DEBUG": 10}
CRITICAL = 50
TOL_EXP = [52, 40, 30, 20, 12, 8, 4, 1]
TOLS = [2.0 ** -e for e in TOL_EXP] + [0.0]     # number 8 is exactly zero
ZERO = len(TOLS) - 1
TOL_INDEX = {t: i for i, t in enumerate(TOLS)}

# ------------------------------------------------------------------ table regeneration


def _tables_from_repo():
    repo = fw.REPO
    src = (repo / "cfdm" / "constants.py").read_text()
    tree = ast.parse(src)
    members = None
    keys = None
    for node in tree.body:
        if isinstance(node, ast.ClassDef) and node.name == "ValidLogLevels":
            members = []
            for st in node.body:
                if isinstance(st, ast.Assign) and len(st.targets) == 1 and isinstance(st.targets[0], ast.Name):
                    members.append((st.targets[0].id, int(ast.literal_eval(st.value))))
        if isinstance(node, ast.Assign) and any(isinstance(t, ast.Name) and t.id == "CONSTANTS" for t in node.targets):
            if isinstance(node.value, ast.Dict):
                keys = [ast.literal_eval(k) for k in node.value.keys]
    if members is None or keys is None:
        raise fw.HarnessError("ValidLogLevels / CONSTANTS not found in cfdm/constants.py")
    # numeric levels: those cfdm adds to `logging` in cfdm/__init__.py, else the standard module's
    extra = {}
    init = ast.parse((repo / "cfdm" / "__init__.py").read_text())
    for node in ast.walk(init):
        if isinstance(node, ast.Assign) and len(node.targets) == 1:
            t = node.targets[0]
            if isinstance(t, ast.Attribute) and isinstance(t.value, ast.Name) and t.value.id == "logging":
                try:
                    extra[t.attr] = int(ast.literal_eval(node.value))
                except Exception:
                    pass
    std = {"CRITICAL": 50, "ERROR": 40, "WARNING": 30, "INFO": 20, "DEBUG": 10, "NOTSET": 0}
    nums = []
    for name, _ in members:
        if name in extra:
            nums.append((name, extra[name]))
        elif name in std:
            nums.append((name, std[name]))
    return members, nums, keys, std["CRITICAL"], std["NOTSET"]


def pre():
    members, nums, keys, critical, notset = _tables_from_repo()

    def pairs(xs):
        return "[" + ", ".join(f'("{n}", {v})' for n, v in xs) + "]"

    text = (
        "/- GENERATED by harness/corr/C20.py:pre() from /repo/cfdm/constants.py (class ValidLogLevels),\n"
        "   /repo/cfdm/__init__.py (logging.DETAIL) and the standard `logging` module.  Do not edit. -/\n"
        "namespace Cfdm.Generated.LogLevels\n\n"
        "/-- `ValidLogLevels` members in definition order: (name, value). -/\n"
        f"def validLogLevels : List (String × Int) :=\n  {pairs(members)}\n\n"
        "/-- `getattr(logging, name)` for every member name that `logging` defines. -/\n"
        f"def loggingNo : List (String × Nat) :=\n  {pairs(nums)}\n\n"
        "/-- `logging.CRITICAL`, the default argument of `logging.disable()`. -/\n"
        f"def critical : Nat := {critical}\n\n"
        "/-- `logging.NOTSET`. -/\n"
        f"def notset : Nat := {notset}\n\n"
        "/-- Keys of `CONSTANTS`, in definition order. -/\n"
        "def constantsKeys : List String := [" + ", ".join(f'"{k}"' for k in keys) + "]\n\n"
        "end Cfdm.Generated.LogLevels\n"
    )
    fw.write_if_changed(fw.LEAN / "Cfdm" / "Generated" / "LogLevels.lean", text)
    # import cfdm and build the scratch files here, in the main process, so that the forked
    # workers share them and the single scratch directory is removed when the main process exits
    env()


# ------------------------------------------------------------------ cfdm, reflection, recipes
_env = None


class Env:
    pass


def _is_verbosity_decorated(fn):
    """Reflection + behavioural probe: a decorated function (`__wrapped__`) whose wrapper
    validates `verbose` before anything else.  (Signatures are no use: the docstring-rewriting
    metaclass gives every class its own copy of an inherited decorated method, and those copies
    show `(*args, **kwargs)`.)"""
    if not (inspect.isfunction(fn) and hasattr(fn, "__wrapped__")):
        return False
    try:
        with contextlib.redirect_stdout(io.StringIO()):
            fn(object(), verbose="__no_such_level__")
    except ValueError:
        return True
    except Exception:
        return False
    return False


def discover(C):
    """Every function object defined on a cfdm class or module that is wrapped by the
    verbosity decorator, keyed `module:Class.name` (the class that owns that function object)."""
    import importlib
    import pkgutil

    mods = [C]
    for m in pkgutil.walk_packages(C.__path__, C.__name__ + "."):
        if ".test" in m.name:
            continue
        try:
            mods.append(importlib.import_module(m.name))
        except Exception:
            pass
    classes = {}
    cands = {}
    for mod in mods:
        for nm, obj in list(vars(mod).items()):
            if inspect.isclass(obj) and getattr(obj, "__module__", "").startswith(C.__name__):
                classes[f"{obj.__module__}:{obj.__qualname__}"] = obj
            elif inspect.isfunction(obj) and getattr(obj, "__module__", "").startswith(C.__name__):
                cands.setdefault(id(obj), (f"{mod.__name__}:{nm}", obj))
    for cname in sorted(classes):
        cls = classes[cname]
        for name, attr in sorted(vars(cls).items()):
            fn = attr.__func__ if isinstance(attr, (staticmethod, classmethod)) else attr
            if inspect.isfunction(fn):
                cands.setdefault(id(fn), (f"{cname}.{name}", fn))
    found = {}
    for key, fn in cands.values():
        if _is_verbosity_decorated(fn):
            found[key] = fn
    return dict(sorted(found.items()))


def env():
    """Import cfdm, silence handlers, find the decorated functions and a way to call each."""
    global _env
    if _env is not None:
        return _env
    import cfdm as C

    e = Env()
    e.C = C
    e.logging = C.logging if hasattr(C, "logging") else _logging
    root = _logging.getLogger()
    for h in list(root.handlers):
        root.removeHandler(h)
    root.addHandler(_logging.NullHandler())
    e.deco = C.decorators._manage_log_level_via_verbosity
    deco = e.deco

    @deco
    def syn_func(body, verbose=None):
        return body()

    class Syn:
        @deco
        def method(self, body, verbose=None):
            return body()

    e.syn_func = syn_func
    e.syn_obj = Syn()
    e.funcs = discover(C)
    e.names = list(e.funcs)
    _reset(e)
    # object pool from the example fields
    pool = []

    def add(o):
        if o is not None:
            pool.append(o)

    fields = []
    for i in range(16):
        try:
            fields.append(C.example_field(i))
        except Exception:
            pass
    for f in fields:
        add(f)
        add(getattr(f, "domain", None))
        add(f.constructs)
        add(f.data if f.has_data() else None)
        if f.has_data():
            for getter in ("get_count", "get_index", "get_list", "source"):
                try:
                    add(getattr(f.data, getter)(None))
                except Exception:
                    pass
        for c in f.constructs.values():
            add(c)
            try:
                if c.has_data():
                    add(c.data)
                    for getter in ("get_count", "get_index", "get_list", "source"):
                        try:
                            add(getattr(c.data, getter)(None))
                        except Exception:
                            pass
            except Exception:
                pass
            for getter in ("get_node_count", "get_part_node_count"):
                try:
                    add(getattr(c, getter)(None))
                except Exception:
                    pass
            for attr in ("bounds", "interior_ring", "datum", "coordinate_conversion"):
                try:
                    sub = getattr(c, attr, None)
                    if sub is not None and not callable(sub):
                        add(sub)
                except Exception:
                    pass
    e.scratch = tempfile.mkdtemp(prefix="verif_c20_")
    import atexit
    import shutil

    atexit.register(shutil.rmtree, e.scratch, True)
    if multiprocessing.current_process().name != "MainProcess":
        # pool workers do not run atexit handlers
        multiprocessing.util.Finalize(None, shutil.rmtree, args=(e.scratch, True), exitpriority=1)
    e.ncfile = os.path.join(e.scratch, "f.nc")      # written once here, then only read
    # written by the `write` recipe: one file per process (the workers are forked after this)
    e.ncout = lambda: os.path.join(e.scratch, f"g_{os.getpid()}.nc")
    e.field0 = fields[0] if fields else None
    try:
        with contextlib.redirect_stdout(io.StringIO()):
            C.write(e.field0, e.ncfile)
    except Exception:
        e.ncfile = None
    # recipes: qualified name -> list of thunks taking verbose
    e.recipes = {}
    for qn, fn in e.funcs.items():
        name = qn.rsplit(".", 1)[-1]
        rs = []
        if name == "read" and "netcdfread" in qn.lower():
            if e.ncfile:
                rs.append(lambda v, C=C, p=e.ncfile: C.read(p, verbose=v))
        elif name == "write" and "netcdfwrite" in qn.lower():
            if e.field0 is not None:
                rs.append(lambda v, C=C, f=e.field0, p=e.ncout: C.write(f, p(), verbose=v))
        else:
            types_seen = set()
            for o in pool:
                if type(o) in types_seen:
                    continue
                try:
                    bound = getattr(o, name, None)
                    if bound is None or getattr(bound, "__func__", None) is not fn:
                        continue
                except Exception:
                    continue
                types_seen.add(type(o))
                if "equals" in name:
                    other = o.copy() if hasattr(o, "copy") else o
                    rs.append(lambda v, b=bound, other=other: b(other, verbose=v))
                    # an unequal partner: makes the function log and return False
                    diff = next((q for q in pool if type(q) is type(o) and q is not o), None)
                    if diff is not None:
                        rs.append(lambda v, b=bound, other=diff: b(other, verbose=v))
                else:
                    rs.append(lambda v, b=bound: b(verbose=v))
                if len(types_seen) >= 4:
                    break
        # calibrate: keep the thunks that return normally with verbose=None
        good = []
        for r in rs:
            try:
                with contextlib.redirect_stdout(io.StringIO()):
                    r(None)
                good.append(r)
            except Exception:
                pass
        e.recipes[qn] = good
    _reset(e)
    d1 = {}
    e.eq_cache = d1
    _env = e
    return e


def _reset(e):
    try:  # private nesting counter of the unpatched decorator: best effort, never compared
        d = e.deco.__defaults__
        if d and isinstance(d[0], list) and d[0] and isinstance(d[0][0], int):
            d[0][0] = 0
    except Exception:
        pass
    _logging.disable(_logging.NOTSET)
    _logging.getLogger().setLevel(_logging.WARNING)
    e.C.configuration(atol=TOLS[0], rtol=TOLS[0], log_level="WARNING")


_probe_cache = {}


def probe_inner(e, qn, idx, vtok):
    """Which verbosity does this cfdm function hard-code for the decorated calls it makes itself
    (e.g. Constructs.equals compares candidate pairs with verbose=0)?  Measured through public
    observables only: the function is called inside a synthetic decorated call with verbose=None
    and the logging state is read right after it returns.  The answer goes into the protocol
    line; it has no influence on the prediction for the patched decorator (theorem
    C20_verbose_scoped: whatever the inner verbosity, nothing is left behind) and serves only to
    let the model of the *unpatched* decorator recognise the known defect exactly."""
    res = resolve_verbose(vtok)
    rs = e.recipes.get(qn) or []
    if res[0] == "invalid" or not rs:
        return "N"
    key = (qn, idx % len(rs), res)
    if key in _probe_cache:
        return _probe_cache[key]
    recipe = rs[idx % len(rs)]
    v = verbose_value(vtok)
    seen = []
    for init in ("WARNING", "DEBUG"):
        _reset(e)
        e.C.log_level(init)

        def body():
            with contextlib.redirect_stdout(io.StringIO()):
                recipe(v)
            dis = _logging.root.manager.disable
            seen.append((str(_logging.getLogger().level) if dis == 0 else "-", str(dis)))

        try:
            e.syn_func(body, verbose=None)
        except Exception as ex:
            _reset(e)
            raise fw.HarnessError(f"probe: {qn} raised {ex!r} when called normally")
    _reset(e)
    out = "N"
    if len(seen) == 2:
        restored = seen == [_canon("WARNING"), _canon("DEBUG")]
        as_outer = res[0] == "level" and seen == [_canon(res[1]), _canon(res[1])]
        if not restored and not as_outer:
            root, dis = seen[0]
            if dis != "0":
                out = "i0"
            else:
                lv = [n for n, k in NUM.items() if str(k) == root]
                out = "i" + str(VALUE[lv[0]]) if lv else "N"
    _probe_cache[key] = out
    return out


# ------------------------------------------------------------------ tokens
def tol_value(tok):
    if tok == "bad":
        return "x"
    return TOLS[int(tok[1:])]


def lvl_value(tok):
    return tok[1:] if tok[0] == "n" else int(tok[1:])


def verbose_value(tok):
    if tok == "N":
        return None
    if tok == "bT":
        return True
    if tok == "bF":
        return False
    if tok[0] == "i":
        return int(tok[1:])
    return tok[1:]


def resolve_verbose(tok):
    """Independent reading of the documented rule: returns ('invalid',), ('none',) or ('level', NAME)."""
    if tok == "N":
        return ("none",)
    if tok == "bT":
        return ("level", "DETAIL")
    if tok == "bF":
        return ("level", "DISABLE")
    if tok[0] == "i":
        k = int(tok[1:])
        return ("level", BYVALUE[k]) if k in BYVALUE else ("invalid",)
    up = tok[1:].upper()
    return ("level", up) if up in VALUE else ("invalid",)


def lvl_valid(tok):
    """None if invalid else the level name."""
    if tok[0] == "n":
        up = tok[1:].upper()
        return up if up in VALUE else None
    k = int(tok[1:])
    return BYVALUE.get(k)


def enc(prog, names=None):
    out = []
    for st in prog:
        k = st[0]
        if k == "set":
            out.append(f"set:{st[1]}:{st[2]}")
        elif k == "cfg":
            out.append(f"cfg:{st[1]}:{st[2]}:{st[3]}")
        elif k == "with":
            out.append(f"with:{st[1]}:{st[2]}{{{enc(st[3], names)}}}")
        elif k == "wcfg":
            out.append(f"wcfg:{st[1]}:{st[2]}:{st[3]}{{{enc(st[4], names)}}}")
        elif k == "call":
            out.append(f"call:{st[2]}{{{enc(st[3], names)}}}")
        elif k == "real":
            idx = names.index(st[1]) if names and st[1] in names else 0
            out.append(f"real:{idx}:{st[2]}:{st[3]}:{st[5]}")
        elif k == "try":
            out.append(f"try{{{enc(st[1], names)}}}")
        elif k == "raise":
            out.append(f"raise:{st[1]}")
        elif k == "eq":
            out.append(f"eq:{st[1]}:{st[2]}:{st[3]}:{st[4]}{st[5]}")
        else:
            raise fw.HarnessError("unknown statement " + repr(st))
    return ";".join(out)


def walk(prog):
    for st in prog:
        yield st
        if st[0] in ("with", "call"):
            yield from walk(st[3])
        elif st[0] == "wcfg":
            yield from walk(st[4])
        elif st[0] == "try":
            yield from walk(st[1])


def depth_of(prog):
    d = 0
    for st in prog:
        body = st[3] if st[0] in ("with", "call") else st[4] if st[0] == "wcfg" else st[1] if st[0] == "try" else None
        if body is not None:
            d = max(d, 1 + depth_of(body))
    return d


# ------------------------------------------------------------------ generators
_NAME_FORMS = ["{u}", "{l}", "{c}", "{m}"]


def _name_form(rng, name):
    f = rng.choice(_NAME_FORMS)
    mixed = "".join(ch.upper() if rng.random() < 0.5 else ch.lower() for ch in name)
    return f.format(u=name, l=name.lower(), c=name.capitalize(), m=mixed)


def gen_verbose(rng):
    r = rng.random()
    if r < 0.22:
        return "N"
    if r < 0.50:
        return "i" + str(rng.choice([-1, 0, 1, 2, 3]))
    if r < 0.68:
        return "s" + _name_form(rng, rng.choice(LEVELS))
    if r < 0.80:
        return rng.choice(["bT", "bF"])
    if r < 0.92:
        return "i" + str(rng.choice([4, -2, 7, 10, 30, 99, -3]))
    return "s" + rng.choice(["loud", "warn", "verbose", "none", "Quiet", "debugg"])


def gen_tol(rng, allow_none=True):
    r = rng.random()
    if allow_none and r < 0.2:
        return "_"
    if r < 0.3:
        return "bad"
    return "t" + str(rng.randrange(len(TOLS)))


def gen_lvl(rng, allow_none=True):
    r = rng.random()
    if allow_none and r < 0.2:
        return "_"
    if r < 0.55:
        return "n" + _name_form(rng, rng.choice(LEVELS))
    if r < 0.85:
        return "i" + str(rng.choice([-1, 0, 1, 2, 3]))
    if r < 0.93:
        return "i" + str(rng.choice([4, -2, 15, 30]))
    return "n" + rng.choice(["loud", "warn", "critical", "notset"])


def gen_stmt(rng, depth, maxdepth, names):
    leaf = depth >= maxdepth
    kinds = ["set", "cfg", "raise", "eq", "real"]
    weights = [14, 5, 5, 5, 9]
    if not leaf:
        kinds += ["call", "with", "wcfg", "try"]
        weights += [30, 12, 6, 10]
    k = rng.choices(kinds, weights)[0]
    if k == "set":
        key = rng.choice("arl")
        return ["set", key, gen_lvl(rng) if key == "l" else gen_tol(rng)]
    if k == "cfg":
        return ["cfg", gen_tol(rng), gen_tol(rng), gen_lvl(rng)]
    if k == "raise":
        return ["raise", rng.choice("VTK")]
    if k == "eq":
        return gen_eq(rng, leaf)
    if k == "real":
        if not names:
            return ["call", "f", gen_verbose(rng), []]
        return ["real", rng.choice(names), gen_verbose(rng), "x" if rng.random() < 0.3 else "o", rng.randrange(8)]
    body = gen_body(rng, depth + 1, maxdepth, names)
    if k == "call":
        return ["call", rng.choice("fm"), gen_verbose(rng), body]
    if k == "with":
        key = rng.choice("arl")
        return ["with", key, gen_lvl(rng) if key == "l" else gen_tol(rng), body]
    if k == "wcfg":
        return ["wcfg", gen_tol(rng), gen_tol(rng), gen_lvl(rng), body]
    return ["try", body]


def gen_eq(rng, leaf):
    """An equality test with tolerance arguments.  Half of the time placed inside a
    configuration block chosen so that global and passed tolerances disagree about the operands
    (global loose / passed tight — explicit zero included — and the other way round)."""
    kind = rng.choice("dcf")
    spell = rng.randrange(4)
    tight = [ZERO, ZERO, 0, 1, 2]
    loose = [6, 7, 7]

    def passed(pool):
        return "_" if rng.random() < 0.25 else str(rng.choice(pool))

    r = rng.random()
    if leaf or r < 0.4:
        def t():
            return "_" if rng.random() < 0.35 else str(rng.choice(list(range(len(TOLS))) + [ZERO, ZERO]))
        return ["eq", t(), t(), rng.randint(2, 45), kind, spell]
    # operands differ by 7*2^-m with 2^-4 < |x-y| < 0.5: loose (2^-4.. 2^-1) vs tight (<= 2^-30)
    m = rng.randint(3, 6)
    if r < 0.7:
        glob, arg = loose, tight
    else:
        glob, arg = tight, loose
    ga, gr = rng.choice(glob), rng.choice(glob)
    st = ["eq", passed(arg), passed(arg), m, kind, spell]
    if st[1] == "_" and st[2] == "_":
        st[rng.choice([1, 2])] = str(rng.choice(arg))
    return ["wcfg", f"t{ga}", f"t{gr}", "_", [st]]


def gen_body(rng, depth, maxdepth, names):
    n = rng.choice([0, 1, 1, 2, 2, 3])
    return [gen_stmt(rng, depth, maxdepth, names) for _ in range(n)]


def gen_prog(rng, maxdepth, names):
    prog = []
    if rng.random() < 0.7:
        prog.append(["set", "l", "n" + rng.choice(LEVELS)])
        if rng.random() < 0.5:
            prog.append(["set", rng.choice("ar"), "t" + str(rng.randrange(len(TOLS)))])
    n = rng.randint(1, 5)
    for _ in range(n):
        st = gen_stmt(rng, 0, maxdepth, names)
        # an escaping exception ends the program: mostly keep going
        if rng.random() < 0.6 and st[0] != "try":
            st = ["try", [st]]
        prog.append(st)
    return prog


def gen(rng, tier, n):
    names = env().names
    maxdepth = 3 if tier == "quick" else 6
    for _ in range(n):
        d = rng.randint(1, maxdepth)
        yield mk(dict(prog=gen_prog(rng, d, names)))


def mk(p):
    p = dict(p)
    prog = p["prog"]
    names = env().names
    for st in walk(prog):
        if st[0] == "eq":
            # [eq, rtol, atol, m, kind (d Data / c coordinate / f Field), spelling of the numbers]
            if len(st) < 5:
                st.append("d")
            if len(st) < 6:
                st.append(1)
        if st[0] == "real":
            # a function for which no normal call was found can only be called so that it raises
            if st[3] == "o" and not env().recipes.get(st[1]):
                st[3] = "x"
            while len(st) < 5:
                st.append(0)
            if len(st) < 6:
                st.append(probe_inner(env(), st[1], st[4], st[2]) if st[3] == "o" else "N")
    text = enc(prog, names)
    line = "C20.prog p=" + text
    tags = set()
    nontrivial = False
    for st in walk(prog):
        if st[0] in ("call", "real"):
            r = resolve_verbose(st[2])
            tok = st[2]
            kind = "none" if tok == "N" else "invalid" if r[0] == "invalid" else {"i": "int", "s": "name", "b": "bool"}[tok[0]]
            tags.add("v:" + kind)
            tags.add("call:" + ("real" if st[0] == "real" else "synthetic"))
            if st[0] == "real":
                tags.add("real:" + st[1].rsplit(".", 1)[-1])
                if st[3] == "x":
                    tags.add("real:raising")
            if tok != "N":
                nontrivial = True
        elif st[0] in ("with", "wcfg", "raise"):
            nontrivial = True
            tags.add(st[0])
        elif st[0] == "eq":
            tags.add("eq")
            tags.add("eq:" + {"d": "Data", "c": "coordinate", "f": "Field"}[st[4]])
            if str(ZERO) in (st[1], st[2]):
                tags.add("eq:explicit-zero")
            if st[1] != "_" or st[2] != "_":
                tags.add("eq:passed-" + ["int-or-float", "float", "numpy", "Constant"][st[5]])
        else:
            tags.add(st[0])
    tags.add(f"depth:{depth_of(prog)}")
    return Case("C20.prog", p, line, key=text, nontrivial=nontrivial, tags=sorted(tags))


def from_payload(stream, payload):
    return mk(payload)


# ------------------------------------------------------------------ implementation
def _show(v):
    if isinstance(v, str):
        return v
    try:
        return str(TOL_INDEX[float(v)])
    except Exception:
        return "?" + repr(v)


_EXC = {"V": ValueError, "T": TypeError, "K": KeyError}


def _operand(C, kind, value):
    """Data, a coordinate construct or a field construct holding the single number `value`."""
    d = C.Data([value])
    if kind == "d":
        return d
    if kind == "c":
        return C.DimensionCoordinate(data=d)
    f = C.Field()
    ax = f.set_construct(C.DomainAxis(1))
    f.set_data(d, axes=[ax])
    return f


def _spelled(C, value, spell):
    """The same number as a Python int/float, a numpy scalar or a cfdm.Constant."""
    import numpy as np

    if spell == 0:
        return int(value) if value == int(value) else value      # 0 -> the int 0
    if spell == 1:
        return float(value)
    if spell == 2:
        return np.float64(value)
    return C.Constant(value)


def impl(c):
    e = env()
    C = e.C
    events = []

    def obs(tag):
        a = C.atol().value
        r = C.rtol().value
        lv = C.log_level().value
        cfg = dict(C.configuration())
        dis = _logging.root.manager.disable
        root = _logging.getLogger().level
        s = f"{tag}|a={_show(a)},r={_show(r)},l={lv},root={root if dis == 0 else '-'},dis={dis}"
        if cfg != {"atol": a, "rtol": r, "log_level": lv}:
            s += ",cfg!=getters"
        events.append(s)

    def setter(key):
        return {"a": C.atol, "r": C.rtol, "l": C.log_level}[key]

    def arg_of(key, tok):
        return lvl_value(tok) if key == "l" else tol_value(tok)

    def cfg_kwargs(a, r, lv):
        kw = {}
        if a != "_":
            kw["atol"] = tol_value(a)
        if r != "_":
            kw["rtol"] = tol_value(r)
        if lv != "_":
            kw["log_level"] = lvl_value(lv)
        return kw

    def show_cfg(d):
        return f"{_show(d['atol'])}/{_show(d['rtol'])}/{d['log_level']}"

    def run_seq(stmts):
        for st in stmts:
            run_stmt(st)

    def run_stmt(st):
        k = st[0]
        if k == "set":
            f = setter(st[1])
            try:
                old = f() if st[2] == "_" else f(arg_of(st[1], st[2]))
            except Exception as ex:
                obs("set!" + fw.exc_enum(ex))
                raise
            obs("set=" + _show(old.value))
        elif k == "cfg":
            try:
                old = C.configuration(**cfg_kwargs(st[1], st[2], st[3]))
            except Exception as ex:
                obs("cfg!" + fw.exc_enum(ex))
                raise
            obs("cfg=" + show_cfg(old))
        elif k in ("with", "wcfg"):
            try:
                if k == "with":
                    f = setter(st[1])
                    cm = f() if st[2] == "_" else f(arg_of(st[1], st[2]))
                    body = st[3]
                else:
                    cm = C.configuration(**cfg_kwargs(st[1], st[2], st[3]))
                    body = st[4]
            except Exception as ex:
                obs("with!" + fw.exc_enum(ex))
                raise
            try:
                with cm as got:
                    obs("enter=" + (_show(got.value) if k == "with" else show_cfg(got)))
                    run_seq(body)
            except Exception as ex:
                obs("exit=raised:" + fw.exc_enum(ex))
                raise
            obs("exit=ok")
        elif k == "call":
            entered = []

            def body_fn():
                entered.append(1)
                obs("in")
                run_seq(st[3])
                return 1

            v = verbose_value(st[2])
            try:
                if st[1] == "m":
                    e.syn_obj.method(body_fn, verbose=v)
                else:
                    e.syn_func(body_fn, verbose=v)
            except Exception as ex:
                obs(("ret=raised:" if entered else "call!") + fw.exc_enum(ex))
                raise
            obs("ret=ok")
        elif k == "real":
            fn = e.funcs.get(st[1])
            if fn is None:
                raise fw.HarnessError("decorated function not found: " + st[1])
            v = verbose_value(st[2])
            rs = e.recipes.get(st[1]) or []
            try:
                with contextlib.redirect_stdout(io.StringIO()):
                    if st[3] == "x" or not rs:
                        fn(verbose=v)  # no `self`: TypeError raised by the call inside the wrapper
                    else:
                        rs[st[4] % len(rs)](v)
            except Exception as ex:
                obs("real=raised:" + fw.exc_enum(ex))
                raise
            obs("real=ok")
        elif k == "try":
            try:
                run_seq(st[1])
            except fw.HarnessError:
                raise
            except Exception as ex:
                obs("try=raised:" + fw.exc_enum(ex))
            else:
                obs("try=ok")
        elif k == "raise":
            raise _EXC[st[1]]("boom")
        elif k == "eq":
            m, kind, spell = st[3], st[4], st[5]
            key = (kind, m)
            if key not in e.eq_cache:
                e.eq_cache[key] = (_operand(C, kind, 2.0 + 7 * 2.0 ** -m), _operand(C, kind, 2.0))
            x, y = e.eq_cache[key]
            kw = {}
            if st[1] != "_":
                kw["rtol"] = _spelled(C, TOLS[int(st[1])], spell)
            if st[2] != "_":
                kw["atol"] = _spelled(C, TOLS[int(st[2])], (spell + 1) % 4)
            res = x.equals(y, **kw)
            obs("eq=" + ("T" if res else "F"))
        else:
            raise fw.HarnessError("unknown statement " + repr(st))

    _reset(e)
    try:
        try:
            run_seq(c.payload["prog"])
        except fw.HarnessError:
            raise
        except Exception as ex:
            obs("end=raised:" + fw.exc_enum(ex))
        else:
            obs("end=ok")
    finally:
        out = ";".join(events)
        _reset(e)
    return out


def model_new(c):
    return None if c.model_out is None else c.model_out.split("#")[0]


def model_old(c):
    if c.model_out is None or "#" not in c.model_out:
        return None
    return c.model_out.split("#", 1)[1]


def agree(c):
    return c.impl_out == model_new(c)


# ------------------------------------------------------------------ oracle (clauses of the property)
def _parse_event(s):
    tag, _, rest = s.partition("|")
    o = {}
    for kv in rest.split(","):
        k, _, v = kv.partition("=")
        o[k] = v
    return tag, o


def _canon(level):
    return ("-", str(CRITICAL)) if level == "DISABLE" else (str(NUM[level]), "0")


def _filter(o):
    return (o["root"], o["dis"])


def _consistent(o):
    return _filter(o) == _canon(o["l"])


class _Fail(Exception):
    pass


class Walker:
    """Walks program and event list in lockstep and checks every clause of the property.
    On failure `info` describes where (used by classify)."""

    def __init__(self, events):
        self.ev = [_parse_event(x) for x in events]
        self.i = 0
        self.depth = 0            # enclosing synthetic decorated calls with a valid verbose or None
        self.invalid_seen = False  # an invalid verbose has been passed earlier in this program
        self.info = None
        self.where = "trace"      # which clause of the property is being checked

    def fail(self, msg, **info):
        info.setdefault("clause", self.where)
        self.info = dict(info, event=self.i - 1)
        raise _Fail(f"event {self.i - 1}: {msg}")

    def next(self):
        if self.i >= len(self.ev):
            self.i += 1
            self.fail("trace ends early")
        t = self.ev[self.i]
        self.i += 1
        if "cfg!" in t[1]:
            self.fail("configuration() disagrees with the getters")
        return t

    def same(self, o, cur, what, keys=("a", "r", "l", "root", "dis"), **info):
        for k in keys:
            if o[k] != cur[k]:
                self.fail(f"{what}: {k}={o[k]} but {cur[k]} expected", **info)

    def seq(self, stmts, cur):
        for st in stmts:
            out, cur = self.stmt(st, cur)
            if out != "ok":
                return out, cur
        return "ok", cur

    def stmt(self, st, cur):
        k = st[0]
        self.where = {"set": "setter", "cfg": "configuration", "with": "with-block", "wcfg": "configuration-with-block",
                      "call": "decorated-call", "real": "decorated-call", "try": "try", "raise": "raise",
                      "eq": "equals-tolerances"}.get(k, "trace")
        if k == "set":
            return self.do_set(st[1], st[2], cur, "set")
        if k == "cfg":
            return self.do_cfg(st[1], st[2], st[3], cur, "cfg")
        if k == "with":
            out, c1 = self.do_set(st[1], st[2], cur, "with")
            if out != "ok":
                return out, c1
            out, c2 = self.seq(st[3], c1)
            self.where = "with-block"
            tag, o = self.next()
            if tag != "exit=" + out:
                self.fail(f"with-block: outcome {tag} but the body gave {out}")
            key = st[1]
            want = dict(c2)
            want[key] = cur[key]
            self.same(o, want, "after the with-block the setting must be the one before it, the others as the body left them", keys=("a", "r", "l"))
            if key == "l":
                if _consistent(cur):
                    self.same(o, cur, "after a log_level with-block the logging state must be as before", keys=("root", "dis"))
            else:
                self.same(o, c2, "a tolerance with-block must not touch the logging state", keys=("root", "dis"))
            return out, o
        if k == "wcfg":
            out, c1 = self.do_cfg(st[1], st[2], st[3], cur, "with")
            if out != "ok":
                return out, c1
            out, c2 = self.seq(st[4], c1)
            self.where = "configuration-with-block"
            tag, o = self.next()
            if tag != "exit=" + out:
                self.fail(f"configuration with-block: outcome {tag} but the body gave {out}")
            self.same(o, cur, "after a configuration with-block all settings must be as before", keys=("a", "r", "l"))
            if _consistent(cur):
                self.same(o, cur, "after a configuration with-block the logging state must be as before", keys=("root", "dis"))
            return out, o
        if k in ("call", "real"):
            return self.do_call(st, cur)
        if k == "try":
            out, c2 = self.seq(st[1], cur)
            self.where = "try"
            tag, o = self.next()
            if tag != "try=" + out:
                self.fail(f"try: {tag} but the body gave {out}")
            self.same(o, c2, "a try block changes nothing itself")
            return "ok", o
        if k == "raise":
            return "raised:" + {"V": "ValueError", "T": "TypeError", "K": "KeyError"}[st[1]], cur
        if k == "eq":
            tag, o = self.next()
            rt = TOLS[int(st[1])] if st[1] != "_" else TOLS[int(cur["r"])]
            at = TOLS[int(st[2])] if st[2] != "_" else TOLS[int(cur["a"])]
            want = abs((2.0 + 7 * 2.0 ** -st[3]) - 2.0) <= at + rt * 2.0
            if tag != "eq=" + ("T" if want else "F"):
                self.fail(f"equals({'Data' if st[4] == 'd' else 'coordinate' if st[4] == 'c' else 'Field'}, "
                          f"rtol={'global ' if st[1] == '_' else ''}{rt}, atol={'global ' if st[2] == '_' else ''}{at}) on operands "
                          f"differing by {7 * 2.0 ** -st[3]}: verdict {tag}, expected {want} (|a-b| <= atol + rtol*|b| with the "
                          f"passed values where given; globals in force: rtol={TOLS[int(cur['r'])]}, atol={TOLS[int(cur['a'])]})")
            self.same(o, cur, "an equality test must not change any setting")
            return "ok", o
        raise fw.HarnessError("unknown statement " + repr(st))

    def do_set(self, key, tok, cur, what):
        tag, o = self.next()
        if key == "l":
            new = cur["l"] if tok == "_" else lvl_valid(tok)
        else:
            new = cur[key] if tok == "_" else (None if tok == "bad" else tok[1:])
        if new is None:
            if tag != what + "!ValueError":
                self.fail(f"{what}: invalid argument {tok} gave {tag}")
            self.same(o, cur, "a setter that raises must change nothing")
            return "raised:ValueError", o
        head = "set=" if what == "set" else "enter="
        if tag != head + cur[key]:
            self.fail(f"{what}: returned {tag} but the previous value was {cur[key]}")
        want = dict(cur)
        want[key] = new
        if key == "l" and tok != "_":
            want["root"], want["dis"] = _canon(new)
        self.same(o, want, "state after the setter")
        return "ok", o

    def do_cfg(self, a, r, lv, cur, what):
        tag, o = self.next()
        want = dict(cur)
        ok = True
        if a != "_":
            ok = ok and a != "bad"
            want["a"] = a[1:]
        if r != "_":
            ok = ok and r != "bad"
            want["r"] = r[1:]
        if lv != "_":
            n = lvl_valid(lv)
            ok = ok and n is not None
            if n is not None:
                want["l"] = n
                want["root"], want["dis"] = _canon(n)
        if not ok:
            if tag != what + "!ValueError":
                self.fail(f"configuration: invalid argument gave {tag}")
            self.same(o, cur, "a configuration() call that raises must leave everything as it was")
            return "raised:ValueError", o
        head = "cfg=" if what == "cfg" else "enter="
        if tag != f"{head}{cur['a']}/{cur['r']}/{cur['l']}":
            self.fail(f"configuration: returned {tag}, previous values were {cur['a']}/{cur['r']}/{cur['l']}")
        self.same(o, want, "state after configuration()")
        return "ok", o

    def do_call(self, st, cur):
        real = st[0] == "real"
        tok = st[2]
        res = resolve_verbose(tok)
        info = dict(node=st[0], verbose=tok, depth=self.depth, invalid_seen=self.invalid_seen,
                    level=cur["l"], nested=_has_nested_verbose(st))   # level/invalid_seen: updated at the exit
        if res[0] == "invalid":
            self.invalid_seen = True
            tag, o = self.next()
            if tag != ("real=raised:ValueError" if real else "call!ValueError"):
                self.fail(f"invalid verbose {tok} gave {tag}, ValueError expected")
            self.same(o, cur, "a call with an invalid verbose must change nothing", clause="decorated-call-invalid-verbose", **info)
            return "raised:ValueError", o
        if real:
            tag, o = self.next()
            want_out = "raised:TypeError" if (st[3] == "x") else "ok"
            if tag != "real=" + want_out:
                self.fail(f"{st[1]}: {tag}, expected {want_out}")
            self.same(o, cur, f"after {st[1]}(verbose={tok}) everything must be as before the call", clause="decorated-call-exit", **info)
            return want_out, o
        tag, o = self.next()
        if tag != "in":
            self.fail(f"decorated body not entered: {tag}")
        self.same(o, cur, "entering a decorated call must not change the settings", keys=("a", "r", "l"))
        if res[0] == "none":
            self.same(o, cur, "verbose=None must not change the logging state", keys=("root", "dis"), clause="decorated-call-enter", **info)
        else:
            w = dict(o)
            w["root"], w["dis"] = _canon(res[1])
            self.same(o, w, f"inside a call with verbose={tok} the logging state must be that of {res[1]}", keys=("root", "dis"), clause="decorated-call-enter", **info)
        self.depth += 1
        out, c2 = self.seq(st[3], o)
        self.depth -= 1
        self.where = "decorated-call"
        tag, o2 = self.next()
        info["invalid_seen"] = self.invalid_seen
        info["level"] = c2["l"]
        if tag != "ret=" + out:
            self.fail(f"decorated call: {tag} but the body gave {out}")
        self.same(o2, c2, "the decorator must not touch the settings", keys=("a", "r", "l"))
        if res[0] == "none":
            self.same(o2, c2, "verbose=None: the logging state after the call is the one the body left", keys=("root", "dis"), clause="decorated-call-exit", **info)
        elif c2["l"] == cur["l"]:
            self.same(o2, cur, f"after a call with verbose={tok} the logging state must be exactly as before the call", keys=("root", "dis"), clause="decorated-call-exit", **info)
        else:
            w = dict(o2)
            w["root"], w["dis"] = _canon(c2["l"])
            self.same(o2, w, "the body changed the global level: the logging state must follow it", keys=("root", "dis"), clause="decorated-call-exit", **info)
        return out, o2


def _has_nested_verbose(st):
    if st[0] == "real":
        return len(st) > 5 and st[5] != "N"
    if st[0] != "call":
        return False
    for s in walk(st[3]):
        if s[0] in ("call", "real") and resolve_verbose(s[2])[0] == "level":
            return True
        if s[0] == "real" and len(s) > 5 and s[5] != "N":
            return True
    return False


def _walk_case(c):
    events = (c.impl_out or "").split(";")
    w = Walker(events)
    cur = dict(a="0", r="0", l="WARNING", root="30", dis="0")
    try:
        out, cur = w.seq(c.payload["prog"], cur)
        w.where = "trace"
        tag, o = w.next()
        if tag != "end=" + out:
            w.fail(f"program outcome {tag}, expected {out}")
        w.same(o, cur, "final observation")
        if w.i != len(w.ev):
            w.fail("more events than the program can produce")
    except _Fail as f:
        return str(f), w.info
    return None, None


def oracle(c):
    if c.impl_out is None:
        return "no implementation output"
    if c.impl_out.startswith("raised:"):
        return "the harness's interpreter raised: " + c.impl_out
    msg, _ = _walk_case(c)
    return msg


# ------------------------------------------------------------------ known findings
SIG_LEAK = "invalid-verbose-leaks-call-counter"
SIG_NESTED = "nested-call-verbosity-not-restored"
SIG_ZERO = "verbose-0-under-global-DISABLE-reenables-logging"


def classify(c):
    """A known signature only if (1) the whole observed trace is exactly what the Lean model of
    the *unpatched* decorator predicts for this program and (2) the first violated clause is at
    the exit of a decorated call in the situation that defect describes."""
    if c.line is None or c.impl_out is None:
        return None
    msg, info = _walk_case(c)
    if not msg:
        return None
    # anything that is not one of the known defects: grouped by the violated clause (these
    # signatures are never listed in known_findings.json, so they are reported as VIOLATION)
    other = "unexplained:" + ((info or {}).get("clause") or "trace")
    if not info or info.get("clause") != "decorated-call-exit":
        return other
    old = model_old(c)
    if old is None:
        try:
            old = fw.model_run(["C20.old " + c.line.split(" ", 1)[1]])[0]
        except Exception:
            return other
    if old != c.impl_out:
        return other
    if info["invalid_seen"]:
        return SIG_LEAK
    if info["depth"] >= 1 or info["nested"]:
        return SIG_NESTED
    r = resolve_verbose(info["verbose"])
    if info["level"] == "DISABLE" and r == ("level", "DISABLE"):
        return SIG_ZERO
    return other


# ------------------------------------------------------------------ shrinking
def _variants(prog):
    """Programs one step smaller: drop a statement, or replace a block by its body."""
    for i, st in enumerate(prog):
        yield prog[:i] + prog[i + 1:]
        body_ix = 3 if st[0] in ("with", "call") else 4 if st[0] == "wcfg" else 1 if st[0] == "try" else None
        if body_ix is not None:
            body = st[body_ix]
            yield prog[:i] + body + prog[i + 1:]
            for b in _variants(body):
                st2 = list(st)
                st2[body_ix] = b
                yield prog[:i] + [st2] + prog[i + 1:]


def shrink(c, run):
    sig = classify(c)

    def evaluate(prog):
        c2 = mk(dict(prog=prog))
        c2.impl_out = impl(c2)
        c2.oracle_fail = oracle(c2)
        return c2

    best = c
    budget = 400
    improved = True
    while improved and budget > 0:
        improved = False
        for v in _variants(best.payload["prog"]):
            budget -= 1
            if budget <= 0:
                break
            c2 = evaluate(v)
            if c2.oracle_fail:
                try:
                    c2.model_out = fw.model_run([c2.line])[0]
                except Exception:
                    pass
            if c2.oracle_fail and classify(c2) == sig:
                best = c2
                improved = True
                break
    if best is not c:
        try:
            best.model_out = fw.model_run([best.line])[0]
        except Exception:
            pass
        best.payload = dict(best.payload, shrunk_from=c.line)
    return best


def extra_coverage(run):
    e = env()
    return dict(
        decorated_functions_found=len(e.funcs),
        decorated_functions=[dict(name=qn, ways_to_call=len(e.recipes.get(qn) or [])) for qn in e.names],
        enum_table=fw.model_run(["C20.tab"])[0] if fw.EXE.exists() else None,
    )
