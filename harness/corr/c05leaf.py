"""C05, stream C05.leaf — the leaf of every `equals`: Container._equals on two numpy arrays.

A pair of arrays (x, y) is described by a JSON-able spec (kind, dtype, shape, masked-array form,
mask, values) and compared through the public API by three routes that end in the same leaf:

  data   cfdm.Data(x).equals(cfdm.Data(y), rtol, atol, ignore_data_type, ignore_fill_value)
  prop   two cfdm.Bounds whose only property has the values x / y       (ignore_data_type=True inside)
  pdata  two cfdm.Bounds whose only property is cfdm.Data(x) / cfdm.Data(y)   (Data.equals with ignore_data_type=True)
  pmixed a cfdm.Data-valued property against an array-valued one (either way round): never equal
  param  two cfdm.Datum whose only parameter has the values x / y       (ignore_data_type=True inside)

The Lean model (`Model/EqualityLeaf.lean`: the code statement by statement, np.allclose /
np.ma.allclose spelled out) gets what the public accessors show of the two operands (`Data.array`,
`get_property`, `get_parameter`): shape, dtype, kind, masked-array-ness, mask, underlying values.
The oracle is an independent restatement of the property ("same shape, same mask, every commonly
unmasked pair within tolerance; NaN in the same place on both sides is the same datum").
"""
import math
from fractions import Fraction

import numpy as np

from .. import fw
from ..fw import Case

_cfdm = None


def cfdm():
    global _cfdm
    if _cfdm is None:
        import cfdm as m
        _cfdm = m
    return _cfdm


KINDS = ["f8", "f8", "f4", "i8", "i4", "u1", "bool", "U", "U", "S", "O", "f8s", "f8s", "big"]
SHAPES = [(), (1,), (2,), (3,), (3,), (4,), (5,), (2, 2), (2, 3), (3, 1), (0,), (2, 0), (2, 1, 2)]
STRS = ["a", "b", "ab", "cd", "abc", "xyz", "d e", ""]
OBJS = [None, "a", "b", "ab", "xyz"]
RTOLS = [None, None, None, 0.0, 0.0, 2.0 ** -10, 0.25, 0.5]
ATOLS = [None, None, None, 0.0, 0.0, 0.5, 2.0, 8.0]
UNITS = [None, None, "m", "K", "days since 2000-01-01"]
CALS = [None, None, None, "noleap", "360_day"]


def _dtype_of(kind):
    return {"f8": "float64", "f8s": "float64", "f4": "float32", "i8": "int64", "big": "int64", "i4": "int32", "u1": "uint8",
            "bool": "bool", "U": None, "S": None, "O": "object"}[kind]


def _rand_value(rng, kind):
    if kind in ("f8", "f4"):
        return rng.randint(-40, 40) / rng.choice([1, 1, 2, 4])
    if kind == "f8s":
        r = rng.random()
        if r < 0.2:
            return rng.choice(["nan", "inf", "-inf", "inf", "-inf", "inf", "-inf"])
        return rng.randint(-40, 40) / rng.choice([1, 1, 2, 4])
    if kind in ("i8", "i4"):
        return rng.randint(-40, 40)
    if kind == "big":
        return rng.choice([2 ** 62, 2 ** 62 + 1, 2 ** 53, 2 ** 53 + 1, -(2 ** 60) - 1, 7])
    if kind == "u1":
        return rng.randint(0, 255)
    if kind == "bool":
        return rng.random() < 0.5
    if kind in ("U", "S"):
        return rng.choice(STRS)
    if kind == "O":
        return rng.choice(OBJS)
    raise fw.HarnessError(kind)


def rand_spec(rng, kind=None):
    kind = kind or rng.choice(KINDS)
    shape = list(rng.choice(SHAPES))
    n = int(np.prod(shape)) if shape else 1
    vals = [_rand_value(rng, kind) for _ in range(n)]
    form = rng.choice(["plain", "plain", "nomask", "mask", "mask", "mask"])
    mask = None
    if form == "mask":
        r = rng.random()
        if r < 0.15:
            mask = [False] * n
        elif r < 0.25:
            mask = [True] * n
        else:
            mask = [rng.random() < 0.3 for _ in range(n)]
    width = None
    if kind in ("U", "S"):
        width = max([len(v) for v in vals] + [1]) + rng.choice([0, 0, 0, 2])
    return dict(kind=kind, dtype=_dtype_of(kind), shape=shape, form=form, mask=mask, vals=vals, width=width)


def _pyval(v, kind):
    if isinstance(v, str) and kind in ("f8s", "f8", "f4") and v in ("nan", "inf", "-inf"):
        return float(v)
    if kind == "S":
        return v.encode() if isinstance(v, str) else v
    return v


def build(spec):
    """The numpy array a spec describes."""
    kind = spec["kind"]
    shape = tuple(spec["shape"])
    vals = [_pyval(v, kind) for v in spec["vals"]]
    if kind in ("U", "S"):
        dt = np.dtype(("U" if kind == "U" else "S") + str(spec["width"]))
    else:
        dt = np.dtype(spec["dtype"])
    a = np.empty(len(vals), dtype=dt)
    for i, v in enumerate(vals):
        a[i] = v
    a = a.reshape(shape)
    if spec["form"] == "plain":
        return a
    if spec["form"] == "nomask":
        return np.ma.array(a)
    return np.ma.array(a, mask=np.array(spec["mask"], dtype=bool).reshape(shape))


# -------------------------------------------------------------------------
# y from x
# -------------------------------------------------------------------------
def _other_value(rng, kind, v):
    """A value of the same kind that differs from v beyond every tolerance of the grid."""
    if kind in ("f8", "f4", "f8s"):
        if isinstance(v, str):
            return float(rng.randint(-40, 40))
        return 4 * v + 100 if v >= 0 else 4 * v - 100
    if kind in ("i8", "i4"):
        return 4 * v + 100 if v >= 0 else 4 * v - 100
    if kind == "big":
        return v + 1 if v > 0 else v - 1
    if kind == "u1":
        return (v + 128) % 256
    if kind == "bool":
        return not v
    if kind in ("U", "S"):
        c = [s for s in STRS if s != v and len(s) == len(v)] or [s for s in STRS if s != v]
        return rng.choice(c)
    if kind == "O":
        return rng.choice([o for o in OBJS if o != v])
    raise fw.HarnessError(kind)


TRANSFORMS = ["copy", "copy", "form", "form", "hidden", "hidden", "maskflip", "maskflip", "maskflip", "value", "value", "value",
              "near", "near", "nan-one", "nan-both", "inf-sign", "inf-fin", "shape", "shape", "dtype", "dtype", "kind", "fresh"]


class Skip(Exception):
    pass


def derive(rng, x, how):
    y = dict(x, vals=list(x["vals"]), mask=None if x["mask"] is None else list(x["mask"]), shape=list(x["shape"]))
    n = len(y["vals"])
    kind = x["kind"]
    masked = [i for i in range(n) if y["mask"] and y["mask"][i]]
    unmasked = [i for i in range(n) if not (y["mask"] and y["mask"][i])]
    if how == "copy":
        return y
    if how == "form":
        if masked:
            raise Skip
        y["form"] = rng.choice([f for f in ("plain", "nomask", "mask") if f != x["form"]])
        y["mask"] = [False] * n if y["form"] == "mask" else None
        return y
    if how == "hidden":
        if not masked:
            raise Skip
        i = rng.choice(masked)
        if kind == "f8s" and rng.random() < 0.5:
            y["vals"][i] = rng.choice(["nan", "inf", "-inf"])
        else:
            y["vals"][i] = _other_value(rng, kind, y["vals"][i])
        return y
    if how == "maskflip":
        if n == 0:
            raise Skip
        i = rng.randrange(n)
        if y["mask"] is None:
            y["form"] = "mask"
            y["mask"] = [False] * n
        y["mask"][i] = not y["mask"][i]
        return y
    if how == "value":
        if not unmasked:
            raise Skip
        i = rng.choice(unmasked)
        y["vals"][i] = _other_value(rng, kind, y["vals"][i])
        return y
    if how == "near":
        if kind not in ("f8", "f8s") or not unmasked:
            raise Skip
        i = rng.choice(unmasked)
        v = y["vals"][i]
        if isinstance(v, str):
            raise Skip
        if rng.random() < 0.4:
            nv = float(np.nextafter(v, np.inf))
        else:
            nv = v + rng.choice([0.25, 0.5, 2.0])
        y["vals"][i] = nv
        return y
    if how in ("nan-one", "nan-both", "inf-sign", "inf-fin"):
        if kind not in ("f8", "f8s", "f4") or not unmasked:
            raise Skip
        i = rng.choice(unmasked)
        if how == "nan-one":
            if y["vals"][i] == "nan":
                y["vals"][i] = 1.0
            else:
                y["vals"][i] = "nan"
            return y
        if how == "nan-both":
            if rng.random() < 0.5:
                raise Skip  # ends in the open finding on NaN: kept, thinned
            x["vals"][i] = "nan"
            y["vals"][i] = "nan"
            return y
        if how == "inf-sign":
            x["vals"][i] = rng.choice(["inf", "-inf"])
            y["vals"][i] = "-inf" if x["vals"][i] == "inf" else "inf"
            return y
        x["vals"][i] = rng.choice(["inf", "-inf"])
        y["vals"][i] = float(rng.randint(-40, 40))
        if rng.random() < 0.5:
            x["vals"][i], y["vals"][i] = y["vals"][i], x["vals"][i]
        return y
    if how == "shape":
        sh = y["shape"]
        if rng.random() < 0.5 and n > 0:
            # same elements, other shape
            cands = [[n], [1, n], [n, 1]] + ([[2, n // 2]] if n % 2 == 0 and n else [])
            cands = [c for c in cands if c != sh]
            if not cands:
                raise Skip
            y["shape"] = rng.choice(cands)
        else:
            if len(sh) != 1 or n < 1:
                raise Skip
            y["shape"] = [n - 1]
            y["vals"] = y["vals"][:-1]
            if y["mask"] is not None:
                y["mask"] = y["mask"][:-1]
        return y
    if how == "dtype":
        # another data type holding the same values
        vals = [v for v in y["vals"]]
        if kind in ("U", "S"):
            y["width"] = x["width"] + rng.choice([1, 3])
            return y
        new = {"f8": ["f4"], "f4": ["f8"], "i8": ["i4", "f8"], "i4": ["i8", "f8"], "u1": ["i4", "f8"], "bool": ["u1", "i4"],
               "f8s": ["f4"], "big": [], "O": []}[kind]
        if not new:
            raise Skip
        k2 = rng.choice(new)
        if kind == "bool":
            vals = [int(v) for v in vals]
        if k2 in ("f8", "f4") and kind in ("i8", "i4", "u1"):
            vals = [float(v) for v in vals]
        if k2 == "f4" and any(not isinstance(v, str) and float(np.float32(v)) != v for v in vals):
            raise Skip
        y["kind"] = "f8s" if kind == "f8s" else k2
        y["dtype"] = _dtype_of(k2)
        y["vals"] = vals
        return y
    if how == "kind":
        # same shape and mask, elements of another kind
        k2 = rng.choice([k for k in ("f8", "i8", "U", "S", "O", "bool") if k != kind])
        y["kind"] = k2
        y["dtype"] = _dtype_of(k2)
        if kind == "U" and k2 == "S" or kind == "S" and k2 == "U":
            y["width"] = x["width"]
        else:
            y["vals"] = [_rand_value(rng, k2) for _ in range(n)]
            y["width"] = max([len(v) for v in y["vals"]] + [1]) if k2 in ("U", "S") else None
        return y
    if how == "fresh":
        z = rand_spec(rng, kind if rng.random() < 0.7 else None)
        if rng.random() < 0.7 and int(np.prod(z["shape"])) == n:
            z["shape"] = list(x["shape"])
        return z
    raise fw.HarnessError(how)


def gen_payload(rng):
    for _ in range(50):
        x = rand_spec(rng)
        how = rng.choice(TRANSFORMS)
        try:
            y = derive(rng, x, how)
        except Skip:
            continue
        route = rng.choice(["data", "data", "data", "data", "prop", "prop", "param", "param", "pdata", "pmixed"])
        o = dict(rtol=None, atol=None, idt=False, ifv=False)
        if rng.random() < 0.5:
            o["rtol"] = rng.choice(RTOLS)
            o["atol"] = rng.choice(ATOLS)
        if rng.random() < 0.3:
            o["idt"] = True
        if rng.random() < 0.25:
            o["ifv"] = True
        meta = dict(xfill=None, yfill=None, xunits=None, yunits=None, xcal=None, ycal=None)
        if route in ("data", "pdata"):
            u = rng.choice(UNITS)
            cal = rng.choice(CALS)
            # (a fill value must be convertible to the data type of both arrays)
            fillable = all(z["kind"] in ("f8", "f4", "f8s", "i8", "i4", "big") for z in (x, y))
            fv = rng.choice([None, None, -999.0, -1.0]) if fillable else None
            meta.update(xfill=fv, yfill=fv, xunits=u, yunits=u, xcal=cal, ycal=cal)
            r = rng.random()
            if r < 0.06 and fillable:
                meta["yfill"] = rng.choice([v for v in (None, -999.0, -1.0) if v != fv])
            elif r < 0.10:
                meta["yunits"] = rng.choice([v for v in UNITS if v != u])
            elif r < 0.13:
                meta["ycal"] = rng.choice([v for v in CALS if v != cal])
        swap = rng.random() < 0.3
        if swap:
            x, y = y, x
        return dict(leaf=1, how=how, route=route, x=x, y=y, opts=o, meta=meta, flip=rng.random() < 0.5)
    raise fw.HarnessError("no leaf payload")


# -------------------------------------------------------------------------
# the case
# -------------------------------------------------------------------------
def _operands(p):
    """The two cfdm objects compared, and the arrays the leaf will see (through public accessors)."""
    C = cfdm()
    ax, ay = build(p["x"]), build(p["y"])
    m = p["meta"]
    if p["route"] == "data":
        a = C.Data(ax, units=m["xunits"], calendar=m["xcal"], fill_value=m["xfill"])
        b = C.Data(ay, units=m["yunits"], calendar=m["ycal"], fill_value=m["yfill"])
        return a, b, a.array, b.array
    if p["route"] in ("pdata", "pmixed"):
        da = C.Data(ax, units=m["xunits"], calendar=m["xcal"], fill_value=m["xfill"])
        db = C.Data(ay, units=m["yunits"], calendar=m["ycal"], fill_value=m["yfill"])
        if p["route"] == "pmixed":
            a = C.Bounds(properties={"p": da})
            b = C.Bounds(properties={"p": ay})
            if p.get("flip"):
                a, b = b, a
            return a, b, da.array, np.asanyarray(ay)
        a = C.Bounds(properties={"p": da})
        b = C.Bounds(properties={"p": db})
        return a, b, a.get_property("p").array, b.get_property("p").array
    if p["route"] == "prop":
        a = C.Bounds(properties={"p": ax})
        b = C.Bounds(properties={"p": ay})
        return a, b, np.asanyarray(a.get_property("p")), np.asanyarray(b.get_property("p"))
    a = C.Datum(parameters={"p": ax})
    b = C.Datum(parameters={"p": ay})
    return a, b, np.asanyarray(a.get_parameter("p")), np.asanyarray(b.get_parameter("p"))


def tol_fracs(o):
    C = cfdm()
    rt = Fraction(float(C.rtol())) if o["rtol"] is None else Fraction(float(o["rtol"]))
    at = Fraction(float(C.atol())) if o["atol"] is None else Fraction(float(o["atol"]))
    return at, rt


class _Intern:
    def __init__(self):
        self.toks = {}
        self.dtypes = {}
        self.names = {}
        self.fracs = []

    def tok(self, v):
        if isinstance(v, (np.str_, str)):
            k = ("str", str(v))
        elif isinstance(v, (np.bytes_, bytes)):
            k = ("bytes", bytes(v))
        else:
            k = (type(v).__name__, repr(v))
        if k not in self.toks:
            self.toks[k] = len(self.toks)
        return "s%d" % self.toks[k]

    def val(self, v, numeric):
        if numeric:
            if isinstance(v, (bool, np.bool_)):
                v = int(v)
            if isinstance(v, (int, np.integer)):
                fr = Fraction(int(v))
            else:
                f = float(v)
                if math.isnan(f):
                    return "nan"
                if math.isinf(f):
                    return "inf" if f > 0 else "-inf"
                fr = Fraction(f)
            self.fracs.append(fr)
            return fr
        return self.tok(v)

    def dtype(self, dt):
        s = str(dt)
        if s not in self.dtypes:
            self.dtypes[s] = len(self.dtypes)
        return self.dtypes[s]

    def name(self, s):
        if s is None:
            return None
        if s not in self.names:
            self.names[s] = len(self.names)
        return self.names[s]


def _arr_tree(it, a):
    numeric = a.dtype.kind in "biuf"
    kind = 0 if numeric else (1 if a.dtype.kind in "SU" else 2)
    is_ma = np.ma.isMA(a)
    mask = None
    if is_ma and a.mask is not np.ma.nomask:
        mask = tuple(int(b) for b in np.ma.getmaskarray(a).ravel().tolist())
    data = np.ma.getdata(a).ravel()
    if a.dtype.kind in "SU":
        vals = tuple(it.tok(v) for v in data)
    else:
        vals = tuple(it.val(v, numeric) for v in (data.tolist() if a.dtype.kind != "O" else list(data)))
    return ("A", tuple(int(n) for n in a.shape), it.dtype(a.dtype), kind, int(is_ma), mask, vals)


def _render(t, k):
    if t is None:
        return "_"
    if isinstance(t, Fraction):
        v = t * (1 << k)
        assert v.denominator == 1
        return str(v.numerator)
    if isinstance(t, (int, np.integer)):
        return str(int(t))
    if isinstance(t, str):
        return t
    if isinstance(t, tuple):
        return "(" + ",".join(_render(e, k) for e in t) + ")"
    raise fw.HarnessError(f"cannot render {t!r}")


_live = {}


def mk_case(p):
    a, b, xa, ya = _operands(p)
    o = p["opts"]
    it = _Intern()
    tx, ty = _arr_tree(it, xa), _arr_tree(it, ya)
    if p["route"] in ("data", "pdata"):
        def fill(d):
            fv = d.get_fill_value(None)
            return None if fv is None else it.val(fv, True)
        da, db = (a, b) if p["route"] == "data" else (a.get_property("p"), b.get_property("p"))
        tx = ("D", tx, fill(da), it.name(da.get_units(None)), it.name(da.get_calendar(None)))
        ty = ("D", ty, fill(db), it.name(db.get_units(None)), it.name(db.get_calendar(None)))
    at, rt = tol_fracs(o)
    k = 0
    for fr in it.fracs:
        if fr.denominator > 1:
            k = max(k, fr.denominator.bit_length() - 1)
    # a Data-valued property is compared by Data.equals with ignore_data_type=True
    ot = (at.numerator, at.denominator, rt.numerator, rt.denominator, k, int(o["idt"] or p["route"] == "pdata"), int(o["ifv"]))
    line = f"C05.leaf o={_render(ot, k)} route={'data' if p['route'] in ('data', 'pdata') else 'value'} x={_render(tx, k)} y={_render(ty, k)}"
    if p["route"] == "pmixed":
        line = None  # no array comparison takes place: Data.equals(<not a Data>) is False
    tags = ["leaf:" + p["how"], "route:" + p["route"], "dk:" + p["x"]["kind"], "form:%s/%s" % (p["x"]["form"], p["y"]["form"])]
    if o["idt"]:
        tags.append("opt:idt")
    if o["ifv"]:
        tags.append("opt:ifv")
    if o["rtol"] is not None or o["atol"] is not None:
        tags.append("opt:tol")
    c = Case("C05.leaf", p, line, nontrivial=True, tags=tags)
    _live[id(c)] = (a, b, xa, ya)
    return c


def impl(c):
    live = _live.pop(id(c), None)
    if live is None:
        cc = mk_case(c.payload)
        live = _live.pop(id(cc))
        c.line = cc.line
    a, b, xa, ya = live
    p = c.payload
    o = p["opts"]
    kw = {}
    if o["rtol"] is not None:
        kw["rtol"] = o["rtol"]
    if o["atol"] is not None:
        kw["atol"] = o["atol"]
    if o["ifv"]:
        kw["ignore_fill_value"] = True
    if o["idt"]:
        kw["ignore_data_type"] = True
    c.extra = expected(p, xa, ya)
    try:
        r = a.equals(b, **kw)
    except Exception as ex:
        return "raised:" + fw.exc_enum(ex)
    return "True" if r is True else "False" if r is False else "nonbool:" + type(r).__name__


# -------------------------------------------------------------------------
# the oracle: what the property says, restated without cfdm and without numpy's allclose
# -------------------------------------------------------------------------
def _same_datum(u, v, numeric, at, rt, notes):
    if numeric:
        fu, fv = float(u), float(v)
        if math.isnan(fu) or math.isnan(fv):
            if math.isnan(fu) and math.isnan(fv):
                notes.add("nan-pair")
                return True
            return False
        if math.isinf(fu) or math.isinf(fv):
            return fu == fv
        U = Fraction(int(u)) if isinstance(u, (int, np.integer, bool, np.bool_)) else Fraction(fu)
        V = Fraction(int(v)) if isinstance(v, (int, np.integer, bool, np.bool_)) else Fraction(fv)
        if U != V and (abs(U) > 2 ** 53 or abs(V) > 2 ** 53) and isinstance(u, (int, np.integer)):
            notes.add("bigint")
        return abs(U - V) <= at + rt * abs(V)
    if type(u) is not type(v) and not (isinstance(u, str) and isinstance(v, str)) and not (isinstance(u, bytes) and isinstance(v, bytes)):
        return False
    return u == v


def expected(p, xa, ya):
    """('True'|'False', notes)."""
    o = p["opts"]
    m = p["meta"]
    notes = set()
    if p["route"] == "pmixed":
        return "False", notes
    if tuple(xa.shape) != tuple(ya.shape):
        return "False", notes
    idt = o["idt"] or p["route"] != "data"
    if p["route"] in ("data", "pdata"):
        if not o["ifv"] and m["xfill"] != m["yfill"]:
            return "False", notes
        if not idt and xa.dtype != ya.dtype:
            return "False", notes
        if m["xunits"] != m["yunits"] or m["xcal"] != m["ycal"]:
            return "False", notes
    if not idt and xa.dtype != ya.dtype and xa.dtype.kind not in "SU" and ya.dtype.kind not in "SU":
        return "False", notes
    mx = np.ma.getmaskarray(xa).ravel().tolist()
    my = np.ma.getmaskarray(ya).ravel().tolist()
    if mx != my:
        return "False", notes
    numeric = xa.dtype.kind in "biuf" and ya.dtype.kind in "biuf"
    at, rt = tol_fracs(o)
    dx = np.ma.getdata(xa).ravel()
    dy = np.ma.getdata(ya).ravel()
    lx = dx.tolist() if xa.dtype.kind != "O" else list(dx)
    ly = dy.tolist() if ya.dtype.kind != "O" else list(dy)
    ok = True
    for u, v, mm in zip(lx, ly, mx):
        if mm:
            continue
        if not _same_datum(u, v, numeric, at, rt, notes):
            ok = False
    return ("True" if ok else "False"), notes


def oracle(c):
    exp, notes = c.extra
    if c.impl_out != exp:
        return f"expected {exp} by the declarative array relation ({c.payload['how']}, {c.payload['route']}), got {c.impl_out}"
    return None


def classify(c):
    exp, notes = c.extra if isinstance(c.extra, tuple) else (None, set())
    out = str(c.impl_out)
    if exp == "True" and out == "False" and "nan-pair" in notes:
        return "nan-datum-never-equal-even-to-its-copy"
    if exp == "False" and out == "True" and "bigint" in notes:
        return "integers-beyond-2^53-compared-as-float64"
    return f"unlisted:leaf:{c.payload['how']}:{c.payload['route']}:got-{out}:expected-{exp}"
