"""C09 — fields sharing a file do not interfere with each other.

Streams
  C09.wr    a family of 2-5 fields/domains derived from a common ancestor by controlled perturbation
            (harness/gen/fields_C09.py), written to ONE dataset in a given order.
            model (Cfdm.Sharing.writeAll / readAll):
              (1) abstract(fields) -> the dataset the model writes, compared with abstract(real file read with
                  netCDF4 only): variables, dimensions, every reference attribute (the sharing graph), names the
                  input pinned literally, the others up to one consistent bijection;
              (2) what the model reads back from its dataset, compared with abstract(cfdm.read(real file)).
            oracle: every construct has exactly one partner among cfdm.read(file) (cfdm `equals` both ways AND the
              independent structural fingerprint), the partners are those of the single-file writes
              (`cfdm.write([f])` for each f), the same for every ordering (all orderings up to 4 fields).
  C09.seed  the same oracle on families outside the model (DSG ragged arrays, gathered arrays, geometries,
            interior rings from cfdm/test/create_test_files.py): oracle only.

The model mirrors the code with fixes/C09-*.patch applied; the flags `old=` of the model output say which
of the repaired behaviours the input would trigger in the code as it is, and `ft=1` that a formula_terms attribute
is overwritten on a shared coordinate variable (open finding, no patch).
"""
import hashlib
import itertools
import json
import os
import re
import shutil
import tempfile

import numpy as np

from .. import fw
from .. import fingerprint as FP
from ..fw import Case
from ..gen import fields_C09 as G
from ..gen import props_C09 as P

REQUIRED = [
    "C09_registry_sound",
    "C09_share_only_equal",
    "C09_own_content",
    "C09_variables_never_rewritten",
    "C09_names_unique",
    "C09_netcdfName_fresh",
    "C09_netcdfNameOld_counterexample",
    "C09_dimension_reuse_injective",
    "C09_dimension_reuseOld_counterexample",
    "C09_data_variable_reuseOld_counterexample",
    "C09_reader_stateless",
    "C09_readerOld_vertical_crs_counterexample",
    "C09_readerOld_scalar_string_counterexample",
    "C09_formula_terms_overwrite_counterexample",
    "C09_separate_partial",
    "C09_order_partial",
    "C09_global_only_if_every_field_equal",
    "C09_own_properties_read_back",
    "C09_no_property_inherited",
    "C09_properties_separate",
    "C09_properties_order_independent",
    "C09_properties_order_multiset",
    "C09_forced_global_counterexample",
    "C09_global_skip_rule_counterexample",
    "C09_cell_method_axis_is_own_scalar_coordinate",
    "C09_reader_scalar_axis_of_cell_method",
    "C09_group_own_properties_read_back",
    "C09_group_no_property_inherited",
    "C09_group_model_extends_flat",
    "C09_group_attribute_old_counterexample",
    "C09_formula_terms_acquired_counterexample",
    "C09_dimension_nameOld_counterexample",
    "C09_group_properties_order_independent",
    "C09_group_properties_separate",
]
BUDGET = {"quick": 128, "thorough": 1400}
QUICK_JOBS = 8
TIME_LIMIT = {"quick": 170, "thorough": 1400}
RULE = (
    "C09.wr / C09.seed: families of 2-5 constructs (fields and domains) derived from one ancestor (hand-built lat/lon, "
    "hybrid-height and scalar-axis-first fields, cfdm.example_field 0-7, random fields of harness/gen/fields.py, DSG/"
    "gathered/geometry seed files) by 1-3 perturbations each: equal metadata + other data, exact duplicate, coordinate "
    "values / bounds / units / one property / dtype changed, equal content under other pinned netCDF names, same pinned "
    "name for other content, pinned dimension names, constructs without default names, unlimited, dimension coordinate "
    "removed, auxiliary coordinate copied from a domain ancillary, grid mapping / datum added, changed, removed, "
    "formula-terms datum / domain ancillary changed, cell methods, subspace / transpose, domain of the field, a "
    "description-of-file-contents property set / changed / removed on one sibling, per candidate property every sibling "
    "in one of the states A / B / absent, shared scalar coordinates under a cell method whose axis identifier differs "
    "from the reader's, unrelated constructs in which one identifier plays different roles; every ordering for <= 3 "
    "fields (quick) / <= 4 (thorough), a sample beyond.  C09.gp: 2-4 small fields x per candidate property (description-"
    "of-file-contents attributes, free names) the pattern all / first only / last only / one only / all but first / all "
    "but last / one differs / first differs / random x global_attributes= / variable_attributes= / file_descriptors= / "
    "nc_set_global_attribute flags and forced values x (25%) netCDF groups (same group, sub-group, root + group, two "
    "groups, deep) with nc_set_group_attribute flags; every ordering.  non-trivial = wr: the file written holds >= 1 "
    "variable referenced by >= 2 data variables or >= 2 variables with equal content; gp: always (>= 2 fields); "
    "distinct = distinct (recipe / payload, orders)"
)
ASSUMPTIONS = [
    "the comparison basis is what cfdm.read returns for cfdm.write([f]) of each construct alone (C01 owns the single-"
    "construct round trip); a construct that cannot be written or read alone is not a C09 case",
    "netCDF variable/dimension names: a shared variable carries the name the first equal construct gave it and a name "
    "already taken gets a _<n> suffix, so names are compared only through the model (stream 1, literal for pinned "
    "names) and by theorem C09_names_*; the oracle compares constructs with cfdm equals + fingerprint(names=False)",
    "domains are read with cfdm.read(domain=True); variables referenced only by domain variables come back as extra "
    "fields of cfdm.read(domain=False) by design and are not counted",
    "model scope (C09.wr): no groups, compression, geometry, external variables, string-length dimensions, append mode; "
    "those are covered by the oracle-only stream; C09.gp: group attributes are flags only (a group attribute with a value of "
    "its own replaces the property for the whole group by design), Conventions is left out of every comparison",
    "C09.gp compares the implementation with the model of the writer as patched by fixes/C09-group-attribute-placement.patch "
    "and, where the unpatched placement differs (model flag old=1), accepts the model's account of the unpatched writer; what "
    "is read back is judged by the oracle in either case",
    "files holding a scalar string coordinate are read through netcdf_backend='h5netcdf' (with the netCDF4 backend the "
    "repeated re-opening of the file being read crashes the interpreter in netCDF-C here)",
]

_cfdm = None
_tmp = None


def cfdm():
    global _cfdm
    if _cfdm is None:
        import logging
        import cfdm as m
        m.log_level("DISABLE")
        logging.disable(logging.CRITICAL)
        _cfdm = m
    return _cfdm


def tmpdir():
    global _tmp
    if _tmp is None or not os.path.isdir(_tmp):
        import atexit
        _tmp = tempfile.mkdtemp(prefix="c09")
        atexit.register(shutil.rmtree, _tmp, ignore_errors=True)
    return _tmp


_count = [0]


def tmpfile():
    _count[0] += 1
    return os.path.join(tmpdir(), f"f{os.getpid()}_{_count[0]}.nc")


# =========================================================================== abstraction of the inputs
class Ids:
    """content identities: JSON text -> small integer (0 is reserved)."""

    def __init__(self):
        self.d = {}

    def __call__(self, obj):
        s = json.dumps(obj, sort_keys=True, default=str)
        if s not in self.d:
            self.d[s] = len(self.d) + 1
        return self.d[s]


LATLON = {"grid_mapping_name": "latitude_longitude"}


def esc(s):
    s = str(s)
    if re.search(r"[|;,:+/~=^.]", s) or s == "_" or s == "":
        raise NotModelled("name " + s)
    return s.replace(" ", "%20")


def oname(s):
    return "_" if s is None else esc(s)


class NotModelled(Exception):
    pass


def main_fp(c, extra_props=None):
    """what `equals` compares for a construct, without its type, bounds and netCDF names"""
    fp = FP.fp_construct(c, names=False)
    fp.pop("type", None)
    fp.pop("bounds", None)
    if extra_props:
        props = dict(fp.get("props", []))
        for k, v in extra_props.items():
            props.setdefault(k, json.dumps(v))
        fp["props"] = sorted(props.items())
    return fp


def bounds_fp(c):
    b = c.get_bounds(None) if hasattr(c, "get_bounds") else None
    if b is None or b.get_data(None) is None:
        return None
    return dict(props=FP.fp_props(b), data=FP.fp_data(b.get_data(None)))


def _pnorm(v):
    """parameter values: numpy scalars/arrays and Python numbers of the same value are the same parameter"""
    if isinstance(v, np.ndarray):
        return [_pnorm(x) for x in v.tolist()]
    if isinstance(v, np.generic):
        v = v.item()
    if isinstance(v, (list, tuple)):
        return [_pnorm(x) for x in v]
    if isinstance(v, bool):
        return v
    if isinstance(v, (int, float)):
        return float(v)
    if hasattr(v, "array") and hasattr(v, "get_units"):
        return ["data", _pnorm(v.array), v.get_units(None)]
    return str(v)


def params_fp(d):
    return sorted((k, json.dumps(_pnorm(v))) for k, v in d.items())


KINDS = [("dim", "dimension_coordinate"), ("aux", "auxiliary_coordinate"), ("dan", "domain_ancillary"),
         ("msr", "cell_measure"), ("fan", "field_ancillary")]


def abstract_field(f, ids):
    """one field/domain -> (encoded text, info)"""
    C = cfdm()
    dom = type(f).__name__ == "Domain"
    if f.constructs.filter_by_type("domain_topology", "cell_connectivity", todict=True):
        raise NotModelled("ugrid")
    if not dom and f.has_data() and f.data.get_compression_type():
        raise NotModelled("compressed")
    axes = sorted(f.domain_axes(todict=True).items())
    aidx = {k: i for i, (k, _) in enumerate(axes)}
    data_axes = set(aidx) if dom else set(f.get_data_axes(default=()))
    if not dom and not f.has_data():
        raise NotModelled("field without data")
    da = f.constructs.data_axes()
    refs = list(f.coordinate_references(todict=True).items())
    coords = f.coordinates(todict=True)
    # the writer sets computed_standard_name on the owning coordinate of a formula-terms reference
    extra = {}
    vref_info = []
    for rk, r in refs:
        p = r.coordinate_conversion.parameters()
        if not p.get("standard_name", False):
            continue
        for t, v in p.items():
            if t not in ("standard_name", "computed_standard_name") and v is not None:
                raise NotModelled("formula-terms parameter")
        owners = [k for k in r.coordinates() if k in coords and coords[k].get_property("standard_name", None) == p["standard_name"]]
        owner = owners[0] if len(owners) == 1 else None
        csn = p.get("computed_standard_name")
        if owner is not None and csn is not None and coords[owner].ndim == 1:
            x = coords[owner].get_property("computed_standard_name", None)
            if x is None:
                extra[owner] = {"computed_standard_name": csn}
            elif x != csn:
                raise NotModelled("computed_standard_name conflict")
        vref_info.append((r, owner))
    cons = []
    cidx = {}
    for kind, long in KINDS:
        if dom and kind == "fan":
            continue
        d = f.constructs.filter_by_type(long, todict=True)
        keys = list(d) if kind in ("dim", "fan") else sorted(d)
        for k in keys:
            c = d[k]
            if c.get_data(None) is None:
                raise NotModelled("construct without data")
            if c.data.get_compression_type():
                raise NotModelled("compressed construct")
            if hasattr(c, "get_geometry") and c.get_geometry(None) or (hasattr(c, "has_interior_ring") and c.has_interior_ring()):
                raise NotModelled("geometry")
            if hasattr(c, "nc_get_external") and c.nc_get_external():
                raise NotModelled("external")
            if hasattr(c, "is_climatology") and c.is_climatology():
                raise NotModelled("climatology")
            ax = [aidx[a] for a in da.get(k, ())]
            if not ax:
                raise NotModelled("construct without axes")
            if kind == "dim" and len(ax) != 1:
                raise NotModelled("n-d dimension coordinate")
            sig = ids(main_fp(c, extra.get(k)))
            bfp = bounds_fp(c)
            if bfp is None:
                btxt = "_"
            else:
                b = c.get_bounds()
                btxt = "/".join([str(ids(bfp)), str(b.data.shape[-1]), oname(b.nc_get_variable(None)), oname(b.nc_get_dimension(None))])
            cidx[k] = len(cons)
            cons.append(":".join([kind, str(sig), "+".join(map(str, ax)), btxt, oname(c.nc_get_variable(None)),
                                  oname(c.get_property("standard_name", None)), "1" if c.data.dtype.kind in "SUO" else "0"]))
    gms = []
    tab = {}
    for rk, r in refs:
        p = r.coordinate_conversion.parameters()
        if not p.get("grid_mapping_name", False):
            continue
        if r.coordinate_conversion.domain_ancillaries():
            raise NotModelled("grid mapping with domain ancillaries")
        pid = 0 if p == LATLON else ids(["params", params_fp(p)])
        dp = r.datum.parameters()
        if set(dp) & set(p):
            raise NotModelled("parameter both datum and conversion")
        did = "_" if not dp else str(ids(["datum", params_fp(dp)]))
        cs = [cidx[k] for k in r.coordinates() if k in cidx and k in coords]
        gms.append(":".join([str(pid), did, "+".join(map(str, sorted(cs))), oname(r.nc_get_variable(None)), esc(p["grid_mapping_name"])]))
        tab[pid] = p["grid_mapping_name"]
    vrefs = []
    for r, owner in vref_info:
        dp = r.datum.parameters()
        did = "_" if not dp else str(ids(["datum", params_fp(dp)]))
        terms = []
        dans = f.constructs.filter_by_type("domain_ancillary", todict=True)
        for t, k in r.coordinate_conversion.domain_ancillaries().items():
            if k is not None and k in dans:
                terms.append(f"{esc(t)}~{cidx[k]}")
        vrefs.append(":".join(["_" if owner is None else str(cidx[owner]), did, "+".join(terms)]))
    cms = []
    if not dom:
        for k, cm in f.cell_methods(todict=True).items():
            ax = ["i" + str(aidx[a]) if a in aidx else "n" + esc(a) for a in cm.get_axes(())]
            mid = ids(["cm", cm.get_method(None), sorted((q, json.dumps(FP._pval(v), default=str)) for q, v in cm.qualifiers().items())])
            cms.append("+".join(ax) + ":" + str(mid))
    # a field's own content has the same identity as a construct with these properties and data
    fsig = ids(["domain", FP.fp_props(f)]) if dom else ids(main_fp(f))
    atxt = ",".join(":".join([str(a.get_size()), oname(a.nc_get_dimension(None)), "1" if k in data_axes else "0",
                              "1" if a.nc_is_unlimited() else "0"]) for k, a in axes)
    dax = [] if dom else [aidx[a] for a in f.get_data_axes(default=())]
    txt = ";".join(["1" if dom else "0", str(fsig), oname(f.nc_get_variable(None)), oname(f.get_property("standard_name", None)),
                    atxt, ",".join(cons), ",".join(gms), ",".join(vrefs), ",".join(cms), "+".join(map(str, dax))])
    pinned = set()
    for x in [f] + [a for _, a in axes] + list(f.constructs.filter_by_data(todict=True).values()) + [r for _, r in refs]:
        for fn in ("nc_get_variable", "nc_get_dimension"):
            g = getattr(x, fn, None)
            if g is not None:
                v = g(None)
                if v is not None:
                    pinned.add(v)
        b = x.get_bounds(None) if hasattr(x, "get_bounds") else None
        if b is not None:
            for fn in ("nc_get_variable", "nc_get_dimension"):
                v = getattr(b, fn)(None)
                if v is not None:
                    pinned.add(v)
    return txt, tab, pinned


def gm_table(tab):
    T = cfdm().read_write.netcdf.NetCDFRead.cf_coordinate_reference_coordinates(None)
    rows = []
    tab = dict(tab)
    tab.setdefault(0, "latitude_longitude")  # the grid mapping the writer makes up for a vertical datum
    for pid, name in sorted(tab.items()):
        rows.append(f"{pid}~" + "+".join(esc(n) for n in T.get(name, ())))
    return ",".join(rows) if rows else "_"


def model_line(fs, ids=None, orders=None):
    """protocol line for a list of constructs (None when outside the model); `orders` = index lists, the first
    one being the order whose dataset the model prints (the flags are or-ed over all of them)"""
    ids = ids or Ids()
    txts, tab, pinned = [], {}, set()
    try:
        for f in fs:
            t, tb, pn = abstract_field(f, ids)
            txts.append(t)
            tab.update(tb)
            pinned |= pn
        line = "C09.wr fields=" + "|".join(txts) + " tab=" + gm_table(tab)
        if orders:
            line += " orders=" + ",".join("+".join(map(str, o)) for o in orders)
    except NotModelled:
        return None, None, None
    return line, ids, pinned


# =========================================================================== abstraction of a dataset (netCDF4 only)
REF_ATTS = ("bounds", "climatology", "coordinates", "cell_measures", "ancillary_variables", "grid_mapping", "formula_terms",
            "geometry", "node_coordinates", "node_count", "part_node_count", "interior_ring", "compress", "sample_dimension",
            "instance_dimension")


def abstract_file(path):
    import netCDF4
    nc = netCDF4.Dataset(path, "r")
    try:
        dims = [(k, len(v)) for k, v in nc.dimensions.items()]
        vs = []
        for k, v in nc.variables.items():
            at = {a: v.getncattr(a) for a in v.ncattrs()}
            d = dict(name=k, dims=list(v.dimensions), bounds=at.get("bounds"), coords=str(at.get("coordinates", "")).split(),
                     measures=[t for t in str(at.get("cell_measures", "")).split() if not t.endswith(":")],
                     ancils=str(at.get("ancillary_variables", "")).split(), ft=_pairs(at.get("formula_terms")),
                     gms=_gm(at.get("grid_mapping")), cms=_cm_axes(at.get("cell_methods")),
                     domdims=str(at["dimensions"]).split() if "dimensions" in at else None,
                     other={a: str(at[a]) for a in REF_ATTS[7:] if a in at})
            vs.append(d)
        return dict(dims=dims, vars=vs)
    finally:
        nc.close()


def _pairs(s):
    if s is None:
        return []
    t = str(s).split()
    return [(t[i].rstrip(":"), t[i + 1]) for i in range(0, len(t) - 1, 2)]


def _gm(s):
    if s is None:
        return []
    t = str(s).split()
    if not any(x.endswith(":") for x in t):
        return [(x, []) for x in t]
    out = []
    for x in t:
        if x.endswith(":"):
            out.append((x[:-1], []))
        elif out:
            out[-1][1].append(x)
    return out


def _cm_axes(s):
    """names before each method of a cell_methods string, per method"""
    if s is None:
        return []
    s = re.sub(r"\([^)]*\)", "", str(s))
    out, cur = [], []
    for t in s.split():
        if t.endswith(":"):
            cur.append(t[:-1])
        elif cur:
            out.append(cur)
            cur = []
    return out


def parse_model_file(out):
    """the `dims=… vars=…` part of a model output -> same structure as abstract_file"""
    m = re.search(r" dims=(\S*) vars=(\S*) read=", out)
    if not m:
        return None
    un = lambda s: s.replace("%20", " ")
    dims = [(un(x.split(":")[0]), int(x.split(":")[1])) for x in m.group(1).split(",") if x]
    vs = []
    for t in m.group(2).split("|"):
        if not t:
            continue
        p = t.split(";")
        lst = lambda s: [un(x) for x in s.split("+") if x]
        d = dict(name=un(p[0]), dims=lst(p[1]), kind=p[2], sig=[int(x) for x in p[3].split("+") if x],
                 bounds=None if p[4] == "_" else un(p[4]), ft=[tuple(un(y) for y in x.split("~")) for x in p[5].split("+") if x],
                 coords=lst(p[8]), measures=lst(p[9]), ancils=lst(p[10]),
                 gms=[(un(x.split("~")[0]), [un(y) for y in x.split("~")[1:]]) for x in p[11].split("+") if x],
                 cms=[[un(y) for y in x.split("^")[0].split("~") if y] for x in p[13].split("+") if x],
                 domdims=lst(p[14]) if p[7] == "2" else None, other={})
        d["_bft"] = [tuple(un(y) for y in x.split("~")) for x in p[6].split("+") if x]
        vs.append(d)
    # the formula_terms of a bounds variable are kept on its parent in the model
    byname = {v["name"]: v for v in vs}
    for v in vs:
        if v["_bft"] and v["bounds"] in byname:
            byname[v["bounds"]]["ft"] = v["_bft"]
    return dict(dims=dims, vars=vs)


def data_vars(af):
    """variables nothing refers to and that are not coordinate variables, in file order"""
    ref = set()
    for v in af["vars"]:
        for n in [v["bounds"]] + v["coords"] + v["measures"] + v["ancils"] + [x for _, x in v["ft"]] + [g for g, _ in v["gms"]]:
            if n:
                ref.add(n)
        for g, cs in v["gms"]:
            ref.update(cs)
        for s in v["other"].values():
            ref.update(str(s).split())
    dimnames = {d for d, _ in af["dims"]}
    return [v for v in af["vars"] if v["name"] not in ref and not (v["name"] in dimnames and v["dims"] == [v["name"]])]


class Unify:
    """one consistent bijection real name <-> model name; pinned names must agree literally"""

    def __init__(self, pinned):
        self.a, self.b, self.pinned = {}, {}, pinned
        self.why = None

    def eq(self, x, y, what):
        if self.why:
            return False
        if (x is None) != (y is None):
            self.why = f"{what}: {x} vs {y}"
            return False
        if x is None:
            return True
        if (x in self.pinned or y in self.pinned) and x != y:
            self.why = f"{what}: pinned name {x} vs {y}"
            return False
        if self.a.get(x, y) != y or self.b.get(y, x) != x:
            self.why = f"{what}: {x}->{self.a.get(x)} / {y}<-{self.b.get(y)}"
            return False
        self.a[x] = y
        self.b[y] = x
        return True

    def lists(self, xs, ys, what):
        if self.why:
            return False
        if len(xs) != len(ys):
            self.why = f"{what}: {xs} vs {ys}"
            return False
        return all(self.eq(x, y, what) for x, y in zip(xs, ys))


def compare_files(real, model, pinned):
    """None when the two abstract datasets are the same up to unpinned names, else a description"""
    u = Unify(pinned)
    R = {v["name"]: v for v in real["vars"]}
    M = {v["name"]: v for v in model["vars"]}
    rd, md = dict(real["dims"]), dict(model["dims"])
    if len(R) != len(M):
        return f"{len(R)} variables in the file, {len(M)} in the model: {sorted(R)} vs {sorted(M)}"
    if len(rd) != len(md):
        return f"{len(rd)} dimensions in the file, {len(md)} in the model: {sorted(rd)} vs {sorted(md)}"
    dr, dm = data_vars(real), data_vars(model)
    if len(dr) != len(dm):
        return f"{len(dr)} data variables in the file, {len(dm)} in the model"
    done = set()
    deferred = []

    def var(x, y, what):
        if not u.eq(x, y, what) or x is None:
            return
        if x in done:
            return
        done.add(x)
        if x not in R or y not in M:
            if (x in R) != (y in M):
                u.why = f"{what}: {x} / {y} exists on one side only"
            return
        a, b = R[x], M[y]
        u.lists(a["dims"], b["dims"], f"dims of {x}")
        for p, q in zip(a["dims"], b["dims"]):
            if rd.get(p) != md.get(q):
                u.why = f"size of {p}: {rd.get(p)} vs {md.get(q)}"
            if (p in R and R[p]["dims"] == [p]) or (q in M and M[q]["dims"] == [q]):
                var(p, q, f"coordinate variable of dimension {p}")
        var(a["bounds"], b["bounds"], f"bounds of {x}")
        if len(a["coords"]) != len(b["coords"]):
            u.why = f"coordinates of {x}: {a['coords']} vs {b['coords']}"
            return
        for p, q in zip(a["coords"], b["coords"]):
            var(p, q, f"coordinates of {x}")
        for key in ("measures", "ancils"):
            if len(a[key]) != len(b[key]):
                u.why = f"{key} of {x}: {a[key]} vs {b[key]}"
                return
            for p, q in zip(a[key], b[key]):
                var(p, q, f"{key} of {x}")
        if [t for t, _ in a["ft"]] != [t for t, _ in b["ft"]]:
            u.why = f"formula_terms of {x}: {a['ft']} vs {b['ft']}"
            return
        for (_, p), (_, q) in zip(a["ft"], b["ft"]):
            var(p, q, f"formula_terms of {x}")
        if len(a["gms"]) != len(b["gms"]):
            u.why = f"grid_mapping of {x}: {a['gms']} vs {b['gms']}"
            return
        for (p, pc), (q, qc) in zip(a["gms"], b["gms"]):
            var(p, q, f"grid_mapping of {x}")
            if len(pc) != len(qc):
                u.why = f"grid_mapping coordinates of {x}: {pc} vs {qc}"
                return
            # sorted by name on each side: compared as sets through the bijection once it is complete
            deferred.append((list(pc), list(qc), x))
        if len(a["cms"]) != len(b["cms"]):
            u.why = f"cell_methods of {x}: {a['cms']} vs {b['cms']}"
            return
        for p, q in zip(a["cms"], b["cms"]):
            if len(p) != len(q):
                u.why = f"cell_methods of {x}: {p} vs {q}"
                return
            for n1, n2 in zip(p, q):
                if (n1 in R or n1 in rd) or (n2 in M or n2 in md):
                    u.eq(n1, n2, f"cell_methods axis of {x}")
        if (a["domdims"] is None) != (b["domdims"] is None):
            u.why = f"dimensions attribute of {x}"
        elif a["domdims"] is not None:
            # sorted by name on each side: pair them through the sizes and the coordinate variables
            if len(a["domdims"]) != len(b["domdims"]):
                u.why = f"dimensions attribute of {x}: {a['domdims']} vs {b['domdims']}"
                return
            pending = list(b["domdims"])
            for p in a["domdims"]:
                q = u.a.get(p)
                if q is None:
                    cand = [z for z in pending if z not in u.b and md.get(z) == rd.get(p) and (z in M) == (p in R)]
                    q = p if p in cand else (cand[0] if cand else None)
                if q is None or q not in pending:
                    u.why = f"dimensions attribute of {x}: {a['domdims']} vs {b['domdims']}"
                    return
                pending.remove(q)
                u.eq(p, q, f"dimensions attribute of {x}")
                if (p in R and R[p]["dims"] == [p]) or (q in M and M[q]["dims"] == [q]):
                    var(p, q, f"coordinate variable of dimension {p}")

    for a, b in zip(dr, dm):
        var(a["name"], b["name"], "data variable")
        if u.why:
            return u.why
    for pc, qc, x in deferred:
        if sorted(u.a.get(n, "?" + n) for n in pc) != sorted(qc):
            return f"grid_mapping coordinates of {x}: {pc} vs {qc}"
    if len(done) != len(R):
        return f"variables not reached from the data variables: {sorted(set(R) - done)}"
    return None


# =========================================================================== abstraction of what is read back
def read_abstract(fields, ids):
    """cfdm constructs read from a file -> {ncvar: canonical structure}"""
    out = {}
    for f in fields:
        dom = type(f).__name__ == "Domain"
        axes = sorted(f.domain_axes(todict=True), key=lambda k: int(re.sub(r"\D", "", k) or 0))
        aidx = {k: i for i, k in enumerate(axes)}
        da = f.constructs.data_axes()
        cons = []
        ckey = {}
        for kind, long in KINDS:
            if dom and kind == "fan":
                continue
            for k, c in f.constructs.filter_by_type(long, todict=True).items():
                if c.get_data(None) is None:
                    sig = "nodata"
                else:
                    sig = _known(ids, main_fp(c))
                bfp = bounds_fp(c)
                b = None if bfp is None else _known(ids, bfp)
                t = (kind, sig, b, tuple(aidx[a] for a in da.get(k, ())))
                ckey[k] = t
                cons.append(t)
        refs = []
        for k, r in f.coordinate_references(todict=True).items():
            p = r.coordinate_conversion.parameters()
            dp = r.datum.parameters()
            did = None if not dp else _known(ids, ["datum", params_fp(dp)])
            if p.get("grid_mapping_name", False):
                pid = 0 if p == LATLON else _known(ids, ["params", params_fp(p)])
                refs.append(("g", pid, did, tuple(sorted(str(ckey.get(c, c)) for c in r.coordinates())), ()))
            else:
                terms = tuple(sorted((t, str(ckey.get(v, v))) for t, v in r.coordinate_conversion.domain_ancillaries().items() if v is not None))
                refs.append(("v", None, did, tuple(sorted(str(ckey.get(c, c)) for c in r.coordinates())), terms))
        cms = []
        if not dom:
            for k, cm in f.cell_methods(todict=True).items():
                mid = _known(ids, ["cm", cm.get_method(None), sorted((q, json.dumps(FP._pval(v), default=str)) for q, v in cm.qualifiers().items())])
                cms.append((tuple(aidx[a] if a in aidx else a for a in cm.get_axes(())), mid))
        out[f.nc_get_variable(None)] = dict(dom=dom, sizes=[f.domain_axes(todict=True)[k].get_size() for k in axes],
                                            cons=sorted(cons, key=str), refs=sorted(refs, key=str), cms=cms)
    return out


def _known(ids, obj):
    s = json.dumps(obj, sort_keys=True, default=str)
    return ids.d.get(s, "?" + hashlib.sha1(s.encode()).hexdigest()[:6])


def parse_model_read(out):
    m = re.search(r" read=(\S*) rerr=(\d)", out)
    if not m:
        return None
    un = lambda s: s.replace("%20", " ")
    res = {}
    for t in m.group(1).split("|"):
        if not t:
            continue
        p = t.split(";")
        cons_raw = [x.split("~") for x in p[4].split("+") if x]
        cons, bykey, byvar = [], {}, {}
        for kind, sig, ax, ncvar, key in cons_raw:
            sg = [int(x) for x in sig.split(".") if x]
            b = sg[2] if len(sg) >= 3 and sg[1] == 1 else None
            tup = (kind, sg[0], b, tuple(int(x) for x in ax.split(".") if x))
            cons.append(tup)
            if kind in ("dim", "aux"):
                bykey[int(key)] = tup
            byvar[un(ncvar)] = tup
        refs = []
        for x in p[5].split("+"):
            if not x:
                continue
            v, params, datum, coords, terms, ncvar = x.split("~")
            did = None if datum == "_" else int(datum.split(".")[0])
            cs = tuple(sorted(str(bykey.get(int(k), k)) for k in coords.split(".") if k))
            if v == "g":
                refs.append(("g", int(params.split(".")[0]) if params else 0, did, cs, ()))
            else:
                tm = tuple(sorted((un(y.split("^")[0]), str(byvar.get(un(y.split("^")[1]), y))) for y in terms.split(".") if y))
                refs.append(("v", None, did, cs, tm))
        cms = []
        for x in p[6].split("+"):
            if not x:
                continue
            ax, mid = x.split("^")
            cms.append((tuple(int(a[1:]) if a.startswith("i") else un(a[1:]) for a in ax.split("~") if a), int(mid)))
        res[un(p[0])] = dict(dom=p[1] == "1", sizes=[int(a.split("~")[0]) for a in p[3].split("+") if a],
                             cons=sorted(cons, key=str), refs=sorted(refs, key=str), cms=cms)
    return res, m.group(2) == "1"


# =========================================================================== the implementation side
def load(fs):
    """bring every array into memory (the file is removed afterwards); a construct whose data cannot be fetched
    (the 0-d char grid-mapping variable that comes back as a field beside domain variables) is dropped"""
    out = []
    for x in fs:
        try:
            if hasattr(x, "has_data") and x.has_data():
                x.data.to_memory(inplace=True)
            for c in x.constructs.filter_by_data(todict=True).values():
                c.to_memory(inplace=True)
                r = c.get_interior_ring(None) if hasattr(c, "get_interior_ring") else None
                if r is not None and r.has_data():
                    r.to_memory(inplace=True)
        except Exception:
            continue
        out.append(x)
    return out


def write_read(fs, keep=None):
    """cfdm.write(fs, file); cfdm.read(file) (+ domains).  → (fields, domains, abstract file)"""
    C = cfdm()
    path = tmpfile()
    try:
        C.write(fs, path)
        af = abstract_file(path)
        kw = G.read_kwargs(fs)
        nd = sum(1 for x in fs if type(x).__name__ == "Domain")
        r = load(list(C.read(path, **kw))) if nd < len(fs) else []
        d = load(list(C.read(path, domain=True, **kw))) if nd else []
        return r, d, af
    finally:
        if os.path.exists(path):
            os.remove(path)


def _num(v):
    """a parameter value of the fingerprint without its numeric type (cfdm `equals` compares parameter and
    property values with ignore_data_type=True: 6371007 and 6371007.0 are the same datum)"""
    try:
        v = json.loads(v)
    except Exception:
        return v
    if isinstance(v, list) and v and v[0] == "scalar" and isinstance(v[2], (int, float)) and not isinstance(v[2], bool):
        return float(v[2])
    if isinstance(v, list) and v and v[0] == "array":
        return ["array", json.loads(json.dumps(v[2]), parse_int=float)]
    if isinstance(v, (int, float)) and not isinstance(v, bool):
        return float(v)
    return v


def fp_norm(x):
    """the independent structural fingerprint, netCDF names left out, parameter values without numeric type"""
    fp = FP.fingerprint(x, names=False)
    refs = []
    for r in fp.get("refs", []):
        d = json.loads(r)
        for key in ("params", "datum"):
            d[key] = [[p[0], _num(p[1])] for p in d.get(key, [])]
        refs.append(json.dumps(d, sort_keys=True))
    if "refs" in fp:
        fp["refs"] = sorted(refs)
    return json.dumps(fp, sort_keys=True, default=str)


def both_equal(a, b):
    try:
        if not (a.equals(b) and b.equals(a)):
            return False
    except Exception:
        return False
    return fp_norm(a) == fp_norm(b)


def matching(A, B):
    """size of a maximum matching between A and B under `both_equal`"""
    adj = [[j for j, y in enumerate(B) if type(x) is type(y) and both_equal(x, y)] for x in A]
    m = {}

    def aug(i, seen):
        for j in adj[i]:
            if j in seen:
                continue
            seen.add(j)
            if j not in m or aug(m[j], seen):
                m[j] = i
                return True
        return False

    n = sum(1 for i in range(len(A)) if aug(i, set()))
    unmatched = [i for i in range(len(A)) if i not in m.values()]
    return n, unmatched, adj


def orders_for(n, tier, rng_seed):
    perms = list(itertools.permutations(range(n)))
    limit = 3 if tier == "quick" else 4
    if n <= limit:
        return perms
    import random
    r = random.Random(rng_seed)
    rest = perms[1:]
    r.shuffle(rest)
    return [perms[0], tuple(reversed(range(n)))] + rest[: (4 if tier == "quick" else 10)]


def impl(c):
    """Write the family in every order; returns the observable of the *first* order for the model
    comparison and stores everything the oracle needs in c.extra."""
    p = c.payload
    ex = c.extra = dict(skip=None, orders={}, singles=None, fail=None, line_ids=None)
    try:
        fs = G.build(p["recipe"])
    except Exception as e:
        ex["skip"] = "build:" + repr(e)[:80]
        return "skip"
    if fs is None:
        ex["skip"] = "ancestor not available"
        return "skip"
    ex["n"] = len(fs)
    ex["nd"] = sum(1 for x in fs if type(x).__name__ == "Domain")
    ex["originals"] = fs
    # single-file writes: the comparison basis
    singles = []
    for f in fs:
        try:
            r, d, _ = write_read([f])
        except Exception as e:
            ex["skip"] = "single:" + fw.exc_enum(e)
            return "skip"
        got = d if type(f).__name__ == "Domain" else r
        if len(got) != 1:
            ex["skip"] = f"single write gives {len(got)} constructs"
            return "skip"
        singles.append(got[0])
    ex["singles"] = singles
    first = None
    for order in [tuple(o) for o in p["orders"]]:
        sub = [fs[i] for i in order]
        try:
            r, d, af = write_read(sub)
        except Exception as e:
            ex["orders"][order] = dict(error=fw.exc_enum(e), msg=str(e)[:160])
            if first is None:
                first = "raised:" + fw.exc_enum(e)
            continue
        ex["orders"][order] = dict(fields=r, domains=d, file=af)
        if first is None:
            first = "ok"
    return first or "skip"


# =========================================================================== oracle
def prop_view(x):
    """the property set of a field/domain: name -> canonical value text (numeric types and containers normalised);
    `Conventions` is what the writer itself puts into every dataset and is left out"""
    out = {}
    for k, v in x.properties().items():
        if k != "Conventions":
            out[k] = json.dumps(_pnorm(v), sort_keys=True)
    return out


def props_vs_originals(ex, order):
    """Direct comparison of the property sets of the constructs read from the shared dataset with those of the
    ORIGINALS (not through `equals`, not through the single-file reads): as multisets they must be the same.  A
    deviation that the construct shows identically when written to a file of its own is C01's (single round trip),
    not a matter of sharing: there the single-file read stands in for the original."""
    o = ex["orders"][order]
    if "error" in o:
        return None
    want, dev = [], 0
    for f, s in zip(ex["originals"], ex["singles"]):
        dom = type(f).__name__ == "Domain"
        a, b = prop_view(f), prop_view(s)
        if a != b:
            dev += 1
        want.append((dom, json.dumps(b if a != b else a, sort_keys=True)))
    ex["c01_prop_deviations"] = dev
    for dom, what, got_list in ((False, "field", o["fields"]), (True, "domain", o["domains"])):
        W = sorted(w for d, w in want if d == dom)
        if not W or (not dom and ex["nd"]):
            continue  # (with domain variables in the file cfdm.read(domain=False) returns extra fields by design)
        Gt = sorted(json.dumps(prop_view(x), sort_keys=True) for x in got_list)
        if W != Gt:
            only_w = [json.loads(x) for x in W if x not in Gt]
            only_g = [json.loads(x) for x in Gt if x not in W]
            msg = f"order {list(order)}: property sets of the {what}s read from the shared dataset differ from the originals"
            if only_w and only_g:
                a, b = only_w[0], only_g[0]
                gained = {k: b[k] for k in b if k not in a}
                lost = {k: a[k] for k in a if k not in b}
                changed = {k: (a[k], b[k]) for k in a if k in b and a[k] != b[k]}
                msg += f": gained {gained} lost {lost} changed {changed}"
            return msg[:600]
    return None


def judge(ex, order):
    """None or a failure description for one ordering"""
    o = ex["orders"][order]
    if "error" in o:
        return f"order {list(order)}: write/read raised {o['error']}: {o['msg']}"
    pv = props_vs_originals(ex, order)
    if pv:
        return pv
    singles = ex["singles"]
    sf = [s for s in singles if type(s).__name__ != "Domain"]
    sd = [s for s in singles if type(s).__name__ == "Domain"]
    if ex["nd"] == 0 and len(o["fields"]) != len(sf):
        return f"order {list(order)}: {len(o['fields'])} fields read, {len(sf)} written"
    if len(o["domains"]) != len(sd):
        return f"order {list(order)}: {len(o['domains'])} domains read, {len(sd)} written"
    for A, B, what in ((sf, o["fields"], "field"), (sd, o["domains"], "domain")):
        n, un, adj = matching(A, B)
        if n != len(A):
            i = un[0]
            why = ""
            cand = [y for y in B if y.nc_get_variable(None) == A[i].nc_get_variable(None)] or B[:1]
            if cand:
                why = "; ".join(FP.diff(FP.fingerprint(A[i], names=False), FP.fingerprint(cand[0], names=False))[:3])
            return (f"order {list(order)}: {what} {A[i].nc_get_variable(None)!r} of the single-file write has no equal partner "
                    f"({n}/{len(A)} matched) {why}")
    return None


def oracle(c):
    """Decides the case, and — because the constructs read back are heavy and are not shipped between
    processes — also caches the model agreement and the signature of a failure, then frees them."""
    if c.stream == "C09.gp":
        return gp_oracle(c)
    ex = c.extra
    if ex is None or ex.get("skip"):
        return None
    verdict = None
    for order in ex["orders"]:
        v = judge(ex, order)
        if v:
            ex["fail_order"] = order
            verdict = v
            break
    c.oracle_fail = verdict
    ex["agree"] = _agree(c)
    ex["sig"] = _classify(c) if verdict else None
    for k in ("orders", "singles", "ids", "originals"):
        ex.pop(k, None)
    ex["pinned"] = sorted(ex.get("pinned") or ())
    ex["fail_order"] = list(ex["fail_order"]) if ex.get("fail_order") else None
    return verdict


# =========================================================================== agreement with the model
def agree(c):
    if c.stream == "C09.gp":
        return gp_agree(c)
    ex = c.extra
    if ex is None or ex.get("skip") or c.model_out is None:
        return True
    return ex.get("agree", True)


def _agree(c):
    ex = c.extra
    if ex is None or ex.get("skip") or c.model_out is None:
        return True
    order = tuple(c.payload["orders"][0])
    o = ex["orders"].get(order)
    if o is None:
        return True
    m = re.match(r"ok=(\d) ft=(\d) dup=(\d) old=(\d+) ", c.model_out)
    if not m:
        return False
    if m.group(1) != "1":
        return True  # the model's name search ran out of fuel: no claim
    if "error" in o:
        # the model has no notion of a failing write except a duplicate name
        ex["disagree"] = "implementation raised " + o["error"]
        return m.group(3) == "1"
    mf = parse_model_file(c.model_out)
    why = compare_files(o["file"], mf, set(ex.get("pinned") or ()))
    if why:
        ex["disagree"] = "file: " + why
        return False
    if m.group(2) == "1":
        return True  # formula_terms overwritten: what is read back is outside the theorems; the oracle decides
    mr = parse_model_read(c.model_out)
    if mr is None:
        return False
    mread, merr = mr
    ra = read_abstract(o["fields"] + o["domains"], ex["ids"])
    # names: through the bijection found for the files (identity here: compare by data variable name)
    for name, a in ra.items():
        b = mread.get(name)
        if b is None:
            if ex["nd"]:
                continue  # extra fields of a file holding domain variables
            ex["disagree"] = f"read: {name} not produced by the model"
            return False
        for key in ("sizes", "cons", "refs", "cms"):
            if a[key] != b[key]:
                ex["disagree"] = f"read: {name}.{key}: {a[key]} vs model {b[key]}"
                return False
    return True


def model_flags(c):
    if not c.model_out:
        return None
    m = re.match(r"ok=(\d) ft=(\d) dup=(\d) old=(\d)(\d)(\d)(\d)(\d)(\d) ", c.model_out)
    if not m:
        return None
    return dict(ft=m.group(2) == "1", d1=m.group(4) == "1", d2=m.group(5) == "1", d4=m.group(6) == "1", d5=m.group(7) == "1",
                d8=m.group(8) == "1", d9=m.group(9) == "1")


# =========================================================================== classification of failures
def _same_but_vertical_datums(ex, order):
    """the re-read fields equal the single-file ones once the datums of formula-terms references are ignored"""
    def strip(x):
        fp = FP.fingerprint(x, names=False)
        refs = []
        for r in fp.get("refs", []):
            d = json.loads(r)
            if d.get("ancils") or any(p[0] == "standard_name" for p in d.get("params", [])):
                d["datum"] = []
            refs.append(json.dumps(d, sort_keys=True))
        fp["refs"] = sorted(refs)
        return json.dumps(fp, sort_keys=True, default=str)
    o = ex["orders"][order]
    if "error" in o:
        return False
    A = sorted(strip(s) for s in ex["singles"] if type(s).__name__ != "Domain")
    B = sorted(strip(s) for s in o["fields"])
    Ad = sorted(strip(s) for s in ex["singles"] if type(s).__name__ == "Domain")
    Bd = sorted(strip(s) for s in o["domains"])
    if Ad != Bd:
        return False
    return A == B if not ex["nd"] else all(a in B for a in A)


def _coarse(detail):
    """failures that match no recorded finding are grouped by the kind of difference (one replay per kind rather than
    one per failing case); never the signature of a known finding"""
    d = str(detail or "")
    m = re.search(r"raised (\w+)", d)
    if m:
        return "unclassified:raised-" + m.group(1)
    if "property sets" in d or "properties of the original" in d:
        return "unclassified:properties-differ-from-original"
    if "file of its own" in d:
        return "unclassified:properties-differ-from-single-file-write"
    if "global attributes" in d or "attributes of data variable" in d:
        return "unclassified:attribute-placement"
    m = re.search(r"(\d+) (?:fields|domains) read, (\d+) written", d)
    if m:
        return "unclassified:construct-count"
    m = re.search(r"\) (/[a-z_]+)", d)
    if m:
        return "unclassified:no-equal-partner" + m.group(1)
    return None


def classify(c):
    ex = c.extra
    if c.stream == "C09.gp":
        if not (c.oracle_fail and isinstance(ex, dict)):
            return None
        return ex.get("sig") or _coarse(c.oracle_fail)
    if not ex or ex.get("skip") or not c.oracle_fail:
        return None
    return ex.get("sig") or _coarse(c.oracle_fail)


def _classify(c):
    ex = c.extra
    if not ex or ex.get("skip") or not c.oracle_fail:
        return None
    order = ex.get("fail_order")
    o = ex["orders"].get(order, {})
    fl = model_flags(c) or {}
    msg = o.get("msg", "")
    if o.get("error") == "ValueError" and "(1, 1)" in msg and "does not match the shape" in msg:
        return "read-shared-scalar-string-coordinate-inserted-twice"
    if "error" in o and "String match to name in use" in msg:
        if fl.get("d9") or (fl == {} and _unnamed_dimcoord_guess(c)):
            return "write-unnamed-dimension-coordinate-takes-dimension-name-in-use"
        if fl.get("d4") or fl == {}:
            return "write-default-names-with-blank-collide"
    comp = _compression_types(c)
    fts, cl = ex.get("feature_types", []), ex.get("comp_list", [])
    if None in fts and any(ft is not None and str(t).startswith("ragged") for ft, t in zip(fts, cl)):
        # (only a *discrete sampling geometry* - ragged compression + featureType - beside a construct without
        # featureType; a featureType property on an uncompressed field is an ordinary property)
        return "write-featureType-dropped-when-another-construct-lacks-it"
    if "ragged indexed contiguous" in comp and len([1 for t in ex.get("comp_list", []) if t == "ragged indexed contiguous"]) >= 2:
        if o.get("error") == "KeyError":
            return "write-index-variable-shared-across-count-dimensions"
        return "read-two-indexed-contiguous-arrays-only-last-pair-combined"
    if "ragged contiguous" in comp and len([1 for t in ex.get("comp_list", []) if t == "ragged contiguous"]) >= 2:
        return "write-count-variable-shared-across-instance-dimensions"
    if "gathered" in comp and len([1 for t in ex.get("comp_list", []) if t == "gathered"]) >= 2:
        return "write-list-variable-shared-across-compressed-dimensions"
    if comp:
        return None
    if fl.get("ft") or (fl == {} and _ft_conflict_guess(c)):
        return "write-formula-terms-overwritten-on-shared-coordinate"
    if "error" not in o and _ft_gain_guess(c):
        return "write-formula-terms-acquired-through-shared-coordinate"
    if "error" not in o and _same_but_vertical_datums(ex, order):
        return "read-vertical-crs-datum-leaks-across-fields"
    if fl.get("d8"):
        return "write-domain-ancillary-stored-in-earlier-data-variable"
    if fl.get("d5") or (fl == {} and _square_guess(c)):
        return "write-dimension-reused-for-two-axes-of-one-field"
    return None


def _compression_types(c):
    ex = c.extra
    if "comp_list" not in ex:
        try:
            fs = G.build(c.payload["recipe"])
            ex["comp_list"] = [(f.data.get_compression_type() if hasattr(f, "has_data") and f.has_data() else "") for f in fs]
            ex["feature_types"] = [f.get_property("featureType", None) for f in fs]
        except Exception:
            ex["comp_list"] = []
            ex["feature_types"] = []
    return {t for t in ex["comp_list"] if t}


def _ft_conflict_guess(c):
    """without the model: two fields own an equal parametric coordinate but differ in a domain ancillary or its axes"""
    try:
        fs = G.build(c.payload["recipe"])
    except Exception:
        return False
    owners = []
    for f in fs:
        for r in f.coordinate_references(todict=True).values():
            p = r.coordinate_conversion.parameters()
            if not p.get("standard_name"):
                continue
            cs = [k for k in r.coordinates() if f.coordinates(todict=True).get(k) is not None]
            if len(cs) != 1:
                continue
            zc = f.coordinates(todict=True)[cs[0]]
            da = f.constructs.data_axes()
            sig = []
            for t, k in sorted(r.coordinate_conversion.domain_ancillaries().items()):
                if k is None:
                    continue
                d = f.constructs[k]
                axsig = []
                for a in da[k]:
                    dc = [x for kk, x in f.dimension_coordinates(todict=True).items() if da[kk] == (a,)]
                    axsig.append(json.dumps(FP.fp_construct(dc[0], names=False), sort_keys=True, default=str) if dc else "nodim")
                sig.append((t, json.dumps(main_fp(d), sort_keys=True, default=str), json.dumps(bounds_fp(d), sort_keys=True, default=str), axsig))
            owners.append((json.dumps(FP.fp_construct(zc, names=False), sort_keys=True, default=str), json.dumps(sig)))
    for (z1, s1), (z2, s2) in itertools.combinations(owners, 2):
        if z1 == z2 and s1 != s2:
            return True
    return False


def _ft_gain_guess(c):
    """one construct owns formula terms through a parametric coordinate, another construct has an equal coordinate (so
    the coordinate variable, which carries the formula_terms attribute, is shared) but no formula terms of its own"""
    try:
        fs = G.build(c.payload["recipe"])
    except Exception:
        return False
    owned, free = set(), set()
    for f in fs:
        coords = f.coordinates(todict=True)
        own = set()
        for r in f.coordinate_references(todict=True).values():
            if r.coordinate_conversion.get_parameter("standard_name", None) and r.coordinate_conversion.domain_ancillaries():
                own |= {k for k in r.coordinates() if k in coords}
        for k, zc in coords.items():
            if zc.get_data(None) is None:
                continue
            z = json.dumps(FP.fp_construct(zc, names=False), sort_keys=True, default=str)
            (owned if k in own else free).add(z)
    return bool(owned & free)


def _unnamed_dimcoord_guess(c):
    """without the model: some construct has a dimension coordinate with neither a netCDF variable name nor a
    standard_name on an axis that pins a netCDF dimension name"""
    try:
        fs = G.build(c.payload["recipe"])
    except Exception:
        return False
    for f in fs:
        da = f.constructs.data_axes()
        axes = f.domain_axes(todict=True)
        for k, dc in f.dimension_coordinates(todict=True).items():
            if dc.nc_get_variable(None) is None and dc.get_property("standard_name", None) is None:
                a = axes.get(da[k][0])
                if a is not None and a.nc_get_dimension(None) is not None:
                    return True
    return False


def _square_guess(c):
    try:
        fs = G.build(c.payload["recipe"])
    except Exception:
        return False
    for f in fs:
        da = f.constructs.data_axes()
        nodim = [a for a in f.domain_axes(todict=True) if not any(v == (a,) for k, v in da.items() if k in f.dimension_coordinates(todict=True))]
        if len(nodim) >= 2:
            return True
    return False


# =========================================================================== generation
class C09Case(Case):
    __slots__ = ("_pin",)


def _mk(stream, payload, line, key, tags):
    c = C09Case(stream, payload, line=line, key=key, nontrivial=True, tags=tags)
    c._pin = None
    return c


def gen(rng, tier, n):
    nmax = 3 if tier == "quick" else 5
    for i in range(n):
        if i % 8 in (2, 5, 7):
            p, tags = P.gen_case(rng, tier)
            yield gp_case(p, tags)
            continue
        recipe, fams = G.random_recipe(rng, 2, nmax if rng.random() < 0.8 else 2)
        yield case_from(recipe, fams, tier, rng.randint(0, 10 ** 9))


def case_from(recipe, fams, tier, seed, orders=None):
    n = len(recipe["sibs"])
    orders = orders or [list(o) for o in orders_for(n, tier, seed)]
    payload = dict(recipe=recipe, orders=orders)
    stream = "C09.seed" if recipe["base"]["kind"] == "seedfile" else "C09.wr"
    line, pin = None, None
    if stream == "C09.wr":
        try:
            fs = G.build(recipe)
        except Exception:
            fs = None
        if fs is not None:
            line, ids, pinned = model_line(fs, orders=orders)
            if line is not None:
                pin = (ids, pinned)
    base = recipe["base"]
    tags = ["fam:" + f for f in fams] + [f"n={n}", "base:" + base["kind"] + ":" + str(base.get("name", base.get("n", "")))]
    tags.append("modelled" if line else "oracle-only")
    c = _mk(stream, payload, line, json.dumps(payload, sort_keys=True), tags)
    c._pin = pin
    return c


_impl0 = impl


def impl(c):  # noqa: F811  (wrap: attach ids/pinned computed at generation time)
    if c.stream == "C09.gp":
        return gp_impl(c)
    out = _impl0(c)
    pin = getattr(c, "_pin", None)
    if c.extra is not None:
        if pin is None and c.line is not None:
            # replayed case: recompute
            try:
                fs = G.build(c.payload["recipe"])
                _, ids, pinned = model_line(fs, orders=c.payload["orders"])
                pin = (ids, pinned)
            except Exception:
                pin = None
        c.extra["ids"] = pin[0] if pin else Ids()
        c.extra["pinned"] = pin[1] if pin else set()
        # non-trivial only when something is (or could be) shared
        o = c.extra["orders"].get(tuple(c.payload["orders"][0])) if c.extra.get("orders") else None
        if o and "file" in o:
            cnt = {}
            for v in o["file"]["vars"]:
                for n in [v["bounds"]] + v["coords"] + v["measures"] + v["ancils"] + [g for g, _ in v["gms"]]:
                    if n:
                        cnt[n] = cnt.get(n, 0) + 1
            dimshared = len(data_vars(o["file"])) >= 2
            c.nontrivial = any(k >= 2 for k in cnt.values()) or dimshared
    return out


def from_payload(stream, payload):
    if stream == "C09.gp":
        return gp_case(payload, [])
    return case_from(payload["recipe"], [], "quick", 0, orders=payload["orders"])


# =========================================================================== stream C09.gp: properties / global attributes
def gp_case(p, tags):
    c = Case("C09.gp", p, P.line(p), key=json.dumps(p, sort_keys=True), nontrivial=True, tags=list(tags) + ["gp"])
    return c


def _dict_txt(d):
    return ",".join(f"{k}~{v}" for k, v in sorted(d.items()) if k != "Conventions")


def _gp_observe(fs, idx, kw, paths=None, names=None):
    """write the fields `idx` (indices into fs) to one dataset; -> (globals, {i: variable attributes}, {i: properties read
    back}, {group path: attributes})"""
    import netCDF4
    C = cfdm()
    path = tmpfile()
    try:
        C.write([fs[i] for i in idx], path, **kw)
        nc = netCDF4.Dataset(path, "r")
        try:
            glob = {a: P.token_of(nc.getncattr(a)) for a in nc.ncattrs() if a != "Conventions"}
            va, grp = {}, {}
            for i in idx:
                where = nc
                pth = paths[i] if paths else []
                for k, gname in enumerate(pth):
                    where = where.groups.get(gname)
                    if where is None:
                        raise fw.HarnessError(f"C09.gp: group {pth} not in the dataset")
                if pth:
                    grp["+".join(pth)] = {a: P.token_of(where.getncattr(a)) for a in where.ncattrs()}
                v = where.variables.get(names[i] if names else f"f{i}")
                if v is None:
                    raise fw.HarnessError(f"C09.gp: variable f{i} not in the dataset")
                va[i] = {a: P.token_of(v.getncattr(a)) for a in v.ncattrs() if a not in P.STRUCT}
        finally:
            nc.close()
        rd = {}
        back = {(names[i] if names else f"f{i}"): i for i in idx}
        for g in C.read(path, netcdf_backend="h5netcdf"):
            nm = (g.nc_get_variable(None) or "").split("/")[-1]
            if nm in back:
                rd[back[nm]] = {k: P.token_of(v) for k, v in g.properties().items() if k not in P.STRUCT}
        return glob, va, rd, grp
    finally:
        if os.path.exists(path):
            os.remove(path)


def gp_impl(c):
    p = c.payload
    fs = P.build(p)
    kw = P.write_kwargs(p)
    ex = c.extra = dict(orders={}, singles={}, sig=None)
    first = None
    paths = [f.get("path") or [] for f in p["fields"]]
    names = [P.ncvar_of(p, i) for i in range(len(fs))]
    for order in p["orders"]:
        try:
            ob = _gp_observe(fs, order, kw, paths, names)
        except fw.HarnessError:
            raise
        except Exception as e:
            ob = "raised:" + fw.exc_enum(e) + "|" + str(e)[:400]
        ex["orders"][tuple(order)] = ob
        if first is None:
            first = ob
    for i in range(len(fs)):
        try:
            ex["singles"][i] = _gp_observe(fs, [i], kw, paths, names)[2].get(i)
        except Exception as e:
            ex["singles"][i] = "raised:" + fw.exc_enum(e)
    if isinstance(first, str):
        return first.split("|", 1)[0]
    n = len(fs)
    return ("glob=" + _dict_txt(first[0]) + " groups=" + ";".join(sorted(g + ":" + _dict_txt(a) for g, a in first[3].items()))
            + " vars=" + "|".join(_dict_txt(first[1].get(i, {})) for i in range(n))
            + " read=" + "|".join(_dict_txt(first[2].get(i, {"?": "missing"})) for i in range(n)))


def gp_agree(c):
    if c.model_out is None or not isinstance(c.impl_out, str):
        return True
    m = re.match(r"^(glob=.*) perm=([01]) old=([01])(?: OLD (glob=.*))?$", c.model_out)
    if not m:
        return False
    if m.group(2) != "1":
        return False
    # the model is the writer with fixes/C09-group-attribute-placement.patch; where the code as it is places a group
    # attribute differently (old=1) the model's account of THAT code is the yardstick as long as the patch is not in
    # /repo (what is read back is judged by the oracle either way)
    return m.group(1) == c.impl_out or (m.group(3) == "1" and m.group(4) == c.impl_out)


def gp_expect(p, idx):
    """The property text and the documentation of cfdm.write restated (no cfdm code): for the dataset holding the
    fields `idx` -> (global attributes, {i: attributes of the data variable}, {i: properties read back})."""
    fields = [p["fields"][i] for i in idx]
    va = set(P.aslist(p["variable_attributes"]))
    ga = set(P.aslist(p["global_attributes"]))
    fd = dict(p["file_descriptors"] or {})
    eligible = set(P.descr()) | ga | {k for f in fields for k, v in f["ncg"].items() if v is None}
    forced = {}
    for k in {k for f in fields for k, v in f["ncg"].items() if v is not None}:
        vals = [f["ncg"].get(k) for f in fields]
        if all(v is not None for v in vals) and len(set(vals)) == 1 and k not in fd:
            forced[k] = vals[0]
    glob = dict(fd)
    glob.update({k: v for k, v in forced.items() if k != "Conventions"})
    pg = {}
    for k in {k for f in fields for k in f["props"]}:
        vals = [f["props"].get(k) for f in fields]
        if k in eligible and k not in va and k not in fd and k not in forced and all(v is not None for v in vals) and len(set(vals)) == 1:
            pg[k] = vals[0]
            if k != "Conventions":
                glob[k] = vals[0]
    vattrs, read = {}, {}
    for i, f in zip(idx, fields):
        own = {k: v for k, v in f["props"].items() if k != "Conventions"}
        vattrs[i] = {k: v for k, v in own.items() if k not in pg}
        r = dict(own)
        for k, v in list(fd.items()) + list(forced.items()):
            if k != "Conventions":
                r.setdefault(k, v)
        read[i] = r
    return glob, vattrs, read


def _dd(a, b):
    ks = sorted(k for k in set(a) | set(b) if a.get(k) != b.get(k))
    return "; ".join(f"{k}: {a.get(k)} expected {b.get(k)}" for k in ks)


def gp_oracle(c):
    ex, p = c.extra, c.payload
    if not isinstance(ex, dict):
        return None
    n = len(p["fields"])
    noconv = lambda d: {k: v for k, v in d.items() if k != "Conventions"}
    verdict = None
    for order, ob in ex["orders"].items():
        if isinstance(ob, str):
            verdict = f"order {list(order)}: write/read {ob}"
            tops = {f["path"][0] for f in p["fields"] if f.get("path")}
            if "String match to name in use" in ob and any(not f.get("path") and f.get("ncvar") in tops for f in p["fields"]) \
                    and all(isinstance(s1, dict) for s1 in ex["singles"].values()):
                ex["sig"] = "write-variable-named-like-a-group-of-the-dataset"
            break
        glob, va, rd, _grp = ob
        eg, ev, er = gp_expect(p, list(order))
        F = p["fields"]
        for i in range(n):
            if i not in rd:
                verdict = f"order {list(order)}: field f{i} not read back"
                break
            # (1) against the ORIGINAL: own properties with own values, nothing inherited from another field
            own = noconv(p["fields"][i]["props"])
            got = noconv(rd[i])
            lost = {k: v for k, v in own.items() if got.get(k) != v}
            extra = {k: v for k, v in got.items() if k not in own and er[i].get(k) != v}
            if lost or extra:
                verdict = (f"order {list(order)}: field f{i} is not read back with the properties of the original: "
                           f"lost/changed {lost}, gained {extra}")
                pi = F[i].get("path") or []
                # the two group-attribute findings (one proposed patch), alone or together on one field
                g1 = bool(lost) and all((F[i].get("gattrs") or {}).get(k, 0) is None for k in lost)
                g2 = bool(extra) and all(any((F[j].get("gattrs") or {}).get(k, 0) is None and len(F[j].get("path") or []) < len(pi)
                                             and pi[: len(F[j].get("path") or [])] == (F[j].get("path") or []) for j in order)
                                         for k in extra)
                if (g1 or not lost) and (g2 or not extra):
                    ex["sig"] = ("write-group-attribute-flag-drops-property-when-group-disagrees" if g1
                                 else "write-group-attribute-inherited-by-sub-group-construct")
                break
            if got != noconv(er[i]):
                verdict = f"order {list(order)}: properties of f{i}: {_dd(got, noconv(er[i]))}"
                break
            # (2) against the file of its own
            s1 = ex["singles"].get(i)
            if isinstance(s1, str) or s1 is None:
                verdict = f"field f{i} alone: {s1}"
                break
            if noconv(s1) != got:
                verdict = f"order {list(order)}: f{i} differs from the same field written to a file of its own: {_dd(got, noconv(s1))}"
                only_forced = all(k in p["fields"][i]["ncg"] and p["fields"][i]["ncg"][k] is not None
                                  for k in set(got) ^ set(noconv(s1)) | {k for k in got if k in s1 and got[k] != s1[k]})
                if only_forced:
                    ex["sig"] = "write-forced-global-value-dropped-when-another-construct-lacks-it"
                break
        if verdict:
            break
        # (3) placement in the file (what the model is compared on, restated)
        if glob != eg:
            verdict = f"order {list(order)}: global attributes: {_dd(glob, eg)}"
            break
        for i in range(n):
            if F[i].get("path"):
                continue  # (in a group the placement also depends on the group attributes: compared through the model)
            if noconv(va.get(i, {})) != noconv(ev[i]):
                verdict = f"order {list(order)}: attributes of data variable f{i}: {_dd(noconv(va.get(i, {})), noconv(ev[i]))}"
                break
        if verdict:
            break
    for k in ("orders", "singles"):
        ex.pop(k, None)
    return verdict


def gp_shrink(c):
    """drop fields, then property names, while the oracle still fails with the same signature"""
    sig = classify(c)

    def attempt(p):
        c2 = gp_case(p, [])
        c2.impl_out = gp_impl(c2)
        try:
            c2.model_out = fw.model_run([c2.line])[0]
        except Exception:
            c2.model_out = None
        c2.oracle_fail = gp_oracle(c2)
        return c2 if c2.oracle_fail and classify(c2) == sig else None

    p = json.loads(json.dumps(c.payload))
    best = None
    changed = True
    while changed:
        changed = False
        n = len(p["fields"])
        if n > 2:
            for i in range(n):
                q = json.loads(json.dumps(p))
                del q["fields"][i]
                q["orders"] = [list(o) for o in itertools.permutations(range(n - 1))]
                c2 = attempt(q)
                if c2:
                    p, best, changed = q, c2, True
                    break
        if changed:
            continue
        names = sorted({k for f in p["fields"] for k in list(f["props"]) + list(f["ncg"])})
        for nm in names:
            q = json.loads(json.dumps(p))
            for f in q["fields"]:
                f["props"].pop(nm, None)
                f["ncg"].pop(nm, None)
            c2 = attempt(q)
            if c2:
                p, best, changed = q, c2, True
                break
    return best


# =========================================================================== shrinking
def shrink(c, run):
    """drop siblings, then ops, while the oracle still fails with the same signature"""
    if c.stream == "C09.gp":
        return gp_shrink(c)
    sig = classify(c)
    best = c
    recipe = json.loads(json.dumps(c.payload["recipe"]))

    def attempt(rec):
        if len(rec["sibs"]) < 2:
            return None
        n = len(rec["sibs"])
        c2 = case_from(rec, [], "quick", 0, orders=[list(o) for o in itertools.permutations(range(n))][:24])
        c2.impl_out = impl(c2)
        if c2.line is not None:
            try:
                c2.model_out = fw.model_run([c2.line])[0]
            except Exception:
                c2.model_out = None
        c2.oracle_fail = oracle(c2)
        if c2.oracle_fail and classify(c2) == sig:
            return c2
        return None

    changed = True
    while changed:
        changed = False
        for i in range(len(recipe["sibs"])):
            rec = json.loads(json.dumps(recipe))
            del rec["sibs"][i]
            c2 = attempt(rec)
            if c2:
                recipe, best, changed = rec, c2, True
                break
        if changed:
            continue
        for i, ops in enumerate(recipe["sibs"]):
            for j in range(len(ops)):
                rec = json.loads(json.dumps(recipe))
                del rec["sibs"][i][j]
                c2 = attempt(rec)
                if c2:
                    recipe, best, changed = rec, c2, True
                    break
            if changed:
                break
    return best if best is not c else None
