"""C10 — writing never damages its inputs or the files they still read from.

Streams
  C10.hist  constructs read lazily from scratch files X (0), Y (1), M (5: a second copy of X's
            seed) [+ an in-memory twin], a derivation history (copy, Field(source=), subspace,
            squeeze, transpose, insert_dimension, get_domain, convert, del/set construct,
            set_data / set_bounds with another construct's (lazy) data, Data(source()),
            assignment to data, to_memory, external cell measures), then cfdm.write(items, target) in mode w / a / r+
            with option sets, overwrite on/off, an external file, spelled absolute / relative /
            dotted / ~ / $VAR / through a symbolic link, with failures injected (argument
            validation; an exception raised from the k-th variable of item i).
  C10.tree  the WHOLE component tree (harness/c10_tree.py): compressed arrays (ragged, gathered, subsampled,
            UGRID bounds from nodes) rebuilt part by part through the public constructors, every kind of
            component equally often the only file-backed one; get_original_filenames() and the write
            against lean/Cfdm/Model/FilesTree.lean.
  C10.path  which name is decided on, which inode is opened (harness/c10_path.py): $VAR, ${VAR}, ~, ./,
            sub/../, a directory link, chains of symbolic links of depth 1-3, hard links, dangling links,
            directories, an environment variable whose value contains a `$`; against
            lean/Cfdm/Model/FilesPath.lean.

Observed on the implementation and compared with the Lean model (`lean/Cfdm/Model/Files.lean`):
get_filenames() / get_original_filenames() of the object each operation produced (field,
every metadata construct, its data and its bounds; as sets of symbolic file names) together
with the files the object *really* still needs (independent walk over every file array,
including bounds, interior rings and count/index/list variables); ok / raised:<enum> of the
write; same / touched (sha256 + size + inode + mtime + link target) of every file in the scratch
directory (the file that was opened for appending: `open`).

Oracle (independent of the model): structural fingerprint (harness/fingerprint.py + compression
state + netCDF variable / dimension / sample-dimension names and properties of the count, index, list,
tie point index, interpolation parameter, node count, part node count and interior ring variables) of
every input before and after the write, and the same without array values for copies of the inputs
taken before the write and for every other register of the history; every file
still needed by an input is byte-identical after the write, whatever the mode and the outcome;
overwrite=False (mode w) leaves an existing file byte-identical; the interpreter survives.

C10.hist: the first half of the model line is the code at /repo HEAD, the second half the code before
the repairs 7723aa6 / 22fef00 (it serves to recognise a regression to one of the four repaired defects).
C10.tree / C10.path: the model prints the prediction of the code at HEAD (`old`) and of the code with
fixes/C10-{interpolation-parameters,node-coordinates,same-inode,external-name}.patch (`new`); either
counts as agreement, the oracle alone decides the property, and the four open findings are recognised by
`classify` from the failing input.
"""
import ast
import atexit
import gc
import hashlib
import json
import os
import shutil
import tempfile

import numpy as np

from .. import fingerprint as FP
from .. import fw
from ..fw import Case
from ..gen import fields as GF
from .. import c10_tree as TREE
from .. import c10_path as PATH

REQUIRED = [
    "C10_need_subset_orig",
    "C10_get_filenames_sound",
    "C10_get_filenames_incomplete",
    "C10_guard_sound",
    "C10_guard_sound_histories",
    "C10_refusal_pure",
    "C10_no_overwrite",
    "C10_needed_files_intact",
    "C10_other_files_untouched",
    "C10_inputs_unchanged",
    "C10_shared_copy_counterexample",
    "C10_inputs_unchanged_parts",
    "C10_shared_list_variable_counterexample",
    "C10_old_guard_sound_partial",
    "C10_old_transplant_counterexample",
    "C10_old_symlink_counterexample",
    "C10_old_external_counterexample",
    "C10_old_append_counterexample",
    # the whole component tree (lean/Cfdm/Model/FilesTree.lean)
    "C10_tree_need_subset_orig",
    "C10_tree_wellTyped_needed",
    "C10_tree_records_irrelevant",
    "C10_tree_histories",
    "C10_tree_old_partial",
    "C10_tree_old_interp_param_counterexample",
    "C10_tree_old_node_coordinates_counterexample",
    # which name is decided on, which inode is opened (lean/Cfdm/Model/FilesPath.lean)
    "C10_path_refusal_pure",
    "C10_path_no_overwrite",
    "C10_path_opened_names_checked",
    "C10_path_needed_intact",
    "C10_tree_write_safe",
    "C10_path_footprint",
    "C10_path_old_needed_intact_partial",
    "C10_path_old_hard_link_append_counterexample",
    "C10_path_old_external_expanded_twice_counterexample",
    "C10_bystander_not_protected",
]
BUDGET = {"quick": 320, "thorough": 6000}
QUICK_JOBS = 4
TIME_LIMIT = {"quick": 170, "thorough": 1400}
RULE = (
    "C10.hist (50 %): histories of 0-8 operations (drawn by trying them on the real objects, so every recorded operation "
    "succeeds) over registers r0 = read(X)[i] (X spelled absolute / relative / ~ / through a symbolic link), r1 = read(Y)[j], "
    "r2 = read(M)[i] and an in-memory twin; seeds: example fields 0-7, ragged contiguous / indexed / indexed contiguous, "
    "gathered, geometry and interior-ring test files, random fields, Field.compress('contiguous'|'indexed'|"
    "'indexed_contiguous') results and gathered fields built in memory (cfdm.GatheredArray + cfdm.List) whose count / "
    "index / list variables have no netCDF name or one that is taken in the output (another item's, a coordinate's, the "
    "field's own); then one write of 1-3 items (registers or their "
    ".domain view) to X, Y, Z (existing, unrelated), W (absent), L (symbolic link to X or Z) or M, mode w/a/r+, "
    "overwrite on/off, option sets, external file, injected failures.  "
    "C10.tree (25 %): a field read from X (seeds: subsampled, UGRID, ragged, gathered, geometry, interior-ring test files) "
    "or from its copy M or rebuilt record-free in memory; 1-4 steps (a compressed array rebuilt through its public "
    "constructor with each part - underlying array, count / index / list / tie point index / interpolation parameter "
    "variables, dependent tie points, node coordinates - kept, taken from the twin dataset, brought to memory or wrapped in "
    "a fresh variable; Data(source()); a fresh construct / bounds / interior ring; a fresh field; transplant from the twin); "
    "in 65 % of the cases exactly one component, of a kind drawn uniformly from the 18 kinds the seeds have, is the only "
    "file-backed one; to_memory() of one sub-object; write to X (mostly), M, Z or W.  "
    "C10.path (25 %): X, Y, Z, optional hard link to X or Z, link chains of depth 1-3 to X / Z / Y / the hard link / an "
    "absent name, a dangling link, a directory; a field read from X under one of 10 spellings (absolute, relative, ./, "
    "sub/../, ~, $VAR, ${VAR}, a directory link, the link chain, the hard link), written alone or with an in-memory field / "
    "a field from Y / an external cell measure, to any of these names under any spelling (or `$A` with A='$B/x.nc'), mode "
    "w/a/r+, overwrite on/off (60 % of the overwrite=False cases aim at an existing file nobody needs, through a chain or "
    "a hard link), external file, injected failures.  non-trivial = some written item still needs a file; "
    "distinct = distinct (seeds, history, write request)"
)
ASSUMPTIONS = [
    "'overwrite disabled' concerns mode w (append mode ignores the option by design: appending is not overwriting)",
    "what an append (successful or failed) leaves in a file that no input needs is not constrained here (C17's subject); "
    "requests to append to such a file are generated only when a plain append of the same items works at all, and an "
    "interpreter crash during such an append is not counted (cfdm's append re-reads the target while it is open)",
    "C10.hist: one level of symbolic links; chains of links, hard links, dangling links, directories and the "
    "expansion of ~ / $VAR are modelled and generated in C10.path; bind mounts, case-insensitive or network file systems, "
    "symbolic-link loops and OS-level partial writes are not modelled",
    "the property protects the constructs PASSED to the write: a construct that is not passed and still reads lazily from "
    "the target loses its data when the target is overwritten (C10_bystander_not_protected) - nothing cfdm.write could "
    "look at; the other registers of a history are only required to keep their metadata",
    "the working directory does not change between read and write when a file was read under a relative name (file arrays "
    "keep the name as given: after a chdir their data cannot be read at all, and the recorded absolute name still guards "
    "the file)",
    "what get_original_filenames() reports is an input of C10.path (the aggregation is C10.tree's subject); the names of "
    "the file arrays come from an independent walk over __dict__",
    "C10.tree compares refused / proceeds only (cfdm cannot write subsampled coordinates and most rebuilt UGRID fields: the "
    "write fails after the target was opened - which is exactly when an unguarded source file is lost)",
    "the checks run as root: permission failures (read-only directory / file) cannot be provoked and are not generated",
    "aliasing between registers is avoided (every transplant copies, the domain view is only taken at the write)",
    "a failing write may leave a partial *target*; only files that an input still needs, the inputs themselves and "
    "overwrite=False are constrained",
    "items are generated so that they can be written at all with the chosen options (a trial write to a scratch name); "
    "natural failures of the writer are not this property's subject, injected failures are",
]

NAMES = {0: "x.nc", 1: "y.nc", 2: "z.nc", 3: "w.nc", 4: "l.nc", 5: "m.nc"}
SHORT = {"dimensioncoordinate": "dim", "auxiliarycoordinate": "aux", "cellmeasure": "msr", "fieldancillary": "fanc",
         "domainancillary": "danc", "domaintopology": "topo", "cellconnectivity": "conn", "coordinatereference": "ref",
         "domainaxis": "a"}
LONG = {v: k for k, v in SHORT.items()}
CTYPE = {"dimension_coordinate": "dim", "auxiliary_coordinate": "aux", "cell_measure": "msr", "field_ancillary": "fanc",
         "domain_ancillary": "danc", "domain_topology": "topo", "cell_connectivity": "conn",
         "coordinate_reference": "ref"}

SIG_TRANSPLANT = "set-data-from-another-construct-then-write-to-its-file"
SIG_ALIAS = "file-read-or-written-through-a-symbolic-link"
SIG_EXTERNAL = "external-file-is-a-file-the-fields-read-from"
SIG_APPEND = "append-to-a-file-the-fields-read-from"
WHY2SIG = {"transplant": SIG_TRANSPLANT, "alias": SIG_ALIAS, "external": SIG_EXTERNAL}

_cfdm = None


def cfdm():
    global _cfdm
    if _cfdm is None:
        import logging
        import cfdm as m
        m.log_level("DISABLE")
        logging.disable(logging.CRITICAL)
        _cfdm = m
    return _cfdm


class InjectedFault(Exception):
    pass


class SkipCase(Exception):
    pass


# --------------------------------------------------------------------------- scratch + seeds
_scratch = None
_counter = [0]
CTF = ["contiguous_file", "indexed_file", "indexed_contiguous_file", "gathered_file", "geometry_1_file",
       "interior_ring_file"]
# test files used by the C10.tree stream only (cfdm cannot write subsampled coordinates; UGRID needs more care)
CTF_TREE = ["subsampled_1", "ugrid_1", "ugrid_2"]
_ctf_funcs = None


def scratch():
    global _scratch
    if _scratch is None or not os.path.isdir(_scratch):
        _scratch = tempfile.mkdtemp(prefix="verif_c10_")
        atexit.register(shutil.rmtree, _scratch, True)
        os.makedirs(os.path.join(_scratch, "lib"))
    return _scratch


def pre():
    """Parent process: one scratch directory for the run, the fixed seed files built once."""
    scratch()
    for i in range(8):
        seed_path(dict(kind="example", i=i))
    for n in CTF + CTF_TREE:
        seed_path(dict(kind="ctf", name=n))
    for sd in COMP_SEEDS + GATH_SEEDS:
        seed_path(sd)


def ctf_funcs():
    global _ctf_funcs
    if _ctf_funcs is None:
        import netCDF4
        src = (fw.REPO / "cfdm" / "test" / "create_test_files.py").read_text()
        tree = ast.parse(src)
        ns = dict(netCDF4=netCDF4, np=np, VN="1.11", os=os)
        _ctf_funcs = {}
        for node in tree.body:
            if isinstance(node, ast.FunctionDef) and node.name.startswith("_make_") and node.name[6:] in CTF + CTF_TREE:
                try:
                    exec(compile(ast.Module(body=[node], type_ignores=[]), "create_test_files.py", "exec"), ns)
                    _ctf_funcs[node.name[6:]] = ns[node.name]
                except Exception:
                    pass
    return _ctf_funcs


def seed_key(seed):
    return hashlib.sha1(json.dumps(seed, sort_keys=True).encode()).hexdigest()[:12]


def seed_field(seed):
    """The in-memory field(s) a seed file is written from (None for the hand-made test files)."""
    C = cfdm()
    if seed["kind"] == "example":
        return C.example_field(seed["i"])
    if seed["kind"] == "random":
        import random
        return GF.random_field(random.Random(seed["s"]), max_axes=3)
    if seed["kind"] == "compress":
        # Field.compress: the count / index variables it creates have no netCDF names
        return C.example_field(seed["i"]).compress(seed["method"])
    if seed["kind"] == "gathered":
        return gathered_field(seed.get("list"))
    return None


def gathered_field(list_ncvar):
    """A field compressed by gathering, built in memory (cfdm.GatheredArray + cfdm.List); the list
    variable has no netCDF name, or one that is / may be taken in the output (`lat` is the latitude
    coordinate's variable and dimension, `pr` the field's own variable)."""
    C = cfdm()
    compressed = np.array([[280.0, 282.5, 281.0], [279.0, 278.0, 277.5]])
    f = C.Field(properties={"standard_name": "precipitation_flux", "units": "kg m-2 s-1"})
    f.nc_set_variable("pr")
    T = f.set_construct(C.DomainAxis(2))
    Y = f.set_construct(C.DomainAxis(3))
    X = f.set_construct(C.DomainAxis(2))
    for ax, name, nc, vals, units in ((T, "time", "time", [0.0, 1.0], "days since 2000-01-01"),
                                      (Y, "latitude", "lat", [-30.0, 0.0, 30.0], "degrees_north"),
                                      (X, "longitude", "lon", [10.0, 20.0], "degrees_east")):
        c = C.DimensionCoordinate(properties={"standard_name": name, "units": units}, data=C.Data(vals))
        c.nc_set_variable(nc)
        f.set_construct(c, axes=[ax])
    lv = C.List(properties={"long_name": "land points"}, data=C.Data(np.array([1, 4, 5])))
    if list_ncvar:
        lv.nc_set_variable(list_ncvar)
    arr = C.GatheredArray(compressed_array=C.Data(compressed), compressed_dimensions={1: (1, 2)}, shape=(2, 3, 2),
                          list_variable=lv)
    f.set_data(C.Data(arr), axes=[T, Y, X])
    return f


def seed_path(seed):
    """Path of the library copy of a seed file (built on first use)."""
    C = cfdm()
    p = os.path.join(scratch(), "lib", seed_key(seed) + ".nc")
    if os.path.exists(p):
        return p
    tmp = p + f".{os.getpid()}.tmp"
    if seed["kind"] == "ctf":
        fn = ctf_funcs().get(seed["name"])
        if fn is None:
            raise fw.HarnessError(f"cannot build test file {seed['name']}")
        cwd = os.getcwd()
        os.chdir(os.path.dirname(p))
        try:
            fn(tmp)
        finally:
            os.chdir(cwd)
    else:
        try:
            C.write(seed_field(seed), tmp)
            if seed["kind"] == "random":
                for g in C.read(tmp):        # must be readable again (and its data too)
                    g.data.array
        except Exception as e:
            if os.path.exists(tmp):
                os.remove(tmp)
            if seed["kind"] == "random":
                return None
            raise fw.HarnessError(f"cannot write seed {seed}: {e!r}")
    os.replace(tmp, p)
    return p


# --------------------------------------------------------------------------- environment of one case
class Env:
    """A scratch directory with the files of one case and the registers read from them."""

    def __init__(self, payload):
        C = cfdm()
        self.p = payload
        _counter[0] += 1
        self.dir = os.path.join(scratch(), f"c{os.getpid()}_{_counter[0]}")
        os.makedirs(self.dir)
        self.cwd = os.getcwd()
        self.home = os.environ.get("HOME")
        os.chdir(self.dir)
        os.environ["HOME"] = self.dir
        os.environ["C10DIR"] = self.dir
        self.path = {n: os.path.join(self.dir, NAMES[n]) for n in NAMES}
        sx = seed_path(payload["seed"])
        sy = seed_path(payload["seedY"])
        if sx is None or sy is None:
            self.close()
            raise fw.HarnessError("seed file could not be written")
        shutil.copyfile(sx, self.path[0])
        shutil.copyfile(sy, self.path[1])
        shutil.copyfile(seed_path(dict(kind="example", i=2)), self.path[2])
        shutil.copyfile(sx, self.path[5])
        self.link = payload.get("link")
        if self.link is not None:
            os.symlink(self.path[self.link], self.path[4])
        self.by_path = {os.path.abspath(v): k for k, v in self.path.items()}
        # registers
        rv = payload.get("readvia", "abs")
        if rv == "link" and self.link != 0:
            rv = "abs"
        spelled = {"abs": self.path[0], "rel": NAMES[0], "tilde": "~/" + NAMES[0], "link": self.path[4]}[rv]
        self.read_name = 4 if rv == "link" else 0
        fx = C.read(spelled)
        fy = C.read(self.path[1])
        fm = C.read(self.path[5])
        ix = payload["ix"] % len(fx)
        iy = payload["iy"] % len(fy)
        self.regs = [fx[ix], fy[iy], fm[ix]]
        self.rule_own = [[self.read_name], [1], [5]]
        twin = seed_field(payload["seed"]) if payload.get("twin", True) else None
        if twin is not None:
            self.regs.append(twin)
            self.rule_own.append([])

    def real(self, n):
        return self.link if (n == 4 and self.link is not None) else n

    def names(self, paths):
        out = set()
        for q in paths:
            k = self.by_path.get(os.path.abspath(q))
            if k is None:
                raise fw.HarnessError(f"file name outside the scratch directory: {q}")
            out.add(k)
        return out

    def S(self, paths):
        s = sorted(self.names(paths))
        return ".".join(str(x) for x in s) if s else "-"

    def close(self):
        try:
            os.chdir(self.cwd)
            if self.home is None:
                os.environ.pop("HOME", None)
            else:
                os.environ["HOME"] = self.home
        finally:
            self.regs = None
            gc.collect()
            shutil.rmtree(self.dir, ignore_errors=True)


# --------------------------------------------------------------------------- keys
def short(key):
    for k, v in SHORT.items():
        if key.startswith(k):
            return v + key[len(k):]
    raise fw.HarnessError(f"unknown construct key {key}")


def long(key):
    i = len(key)
    while i > 0 and key[i - 1].isdigit():
        i -= 1
    return LONG[key[:i]] + key[i:]


def modelled_constructs(f):
    out = {}
    for k, c in f.constructs.todict().items():
        t = CTYPE.get(getattr(c, "construct_type", None))
        if t is not None:
            out[k] = (t, c)
    return out


# --------------------------------------------------------------------------- independent walk: files really needed
def array_files(a):
    try:
        return set(a.get_filenames())
    except AttributeError:
        return set()


def data_need(d):
    out = set()
    if d is None:
        return out
    src = d.source(None)
    if src is None:
        return out
    out |= array_files(src)
    for g in ("get_count", "get_index", "get_list"):
        try:
            v = getattr(d, g)(None)
        except Exception:
            v = None
        if v is not None:
            vd = v.get_data(None)
            if vd is not None:
                s2 = vd.source(None)
                if s2 is not None:
                    out |= array_files(s2)
    return out


def true_need(f):
    out = set()
    if hasattr(f, "get_data"):
        out |= data_need(f.get_data(None))
    for _, (t, c) in modelled_constructs(f).items():
        if hasattr(c, "get_data"):
            out |= data_need(c.get_data(None))
        if hasattr(c, "get_bounds"):
            b = c.get_bounds(None)
            if b is not None:
                out |= data_need(b.get_data(None))
        if hasattr(c, "get_interior_ring"):
            r = c.get_interior_ring(None)
            if r is not None:
                out |= data_need(r.get_data(None))
    return out


# --------------------------------------------------------------------------- observation of one object
def obs_field(env, f):
    dom = not hasattr(f, "get_data")
    s = ("D" if dom else "F") + " n=" + env.S(f.get_filenames()) + " o=" + env.S(f.get_original_filenames()) + \
        " t=" + env.S(true_need(f))
    parts = []
    for k, (t, c) in modelled_constructs(f).items():
        sk = short(k)
        n = env.S(c.get_filenames()) if hasattr(c, "get_filenames") else "-"
        o = env.S(c.get_original_filenames())
        d = c.get_data(None) if hasattr(c, "get_data") else None
        do = env.S(d.get_original_filenames()) if d is not None else "!"
        b = c.get_bounds(None) if hasattr(c, "get_bounds") else None
        if b is not None:
            bn = env.S(b.get_filenames())
            bo = env.S(b.get_original_filenames())
        else:
            bn = bo = "!"
        parts.append((sk, f"{sk}:{n}:{o}:{do}:{bn}:{bo}"))
    parts.sort()
    return s + "".join("/" + p for _, p in parts)


# --------------------------------------------------------------------------- abstraction (initial registers)
def _N(names):
    s = sorted(set(names))
    return ".".join(str(x) for x in s) if s else "-"


def abs_data(env, d, own):
    if d is None:
        return "!"
    src = d.source(None)
    files = env.names(array_files(src)) if src is not None else set()
    anc = []
    for g in ("get_count", "get_index", "get_list"):
        try:
            v = getattr(d, g)(None)
        except Exception:
            v = None
        if v is not None:
            vd = v.get_data(None)
            vf = set()
            if vd is not None and vd.source(None) is not None:
                vf = env.names(array_files(vd.source(None)))
            anc.append(f"{_N(own)}~{_N(own if vd is not None else [])}~{_N(vf)}")
    return f"{_N(own)}^{_N(files)}^{'+'.join(anc) if anc else '_'}"


def abs_holder(env, h, own):
    if h is None:
        return "!"
    return f"{_N(own)}%{abs_data(env, h.get_data(None), own)}"


def abs_field(env, f, own):
    dom = not hasattr(f, "get_data")
    da = f.constructs.data_axes()
    cons = []
    for k, (t, c) in sorted(modelled_constructs(f).items()):
        cown = [] if t == "ref" else own
        d = c.get_data(None) if hasattr(c, "get_data") else None
        b = c.get_bounds(None) if hasattr(c, "get_bounds") else None
        r = c.get_interior_ring(None) if hasattr(c, "get_interior_ring") else None
        ext = 1 if (hasattr(c, "nc_get_external") and c.nc_get_external()) else 0
        rc = ra = "-"
        if t == "ref":
            rc = ".".join(sorted(short(x) for x in c.coordinates())) or "-"
            ra = ".".join(sorted(short(x) for x in c.coordinate_conversion.domain_ancillaries().values()
                                 if x is not None)) or "-"
        axes = ".".join(short(a) for a in da.get(k, ())) or "-"
        cons.append(",".join([short(k), t, _N(cown), abs_data(env, d, cown), abs_holder(env, b, cown),
                              abs_holder(env, r, cown), axes, str(ext), rc, ra]))
    axes = ".".join(f"{short(k)}:{a.get_size(0)}" for k, a in sorted(f.domain_axes(todict=True).items())) or "-"
    if dom:
        data, daxes = "!", "-"
    else:
        data = abs_data(env, f.get_data(None), own)
        daxes = ".".join(short(a) for a in f.get_data_axes(default=())) or "-"
    return "|".join(["D" if dom else "F", _N(own), data, daxes, axes, ";".join(cons) if cons else "-"])


# --------------------------------------------------------------------------- operations on the real objects
def get_slot_holder(f, slot):
    if slot == "f":
        return f
    kind, key = slot.split("-", 1)
    c = f.construct(long(key))
    if kind == "c":
        return c
    return c.get_bounds()


def apply_op(regs, tok):
    """Apply one operation; raises whatever cfdm raises.  Mutations on a copy unless in place."""
    C = cfdm()
    p = tok.split(":")
    op = p[0]
    r = int(p[1])
    f = regs[r]

    def put(h, ip):
        if ip:
            regs[r] = h
        else:
            regs.append(h)

    if op == "copy":
        regs.append(f.copy())
    elif op == "source":
        regs.append(type(f)(source=f))
    elif op == "subE":
        regs.append(f[...])
    elif op == "sub":
        sizes = [int(x) for x in p[2].split(".")]
        regs.append(f[tuple(slice(0, n) for n in sizes)])
    elif op == "squeeze":
        regs.append(f.squeeze())
    elif op == "transpose":
        regs.append(f.transpose())
    elif op == "insdim":
        regs.append(f.insert_dimension(long(p[2])))
    elif op == "domain":
        regs.append(f.get_domain().copy())
    elif op == "convert":
        regs.append(f.convert(long(p[2])))
    else:
        ip = p[-1] == "1"
        h = f if ip else f.copy()
        if op == "delcons":
            h.del_construct(long(p[2]))
        elif op == "setcons":
            src = regs[int(p[2])]
            c = src.construct(long(p[3]))
            axes = [long(a) for a in p[5].split(".")] if p[5] != "-" else None
            if axes is None:
                h.set_construct(c, key=long(p[4]))
            else:
                h.set_construct(c, key=long(p[4]), axes=axes)
        elif op == "setdata":
            src = regs[int(p[3])]
            d = get_slot_holder(src, p[4]).get_data()
            holder = get_slot_holder(h, p[2])
            old = holder.get_data(None)
            if old is not None and tuple(old.shape) != tuple(d.shape):
                raise ValueError("transplants are generated between equal shapes only")
            if p[5] == "1":
                d = C.Data(d.source())
            holder.set_data(d)
        elif op == "setbounds":
            b = regs[int(p[3])].construct(long(p[4])).get_bounds()
            tgt = h.construct(long(p[2]))
            if tgt.get_data(None) is None or b.get_data(None) is None or \
                    tuple(b.data.shape[:tgt.data.ndim]) != tuple(tgt.data.shape) or b.data.ndim != tgt.data.ndim + 1:
                raise ValueError("bounds are generated for matching shapes only")
            tgt.set_bounds(b)
        elif op == "delbounds":
            h.construct(long(p[2])).del_bounds()
        elif op == "tomem":
            t = p[2]
            if t == "f":
                h.to_memory(inplace=True)
            elif t == "all":
                if hasattr(h, "get_data"):
                    h.to_memory(inplace=True)
                for c in h.constructs.todict().values():
                    if hasattr(c, "to_memory"):
                        c.to_memory(inplace=True)
            else:
                h.construct(long(t[2:])).to_memory(inplace=True)
        elif op == "assign":
            d = get_slot_holder(h, p[2]).get_data()
            if d.size < 1:
                raise ValueError("nothing to assign to")
            ix = (0,) * d.ndim if d.ndim else Ellipsis
            d[ix] = d[ix].array          # Data.__setitem__ on the object held by the construct
        elif op == "setext":
            c = h.construct(long(p[2]))
            if c.construct_type != "cell_measure" or c.nc_get_variable(None) is None:
                raise ValueError("not an external-capable cell measure")
            c.nc_set_external(True)
        elif op == "addmsr":
            axes = [long(a) for a in p[3].split(".")] if p[3] != "-" else []
            sizes = h.domain_axes(todict=True)
            shape = tuple(sizes[a].get_size() for a in axes)
            cm = C.CellMeasure(measure="area", properties={"units": "m2"})
            cm.set_data(C.Data(np.arange(int(np.prod(shape)) if shape else 1, dtype="f8").reshape(shape)))
            cm.nc_set_variable("c10_external_area")
            cm.nc_set_external(True)
            h.set_construct(cm, key=long(p[2]), axes=axes)
        else:
            raise fw.HarnessError(f"unknown operation {tok}")
        put(h, ip)


def try_op(regs, tok):
    """Generator side: try on a copy first so that a failing in-place operation leaves no trace,
    and keep only operations whose result is still a sound object (can be copied)."""
    r = int(tok.split(":")[1])
    trial = list(regs)
    trial[r] = regs[r].copy()
    try:
        apply_op(trial, tok)
        trial[r].copy()
        trial[-1].copy()
    except fw.HarnessError:
        raise
    except Exception:
        return False
    try:
        apply_op(regs, tok)
    except fw.HarnessError:
        raise
    except Exception:
        # worked on the copy, not on the object itself: give this case up
        raise SkipCase(tok)
    return True


def propose(rng, regs):
    """A random operation token over the current registers."""
    r = rng.randrange(len(regs))
    f = regs[r]
    isdom = not hasattr(f, "get_data")
    cons = modelled_constructs(f)
    keys = sorted(cons)
    withdata = [k for k in keys if hasattr(cons[k][1], "get_data") and cons[k][1].get_data(None) is not None]
    withbounds = [k for k in keys if hasattr(cons[k][1], "get_bounds") and cons[k][1].get_bounds(None) is not None]
    ip = rng.choice("001")
    kinds = ["copy", "source", "subE", "sub", "sub", "squeeze", "transpose", "insdim", "domain", "convert", "delcons",
             "setcons", "setdata", "setdata", "setdata", "setdata", "setbounds", "delbounds", "tomem", "tomem", "setext",
             "addmsr", "assign"]
    k = rng.choice(kinds)
    if k in ("copy", "source", "subE", "squeeze", "transpose", "domain"):
        return f"{k}:{r}"
    if k == "sub":
        if isdom or f.get_data(None) is None:
            return f"copy:{r}"
        shape = f.data.shape
        sizes = [rng.choice([n, n, max(1, n - 1), 1, rng.randint(1, n)]) for n in shape]
        if not sizes:
            return f"copy:{r}"
        return f"sub:{r}:" + ".".join(str(s) for s in sizes)
    if k == "insdim":
        axes = sorted(f.domain_axes(todict=True))
        if not axes:
            return f"copy:{r}"
        return f"insdim:{r}:{short(rng.choice(axes))}"
    if k == "convert":
        if isdom or not withdata:
            return f"copy:{r}"
        return f"convert:{r}:{short(rng.choice(withdata))}"
    if k == "delcons":
        if not keys:
            return f"copy:{r}"
        return f"delcons:{r}:{short(rng.choice(keys))}:{ip}"
    src = rng.randrange(len(regs))
    g = regs[src]
    gcons = modelled_constructs(g)
    gkeys = sorted(gcons)
    gdata = [x for x in gkeys if hasattr(gcons[x][1], "get_data") and gcons[x][1].get_data(None) is not None]
    gbounds = [x for x in gkeys if hasattr(gcons[x][1], "get_bounds") and gcons[x][1].get_bounds(None) is not None]
    if k == "setcons":
        cand = [x for x in gkeys if gcons[x][0] != "ref"]
        if not cand:
            return f"copy:{r}"
        ck = rng.choice(cand)
        same = ck if rng.random() < 0.7 else ck.rstrip("0123456789") + str(rng.randint(5, 7))
        axes = g.constructs.data_axes().get(ck, ())
        return f"setcons:{r}:{src}:{short(ck)}:{short(same)}:{'.'.join(short(a) for a in axes) or '-'}:{ip}"
    if k == "setdata":
        slots_to = ([] if isdom else ["f"]) + ["c-" + short(x) for x in withdata] + ["b-" + short(x) for x in withbounds]
        gdom = not hasattr(g, "get_data")
        slots_from = ([] if gdom or g.get_data(None) is None else ["f"]) + ["c-" + short(x) for x in gdata] + \
                     ["b-" + short(x) for x in gbounds]
        if not slots_to or not slots_from:
            return f"copy:{r}"
        # like to like most of the time, so that shapes agree
        to = rng.choice(slots_to)
        fr = to if (to in slots_from and rng.random() < 0.8) else rng.choice(slots_from)
        raw = 1 if rng.random() < 0.2 else 0
        return f"setdata:{r}:{to}:{src}:{fr}:{raw}:{ip}"
    if k == "setbounds":
        if not withdata or not gbounds:
            return f"copy:{r}"
        kk = rng.choice(withdata)
        k2 = kk if (kk in gbounds and rng.random() < 0.8) else rng.choice(gbounds)
        return f"setbounds:{r}:{short(kk)}:{src}:{short(k2)}:{ip}"
    if k == "delbounds":
        if not withbounds:
            return f"copy:{r}"
        return f"delbounds:{r}:{short(rng.choice(withbounds))}:{ip}"
    if k == "tomem":
        t = rng.choice(["f", "all"] + ["c-" + short(x) for x in withdata[:3]])
        if isdom and t == "f":
            t = "all"
        return f"tomem:{r}:{t}:{ip}"
    if k == "assign":
        slots = ([] if isdom or f.get_data(None) is None else ["f"]) + ["c-" + short(x) for x in withdata] + \
                ["b-" + short(x) for x in withbounds if cons[x][1].get_bounds().get_data(None) is not None]
        if not slots:
            return f"copy:{r}"
        return f"assign:{r}:{rng.choice(slots)}:{ip}"
    if k == "setext":
        m = [x for x in keys if cons[x][0] == "msr"]
        if not m:
            return f"copy:{r}"
        return f"setext:{r}:{short(rng.choice(m))}:{ip}"
    if k == "addmsr":
        if isdom:
            return f"copy:{r}"
        axes = f.get_data_axes(default=())
        return f"addmsr:{r}:msr9:{'.'.join(short(a) for a in axes) or '-'}:{ip}"
    return f"copy:{r}"


# --------------------------------------------------------------------------- option sets
OPTSETS = [
    {}, {}, {},
    dict(compress=2), dict(compress=4, shuffle=False), dict(fletcher32=True), dict(group=False), dict(coordinates=True),
    dict(string=False), dict(Conventions="CF-1.8"), dict(Conventions=["ACDD-1.3"]), dict(global_attributes=["comment"]),
    dict(file_descriptors={"history": "C10"}), dict(endian="little"), dict(warn_valid=False), dict(hdf5_chunks="contiguous"),
    dict(hdf5_chunks="1 MiB"), dict(fmt="NETCDF4"), dict(omit_data="all"), dict(datatype="f8->f4"),
    dict(fmt="NETCDF4_CLASSIC"), dict(fmt="NETCDF3_64BIT_DATA"),
]


def real_opts(o):
    o = dict(o)
    if o.get("datatype") == "f8->f4":
        o["datatype"] = {np.dtype("float64"): np.dtype("float32")}
    return o


# --------------------------------------------------------------------------- the file system, observed
def entry(path):
    """(identity of the bytes, identity of the directory entry)."""
    if os.path.islink(path):
        st = os.lstat(path)
        return ("link", os.readlink(path)), (st.st_ino, st.st_mtime_ns)
    if os.path.isfile(path):
        h = hashlib.sha256()
        with open(path, "rb") as fh:
            h.update(fh.read())
        st = os.stat(path)
        return ("file", h.hexdigest(), st.st_size), (st.st_ino, st.st_mtime_ns, st.st_size)
    return None, None


# --------------------------------------------------------------------------- extended fingerprint of an input
def _nn(v):
    """netCDF names + properties of a variable-like component."""
    if v is None:
        return None
    return dict(nc=FP.nc_names(v), props=FP.fp_props(v), cls=type(v).__name__)


def data_names(d):
    """Compression state of a Data and the netCDF names of every variable nested in it."""
    if d is None:
        return None
    # (nothing here may open a file: registers that are not being written may have lost theirs)
    out = dict(ct=d.get_compression_type(), nc=FP.nc_names(d))
    for nm in ("count", "index", "list"):
        try:
            v = getattr(d, "get_" + nm)(None)
        except Exception:
            v = None
        if v is not None:
            out[nm] = _nn(v)
            out[nm]["data"] = dict(nc=FP.nc_names(v.get_data(None))) if v.get_data(None) is not None else None
    for nm in ("tie_point_indices", "interpolation_parameters", "dependent_tie_points"):
        try:
            vs = getattr(d, "get_" + nm)({})
        except Exception:
            vs = {}
        if vs:
            out[nm] = {str(k): _nn(v) for k, v in sorted(vs.items(), key=lambda kv: str(kv[0]))}
    try:
        out["cdim"] = d.get_compressed_dimension(None)
        out["caxes"] = list(d.get_compressed_axes())
    except Exception:
        pass
    return out


def fp_names(x):
    """Everything about an object except array values: properties, netCDF names of the object, its
    domain axes, constructs, bounds, interior rings, node count / part node count variables, and of the
    count / index / list / tie point index / interpolation parameter variables nested in any data."""
    out = dict(top=_nn(x))
    if hasattr(x, "get_data"):
        out["data"] = data_names(x.get_data(None))
    try:
        out["globals"] = sorted((k, repr(v)) for k, v in x.nc_global_attributes().items())
    except Exception:
        pass
    cons = {}
    for k, c in sorted(x.constructs.todict().items()):
        e = _nn(c)
        if hasattr(c, "get_size"):
            e["size"] = c.get_size(None)
        if hasattr(c, "get_data"):
            e["data"] = data_names(c.get_data(None))
        if hasattr(c, "get_bounds") and c.get_bounds(None) is not None:
            b = c.get_bounds()
            e["bounds"] = _nn(b)
            e["bounds"]["data"] = data_names(b.get_data(None))
        for g in ("get_interior_ring", "get_node_count", "get_part_node_count"):
            fn = getattr(c, g, None)
            if fn is not None:
                v = fn(None)
                if v is not None:
                    e[g[4:]] = _nn(v)
                    if hasattr(v, "get_data"):
                        e[g[4:]]["data"] = data_names(v.get_data(None))
        if hasattr(c, "nc_get_external"):
            e["ext"] = c.nc_get_external()
        cons[k] = e
    out["cons"] = cons
    return json.dumps(out, sort_keys=True, default=str)


def safe_names(x):
    try:
        return fp_names(x)
    except Exception as e:
        return "unreadable:" + type(e).__name__


def fp_input(x):
    out = {}

    def dat(tag, dd):
        if dd is None:
            return
        ct = dd.get_compression_type()
        e = dict(ct=ct, dtype=str(dd.dtype), shape=list(dd.shape))
        if ct:
            for nm in ("count", "index", "list"):
                try:
                    v = getattr(dd, "get_" + nm)(None)
                except Exception:
                    v = None
                if v is not None:
                    e[nm] = dict(nc=FP.nc_names(v), props=FP.fp_props(v), fp=FP.fp_data(v.get_data(None)))
            try:
                e["cshape"] = list(dd.source().source().shape)
            except Exception:
                pass
        out[tag] = e

    if hasattr(x, "get_data"):
        dat("data", x.get_data(None))
    for k, c in x.constructs.filter_by_data(todict=True).items():
        dat(k, c.get_data(None))
        if hasattr(c, "get_bounds") and c.get_bounds(None) is not None:
            dat(k + ".b", c.bounds.get_data(None))
        if hasattr(c, "nc_get_external"):
            out[k + ".ext"] = c.nc_get_external()
    try:
        out["globals"] = sorted((k, repr(v)) for k, v in x.nc_global_attributes().items())
    except Exception:
        pass
    out["need"] = sorted(true_need(x))
    out["orig"] = sorted(x.get_original_filenames())
    return FP.fp_str(x) + json.dumps(out, sort_keys=True, default=str) + fp_names(x)


def safe_fp(x):
    try:
        return fp_input(x)
    except Exception as e:
        return "unreadable:" + type(e).__name__


# --------------------------------------------------------------------------- fault injection
class Injector:
    """Raise InjectedFault from the k-th netCDF variable written for item number i."""

    def __init__(self, i, k):
        self.i, self.k = i, k

    def __enter__(self):
        from cfdm.read_write.netcdf.netcdfwrite import NetCDFWrite
        self.cls = NetCDFWrite
        self.orig_f = NetCDFWrite._write_field_or_domain
        self.orig_v = NetCDFWrite._write_netcdf_variable
        st = dict(depth=0, idx=-1, nvars=0)
        inj = self

        def wf(w, f, *a, **kw):
            top = st["depth"] == 0 and not w.write_vars.get("dry_run")
            if top:
                st["idx"] += 1
                st["nvars"] = 0
            st["depth"] += 1
            try:
                out = inj.orig_f(w, f, *a, **kw)
            finally:
                st["depth"] -= 1
            if top and st["idx"] == inj.i:
                raise InjectedFault("end of item")
            return out

        def wv(w, *a, **kw):
            if not w.write_vars.get("dry_run") and st["idx"] == inj.i:
                st["nvars"] += 1
                if st["nvars"] == inj.k:
                    raise InjectedFault("variable")
            return inj.orig_v(w, *a, **kw)

        NetCDFWrite._write_field_or_domain = wf
        NetCDFWrite._write_netcdf_variable = wv
        return self

    def __exit__(self, *exc):
        self.cls._write_field_or_domain = self.orig_f
        self.cls._write_netcdf_variable = self.orig_v
        return False


# --------------------------------------------------------------------------- generation
EX_SEEDS = [dict(kind="example", i=i) for i in range(8)]
CTF_SEEDS = [dict(kind="ctf", name=n) for n in CTF]


def plain(seed):
    """No discrete sampling geometry / compression: appends, domain views and format options apply."""
    return seed["kind"] in ("example", "random")


def has_twin(seed):
    return seed["kind"] != "ctf"


COMP_SEEDS = [dict(kind="compress", i=3, method="contiguous"), dict(kind="compress", i=3, method="indexed"),
              dict(kind="compress", i=4, method="indexed_contiguous")]
GATH_SEEDS = [dict(kind="gathered", list=x) for x in (None, None, "list", "landpoint", "lat", "pr")]


def gen_payload(rng):
    r = rng.random()
    if r < 0.45:
        seed = rng.choice(EX_SEEDS[:3] + EX_SEEDS)
    elif r < 0.62:
        seed = rng.choice(CTF_SEEDS)
    elif r < 0.82:
        seed = rng.choice(GATH_SEEDS + COMP_SEEDS)
    else:
        seed = dict(kind="random", s=rng.randrange(10 ** 6))
        if seed_path(seed) is None:
            seed = EX_SEEDS[0]
    seedY = rng.choice([seed, seed, rng.choice(EX_SEEDS)])
    if seed["kind"] == "gathered" and rng.random() < 0.5:
        seedY = rng.choice(GATH_SEEDS)          # another gathered field: list variable names clash
    link = rng.choice([None, None, 0, 0, 2])
    readvia = rng.choice(["abs", "abs", "abs", "rel", "tilde", "link", "link"])
    return dict(seed=seed, seedY=seedY, ix=rng.randrange(4), iy=rng.randrange(4), link=link, readvia=readvia,
                twin=rng.random() < (0.9 if seed["kind"] in ("gathered", "compress") else 0.7))


def gen_write(rng, env, payload):
    regs = env.regs
    n = len(regs)
    allplain = plain(payload["seed"]) and plain(payload["seedY"])
    nitems = rng.choice([1, 1, 1, 2, 2, 3])
    items = []
    for _ in range(nitems):
        r = rng.randrange(n) if rng.random() < 0.5 else n - 1
        dom = hasattr(regs[r], "get_data") and rng.random() < 0.12 and allplain
        items.append(f"{r}{'d' if dom else ''}")
    if payload["seed"]["kind"] in ("gathered", "compress") and payload.get("twin", True) and rng.random() < 0.7:
        # the in-memory twin (count / index / list variables without netCDF names, or with names that are
        # taken), alone or together with fields whose variables want the same names
        items = rng.choice([["3"], ["3"], ["3", "0"], ["0", "3"], ["1", "3"], ["3", str(n - 1)], [str(n - 1), "3"]])
        nitems = len(items)
    # aim at a file that some item still needs, most of the time
    needed = set()
    for it in items:
        f = regs[int(it.rstrip("d"))]
        try:
            needed |= env.names(true_need(f))
        except fw.HarnessError:
            raise
    cands = sorted(needed) * 3 + [0, 0, 1, 2, 3, 5] + ([4, 4] if env.link is not None else [])
    target = rng.choice(cands)
    if target == 0 and env.link == 0 and rng.random() < 0.3:
        target = 4
    mode = rng.choice(["w"] * 7 + (["a", "a", "r+"] if allplain else []))
    if mode != "w":
        # appending a Domain fails for reasons of its own (not this property's subject)
        items = [it for it in items if not it.endswith("d") and hasattr(regs[int(it)], "get_data")]
        if not items:
            mode = "w"
            items = [str(n - 1)]
        nitems = len(items)
    ow = 0 if rng.random() < 0.15 else 1
    spell = rng.choice(["abs", "abs", "rel", "dot", "tilde", "env"])
    ext = None
    if mode == "w" and rng.random() < 0.2:
        ext = rng.choice([0, 1, 2, 3, 5] + sorted(needed))
    fr = rng.random()
    fault, fk = "none", 0
    if fr < 0.08:
        fault = "pre"
    elif fr < 0.3:
        # k = 0: a property that netCDF cannot store, set on the item itself (a natural failure while its
        # data variable is written); k >= 1: an exception raised from the k-th variable of the item
        fault, fk = f"emit:{rng.randrange(nitems)}", rng.randint(0, 4)
    opts = dict(rng.choice(OPTSETS))
    if mode != "w":
        opts.pop("fmt", None)
    if not allplain:
        for k in ("fmt", "datatype"):
            opts.pop(k, None)
    if opts.get("fmt") in ("NETCDF4_CLASSIC", "NETCDF3_64BIT_DATA") and payload["seed"] != EX_SEEDS[0]:
        opts.pop("fmt")
    # the items must be writable at all with these options (natural failures of the writer —
    # e.g. several discrete-sampling-geometry fields in one file — are not this property's subject)
    def objs():
        return [regs[int(it.rstrip("d"))].domain if it.endswith("d") else regs[int(it.rstrip("d"))] for it in items]

    if not _write_works(objs(), env, opts, ext is not None):
        opts = {}
        if not _write_works(objs(), env, opts, ext is not None):
            items = items[:1]
            nitems = 1
            if fault.startswith("emit"):
                fault = "emit:0"
            if not _write_works(objs(), env, opts, ext is not None):
                return None
    # the items are final now: what THEY still need (items dropped above - domain views in append mode, all
    # but the first when the set could not be written together - no longer count)
    needed = set()
    for it in items:
        needed |= env.names(true_need(regs[int(it.rstrip("d"))]))
    if mode != "w" and env.real(target) not in set(env.real(x) for x in needed) and os.path.isfile(env.path[target]):
        # appending to a file nobody needs: keep the request only if a plain append of these items
        # works at all (cfdm's append re-reads the target while it is open and can fail or crash
        # for reasons that are another property's subject)
        if not _append_works([regs[int(it)] for it in items], env.path[target], opts):
            mode = "w"
    rneeded = sorted(set(env.real(x) for x in needed))
    return dict(items=",".join(items), target=target, spell=spell, mode=mode, ow=ow, ext=ext, fault=fault, faultk=fk,
                opts=opts, info=dict(needed=rneeded, target_needed=env.real(target) in rneeded,
                                     external_needed=ext is not None and env.real(ext) in rneeded))


def _write_works(items, env, opts, external=False):
    C = cfdm()
    trial = os.path.join(env.dir, "trial.nc")
    trial2 = os.path.join(env.dir, "trial_ext.nc")
    kw = real_opts(opts)
    if external:
        kw["external"] = trial2
    try:
        C.write(items, trial, **kw)
        return True
    except Exception:
        return False
    finally:
        gc.collect()
        for t in (trial, trial2):
            if os.path.exists(t):
                os.remove(t)


def _append_works(items, path, opts):
    C = cfdm()
    pid = os.fork()
    if pid == 0:
        code = 1
        try:
            C.write(items, path, mode="a", **real_opts(opts))
            code = 0
        except BaseException:
            code = 1
        finally:
            os._exit(code)
    _, st = os.waitpid(pid, 0)
    return st == 0


def gen_hist(rng, n):
    """At most n cases of the history stream."""
    produced = 0
    attempts = 0
    while produced < n and attempts < 3 * n:
        attempts += 1
        payload = gen_payload(rng)
        try:
            env = Env(payload)
        except fw.HarnessError:
            raise
        try:
            init = "/".join(abs_field(env, f, own) for f, own in zip(env.regs, env.rule_own))
            ops = []
            for _ in range(rng.choice([0, 1, 2, 3, 4, 5, 6, 8])):
                tok = propose(rng, env.regs)
                if try_op(env.regs, tok):
                    ops.append(tok)
                if len(env.regs) > 12:
                    break
            payload["ops"] = ops
            w = gen_write(rng, env, payload)
            if w is None:
                continue
            payload.update(w)
            payload["init"] = init
        except SkipCase:
            continue
        finally:
            env.close()
        yield make_case(payload)
        produced += 1


def gen(rng, tier, n):
    # shares of the three streams (the histories are by far the most expensive cases), interleaved so that
    # a worker stopped at the time limit has covered all three in proportion
    n_path = max(1, round(0.25 * n))
    n_tree = max(1, round(0.25 * n))
    n_hist = max(1, n - n_path - n_tree)
    hist = gen_hist(rng, n_hist)
    done = dict(path=0, tree=0, hist=0)
    quota = dict(path=n_path, tree=n_tree, hist=n_hist)
    k = 0
    while any(done[s] < quota[s] for s in done):
        s = ("path", "hist", "tree", "hist")[k % 4]
        k += 1
        if done[s] >= quota[s]:
            continue
        done[s] += 1
        if s == "path":
            p = PATH.gen_one(rng)
            line, info = PATH.finish(p)
            yield PATH.make_case(p, line, info)
        elif s == "tree":
            yield TREE.make_case(TREE.gen_one(rng))
        else:
            c = next(hist, None)
            if c is None:
                quota["hist"] = done["hist"] = 0
            else:
                yield c


def line_of(p):
    fs = ["0=f", "1=f", "2=f", "5=f"]
    if p.get("link") is not None:
        fs.append(f"4=l{p['link']}")
    mode = "a" if p["mode"] in ("a", "r+") else "w"
    return ("C10.hist init=" + p["init"] + " ops=" + (";".join(p["ops"]) if p["ops"] else "-") + " fs=" + ",".join(fs) +
            f" items={p['items']} target={p['target']} mode={mode} ow={p['ow']}" +
            f" ext={'-' if p['ext'] is None else p['ext']} fault={p['fault']}" +
            f" omit={1 if p['opts'].get('omit_data') == 'all' else 0}")


def make_case(p):
    tags = ["mode:" + p["mode"], "target:" + NAMES[p["target"]], "spell:" + p["spell"], "fault:" + p["fault"].split(":")[0],
            "readvia:" + p["readvia"], "seed:" + p["seed"]["kind"], "nops:" + str(len(p["ops"]))]
    tags += sorted(set("op:" + t.split(":")[0] for t in p["ops"]))
    if p["ext"] is not None:
        tags.append("external")
    if not p["ow"]:
        tags.append("overwrite=False")
    for k in p["opts"]:
        tags.append("opt:" + k)
    info = p.get("info") or {}
    if info.get("target_needed"):
        tags.append("target-needed")
    if info.get("external_needed"):
        tags.append("external-needed")
    key = json.dumps({k: v for k, v in p.items() if k not in ("init", "info")}, sort_keys=True)
    # non-trivial: some written item still needs a file (corpus cases carry no info: counted)
    nontrivial = bool(info.get("needed", True))
    return Case("C10.hist", p, line_of(p), key=key, nontrivial=nontrivial, tags=tags)


def from_payload(stream, payload):
    if stream == "C10.tree":
        return TREE.from_payload(payload)
    if stream == "C10.path":
        return PATH.from_payload(payload)
    p = dict(payload)
    env = Env(p)
    try:
        p["init"] = "/".join(abs_field(env, f, own) for f, own in zip(env.regs, env.rule_own))
    finally:
        env.close()
    return make_case(p)


# --------------------------------------------------------------------------- implementation side
def spelled(env, n, how):
    base = NAMES[n]
    if how == "rel":
        return base
    if how == "dot":
        return os.path.join(env.dir, ".", "..", os.path.basename(env.dir), base)
    if how == "tilde":
        return "~/" + base
    if how == "env":
        return "$C10DIR/" + base
    return env.path[n]


def impl(c):
    if c.stream == "C10.tree":
        return TREE.impl(c)
    if c.stream == "C10.path":
        return PATH.impl(c)
    C = cfdm()
    p = c.payload
    env = Env(p)
    try:
        regs = env.regs
        obs = []
        for tok in p["ops"]:
            before = len(regs)
            r = int(tok.split(":")[1])
            try:
                apply_op(regs, tok)
            except fw.HarnessError:
                raise
            except Exception:
                obs.append("rej")
                continue
            changed = regs[-1] if len(regs) > before else regs[r]
            obs.append("ok " + obs_field(env, changed))
        items = []
        for it in p["items"].split(","):
            f = regs[int(it.rstrip("d"))]
            items.append(f.domain if it.endswith("d") else f)
        mode = p["mode"]
        target = p["target"]
        tpath = spelled(env, target, p["spell"])
        treal = env.real(target)
        kw = real_opts(p["opts"])
        kw["mode"] = mode
        kw["overwrite"] = bool(p["ow"])
        if p["ext"] is not None:
            kw["external"] = env.path[p["ext"]]
        if p["fault"] == "pre":
            kw["hdf5_chunks"] = "bad"
        names = sorted(set([0, 1, 2, 5, target] + ([4] if env.link is not None else []) +
                           ([p["ext"]] if p["ext"] is not None else [])))
        natural = p["fault"].startswith("emit") and p["faultk"] == 0
        if natural:
            items[int(p["fault"].split(":")[1])].set_property("c10_unwritable", {"a": 1})
        # -------- before
        fp0 = [safe_fp(x) for x in items]
        # copies of the items taken before the write, and every register of the history (earlier
        # copies, sources and derivatives of the items): none of them may change either
        others = [x.copy() for x in items] + list(regs)
        oth0 = [safe_names(x) for x in others]
        needed = set()
        for x in items:
            needed |= env.names(true_need(x))
        needed_real = sorted(set(env.real(n) for n in needed))
        e0 = {n: entry(env.path[n]) for n in names}
        existed = os.path.isfile(env.path[target])
        # -------- the write
        arg = items[0] if (len(items) == 1 and p["target"] % 2 == 0) else items

        def do_write():
            try:
                if p["fault"].startswith("emit") and not natural:
                    with Injector(int(p["fault"].split(":")[1]), p["faultk"]):
                        C.write(arg, tpath, **kw)
                else:
                    C.write(arg, tpath, **kw)
                out = "ok"
            except Exception as e:
                out = "raised:" + ("fault" if isinstance(e, InjectedFault) else fw.exc_enum(e))
                e = None
            gc.collect()
            return out, [safe_fp(x) for x in items], [safe_names(x) for x in others]

        # always in a child process: a write that re-opens a file which is open for writing (every
        # defect this property is about leads there) can take the interpreter down, and a dead pool
        # worker would hang the run
        if not os.environ.get("C10_NOFORK"):
            rfd, wfd = os.pipe()
            pid = os.fork()
            if pid == 0:
                code = 1
                try:
                    os.close(rfd)
                    res = do_write()
                    with os.fdopen(wfd, "w") as fh:
                        fh.write(json.dumps(res))
                    code = 0
                finally:
                    os._exit(code)
            os.close(wfd)
            with os.fdopen(rfd) as fh:
                txt = fh.read()
            os.waitpid(pid, 0)
            if txt:
                outcome, fp1, oth1 = json.loads(txt)
            else:
                outcome, fp1, oth1 = "crashed", None, None
        else:
            outcome, fp1, oth1 = do_write()
        # -------- after
        e1 = {n: entry(env.path[n]) for n in names}
        states = []
        for n in names:
            if mode != "w" and n == treal and existed and e0[n] != e1[n]:
                states.append(f"{n}=open")
            else:
                states.append(f"{n}=" + ("same" if e0[n] == e1[n] else "touched"))  # bytes and directory entry
        if fp1 is None:
            fp1 = ["unreadable:crashed"] * len(items)
            oth1 = ["unreadable:crashed"] * len(others)
        changed = [i for i, (a, b) in enumerate(zip(fp0, fp1)) if a != b]
        ochanged = [i for i, (a, b) in enumerate(zip(oth0, oth1)) if a != b]
        diff = ""
        if changed:
            i = changed[0]
            try:
                a, b = fp0[i], fp1[i]
                diff = f"item {i}: " + (b if b.startswith("unreadable") else "; ".join(
                    FP.diff(json.loads(a[:a.index("}{") + 1]), json.loads(b[:b.index("}{") + 1]))) or "compression/names/need differ")
            except Exception:
                diff = f"item {i} differs"
        if not diff and changed:
            diff = f"item {changed[0]} differs"
        odiff = ""
        if ochanged:
            i = ochanged[0]
            who = f"copy of item {i} taken before the write" if i < len(items) else f"register {i - len(items)}"
            odiff = who + ": " + _json_diff(oth0[i], oth1[i])
        if changed and "differ" in diff:
            i = changed[0]
            try:
                diff = f"item {i}: " + _json_diff(fp0[i][fp0[i].rindex('{"cons"'):], fp1[i][fp1[i].rindex('{"cons"'):])
            except Exception:
                pass
        O = dict(others_same=not ochanged, odiff=odiff[:300], inputs_same=not changed, diff=diff[:300], needed=needed_real, same={str(n): e0[n][0] == e1[n][0] for n in names},
                 existed=existed, treal=treal, outcome=outcome)
        return ";".join(obs) + "|" + outcome + "|" + ",".join(states) + "@@" + json.dumps(O, sort_keys=True)
    finally:
        env.close()


def _json_diff(a, b):
    try:
        return "; ".join(FP.diff(json.loads(a), json.loads(b))) or "differs"
    except Exception:
        return (b if str(b).startswith("unreadable") else "differs")


def split_impl(s):
    if s is None or "@@" not in s:
        return s, None
    a, b = s.split("@@", 1)
    return a, json.loads(b)


def halves(model_out):
    """(patched, unpatched, why) from the model line."""
    if model_out is None or "#" not in model_out:
        return None, None, None
    new, rest = model_out.split("#", 1)
    old, _, why = rest.rpartition("|why=")
    return new, old, why


def same_write(impl_main, half, outcome=True):
    """Outcome and file states of the write agree with one half of the model line."""
    if impl_main is None or half is None:
        return False
    a = impl_main.split("|")
    b = half.split("|")
    if len(a) != 3 or len(b) != 3:
        return False
    sa, sb = a[2].split(","), b[2].split(",")
    if len(sa) != len(sb):
        return False
    for x, y in zip(sa, sb):
        # a file opened for appending may or may not end up byte-identical
        if x != y and not (y.endswith("=open") and x == y[:-4] + "same"):
            return False
    if not outcome:
        return True
    if b[1] == "raised:*":
        return a[1].startswith("raised:")
    return a[1] == b[1]


def same_ops(impl_main, half):
    """The per-operation observations agree with one half of the model line."""
    return impl_main is not None and half is not None and impl_main.split("|")[0] == half.split("|")[0]


def same_obs(impl_main, half, outcome=True):
    return same_ops(impl_main, half) and same_write(impl_main, half, outcome)


def foreign_crash(c, O):
    """The interpreter died while appending to a file that no input needs: cfdm's append re-reads
    the target while it is open for writing (another property's subject); nothing can be compared."""
    return O is not None and O["outcome"] == "crashed" and c.payload["mode"] != "w" and O["treal"] not in O["needed"]


def agree(c):
    if c.stream == "C10.tree":
        return TREE.agree(c)
    if c.stream == "C10.path":
        return PATH.agree(c)
    main, O = split_impl(c.impl_out)
    if foreign_crash(c, O):
        return True
    new, old, _ = halves(c.model_out)
    # The repairs are independent (7723aa6 changed what get_original_filenames() reports, 22fef00 what the
    # guard compares), so the two parts may follow different halves.
    return (same_ops(main, new) or same_ops(main, old)) and (same_write(main, new) or same_write(main, old))


# --------------------------------------------------------------------------- oracle
def oracle(c):
    if c.stream == "C10.tree":
        return TREE.oracle(c)
    if c.stream == "C10.path":
        return PATH.oracle(c)
    main, O = split_impl(c.impl_out)
    if O is None:
        return f"the harness could not observe the case: {c.impl_out}"
    p = c.payload
    msgs = []
    if foreign_crash(c, O):
        return None
    if not O["inputs_same"]:
        msgs.append("the write changed (or made unreadable) a construct passed to it: " + O["diff"])
    if not O.get("others_same", True):
        msgs.append("the write changed an earlier copy / another construct of the history (shared component): " + O["odiff"])
    mode_w = p["mode"] == "w"
    if O["outcome"] == "crashed":
        msgs.append("the interpreter crashed (fatal signal) during the write")
    for n in O["needed"]:
        ok = O["same"].get(str(n), True)
        if not ok:
            msgs.append(f"file {NAMES[n]}, from which an input still has unread data, was deleted or altered "
                        f"(write outcome {O['outcome']})")
    if mode_w and not p["ow"] and O["existed"]:
        if not O["same"].get(str(O["treal"]), True) or not O["same"].get(str(p["target"]), True):
            msgs.append("overwrite=False but the existing file was altered")
        if O["outcome"] == "ok":
            msgs.append("overwrite=False on an existing file did not raise")
    return "; ".join(msgs) if msgs else None


def classify(c):
    if c.stream == "C10.tree":
        return TREE.classify(c)
    if c.stream == "C10.path":
        return PATH.classify(c)
    main, O = split_impl(c.impl_out)
    new, old, why = halves(c.model_out)
    if O is None or old is None:
        return None
    if same_write(main, new) or not (same_ops(main, new) or same_ops(main, old)):
        return _unexplained(c, O)
    # Once the unpatched guard has let the request through, what the write then does is not
    # predictable (it reads from a file it has just deleted and is re-creating: an exception, a
    # silent success with the wrong data, a dead interpreter), so the outcome is not compared.
    if why == "append":
        return SIG_APPEND
    if why in WHY2SIG and same_write(main, old, outcome=False):
        return WHY2SIG[why]
    return _unexplained(c, O)


def _unexplained(c, O):
    """Not one of the known defects: grouped by the clause that fails (never listed as known)."""
    p = c.payload
    if O["outcome"] == "crashed":
        return "unexplained:interpreter-crashed"
    if any(not O["same"].get(str(n), True) for n in O["needed"]):
        return "unexplained:needed-file-damaged"
    if p["mode"] == "w" and not p["ow"] and O["existed"] and \
            (not O["same"].get(str(O["treal"]), True) or O["outcome"] == "ok"):
        return "unexplained:overwrite-false-altered"
    if not O["inputs_same"] or not O.get("others_same", True):
        return "unexplained:inputs-changed"
    return None


# --------------------------------------------------------------------------- shrinking
def _renumber(ops, drop, nbase):
    """Remove operation `drop`; renumber registers; operations that used its result are removed too."""
    reg_of = {}
    nxt = nbase
    for i, t in enumerate(ops):
        ip = t.split(":")[0] in ("delcons", "setcons", "setdata", "setbounds", "delbounds", "tomem", "setext", "addmsr",
                                 "assign") \
            and t.endswith(":1")
        if not ip:
            reg_of[i] = nxt
            nxt += 1
    dead = set()
    if drop in reg_of:
        dead.add(reg_of[drop])
    mapping = {}
    out = []
    new_n = nbase
    for r in range(nbase):
        mapping[r] = r
    for i, t in enumerate(ops):
        p = t.split(":")
        used = [int(p[1])]
        if p[0] in ("setcons",):
            used.append(int(p[2]))
        if p[0] in ("setdata", "setbounds"):
            used.append(int(p[3]))
        if i == drop or any(u in dead for u in used):
            if i in reg_of:
                dead.add(reg_of[i])
            continue
        p[1] = str(mapping[int(p[1])])
        if p[0] == "setcons":
            p[2] = str(mapping[int(p[2])])
        if p[0] in ("setdata", "setbounds"):
            p[3] = str(mapping[int(p[3])])
        out.append(":".join(p))
        if i in reg_of:
            mapping[reg_of[i]] = new_n
            new_n += 1
    return out, mapping, dead


def _variants(p):
    nbase = 4 if (p.get("twin", True) and has_twin(p["seed"])) else 3
    for i in range(len(p["ops"])):
        ops, mapping, dead = _renumber(p["ops"], i, nbase)
        items = []
        okv = True
        for it in p["items"].split(","):
            r = int(it.rstrip("d"))
            if r in dead or r not in mapping:
                okv = False
                break
            items.append(f"{mapping[r]}{'d' if it.endswith('d') else ''}")
        if okv:
            q = dict(p, ops=ops, items=",".join(items))
            yield q
    its = p["items"].split(",")
    if len(its) > 1:
        for i in range(len(its)):
            q = dict(p, items=",".join(its[:i] + its[i + 1:]))
            if q["fault"].startswith("emit"):
                q["fault"] = "none"
            yield q
    if p["opts"]:
        yield dict(p, opts={})
    if p["fault"] != "none":
        yield dict(p, fault="none")
    if p["spell"] != "abs":
        yield dict(p, spell="abs")
    if p["readvia"] not in ("abs", "link"):
        yield dict(p, readvia="abs")


def _variants_tree(p):
    for i in range(len(p["steps"])):
        yield dict(p, steps=p["steps"][:i] + p["steps"][i + 1:], mem=None)
    if p["mem"] is not None:
        yield dict(p, mem=None)


def _variants_path(p):
    if p["fault"] != "none":
        yield dict(p, fault="none")
    if len(p["items"]) > 1:
        for i in range(len(p["items"])):
            yield dict(p, items=p["items"][:i] + p["items"][i + 1:], fault="none")
    for k in ("tspell", "espell", "readvia"):
        if p.get(k) not in (None, "abs", "twice", "chain", "hard"):
            yield dict(p, **{k: "abs"})
    if p["links"] and p["readvia"] != "chain" and p["target"] not in p["links"] and p.get("ext") not in p["links"]:
        yield dict(p, links={}, chainlen=1)
    if p["hard"] and p["readvia"] != "hard" and p["target"] != "h.nc" and p.get("ext") != "h.nc" and \
            "h.nc" not in p["links"].values():
        yield dict(p, hard=None)
    if p.get("ext") is not None and not any(i.endswith("e") for i in p["items"]):
        yield dict(p, ext=None, espell=None)


def shrink(c, run):
    sig = classify(c)
    best = c
    if c.stream in ("C10.tree", "C10.path"):
        variants = _variants_tree if c.stream == "C10.tree" else _variants_path
        improved, steps = True, 0
        while improved and steps < 40:
            improved = False
            for q in variants({k: v for k, v in best.payload.items() if k not in ("t", "info")}):
                steps += 1
                try:
                    d = from_payload(c.stream, q)
                    d.impl_out = impl(d)
                    d.model_out = fw.model_run([d.line])[0]
                    d.oracle_fail = oracle(d)
                except Exception:
                    continue
                if d.oracle_fail and classify(d) == sig:
                    best, improved = d, True
                    break
        return best if best is not c else None
    improved = True
    steps = 0
    while improved and steps < 60:
        improved = False
        for q in _variants(best.payload):
            steps += 1
            try:
                d = from_payload(c.stream, q)
                d.impl_out = impl(d)
                d.model_out = fw.model_run([d.line])[0]
                d.oracle_fail = oracle(d)
            except Exception:
                continue
            if d.oracle_fail and classify(d) == sig:
                best = d
                improved = True
                break
    return best if best is not c else None


def extra_coverage(run):
    cs = [c for c, _, _ in run.failures if c.model_out and c.stream == "C10.hist"]
    same = 0
    for c in cs:
        main, _ = split_impl(c.impl_out)
        _, old, _ = halves(c.model_out)
        if same_obs(main, old):
            same += 1
    return dict(old_code_model=dict(failing_cases=len(cs), agree_with_model_of_unpatched_code=same))
