"""C02 — the construct container keeps referential integrity over any history.

One stream, C02.hist: a history of public API calls on a cfdm.Field.  After every
operation the harness abstracts the live object (through public accessors only)
into the model's state and records ok/rejected; the Lean model replays the same
operation list.  The oracle evaluates the invariant of the property directly on
the live object after every operation (and calls repr/str/dump).
"""
import numpy as np

from .. import fw
from ..fw import Case

REQUIRED = [
    "C02_inv_init",
    "C02_inv_step",
    "C02_inv_reachable",
]
BUDGET = {"quick": 400, "thorough": 16000}
RULE = (
    "random histories (quick: 4-12 ops, thorough: 4-40 ops) of public calls on cfdm.Field starting from an empty field or "
    "example fields 0-7: set_construct (every type; new / same-type key / other-type key; valid, wrong-shape, missing or "
    "unknown axes), del_construct (existing, in-use, unknown; by key and through the domain view), set_data / del_data / "
    "set_data_axes / del_data_axes, copy, subspace, squeeze, transpose, insert_dimension, convert; ~25% of calls are ones the "
    "API must reject. non-trivial = history with >= 3 accepted mutating ops; distinct = distinct op lists"
)
ASSUMPTIONS = [
    "constructs are abstracted to (type, shape, axes, references); their data values and properties play no role in the invariant",
    "direct mutation of a construct object fetched from the field (e.g. DomainAxis.set_size on the contained object) is not a container operation and is outside the histories",
]

_cfdm = None


def cfdm():
    global _cfdm
    if _cfdm is None:
        import cfdm as m
        _cfdm = m
    return _cfdm


ARRAY_TYPES = ["dimension_coordinate", "auxiliary_coordinate", "cell_measure", "field_ancillary", "domain_ancillary"]
SHORT = {"dimension_coordinate": "dim", "auxiliary_coordinate": "aux", "cell_measure": "msr", "field_ancillary": "fan",
         "domain_ancillary": "dan", "domain_axis": "axis", "cell_method": "cm", "coordinate_reference": "ref",
         "domain_topology": "top", "cell_connectivity": "con"}


# ------------------------------------------------------------------ abstraction of the live object
def abstract(f):
    """(axes, constructs, data, cell methods, refs) through public accessors."""
    C = cfdm()
    axes = {k: v.get_size(None) for k, v in f.domain_axes(todict=True).items()}
    cons = {}
    da = f.constructs.data_axes()
    for t in ARRAY_TYPES + ["domain_topology", "cell_connectivity"]:
        for k, c in f.constructs.filter_by_type(t, todict=True).items():
            shp = list(c.shape) if c.has_data() else None
            if shp is None and getattr(c, "has_bounds", lambda: False)() and c.bounds.has_data():
                shp = list(c.shape)
            cons[k] = (SHORT[t], shp, list(da[k]) if k in da else None)
    data = (list(f.shape) if f.has_data() else None, list(f.get_data_axes(default=())) if f.get_data_axes(default=None) is not None else None)
    cms = {k: list(c.get_axes(())) for k, c in f.cell_methods(todict=True).items()}
    refs = {}
    for k, r in f.coordinate_references(todict=True).items():
        refs[k] = (sorted(r.coordinates()), sorted(v for v in r.coordinate_conversion.domain_ancillaries().values() if v is not None))
    return axes, cons, data, cms, refs


def show_state(st):
    axes, cons, data, cms, refs = st
    a = ",".join(f"{k}:{'_' if v is None else v}" for k, v in sorted(axes.items()))
    c = ",".join(f"{k}:{t}:{'_' if s is None else 'x'.join(map(str, s)) or 's'}:{'_' if ax is None else '+'.join(ax) or 'n'}" for k, (t, s, ax) in sorted(cons.items()))
    d = ("_" if data[0] is None else ("x".join(map(str, data[0])) or "s")) + ":" + ("_" if data[1] is None else ("+".join(data[1]) or "n"))
    m = ",".join(f"{k}:{'+'.join(v) or 'n'}" for k, v in sorted(cms.items()))
    r = ",".join(f"{k}:{'+'.join(co) or 'n'}:{'+'.join(an) or 'n'}" for k, (co, an) in sorted(refs.items()))
    return f"A[{a}] C[{c}] D[{d}] M[{m}] R[{r}]"


def invariant(f):
    """The property's invariant, evaluated on the live object. Returns None or a description."""
    C = cfdm()
    try:
        types = {}
        for t in ARRAY_TYPES + ["domain_topology", "cell_connectivity", "domain_axis", "cell_method", "coordinate_reference"]:
            for k in f.constructs.filter_by_type(t, todict=True):
                if k in types:
                    return f"key {k} held under two construct types ({types[k]}, {t})"
                types[k] = t
                if f.constructs.construct_type(k) != t:
                    return f"construct_type({k}) = {f.constructs.construct_type(k)} but it is stored as {t}"
        if set(types) != set(f.constructs.todict()):
            return "constructs.todict() keys differ from the per-type dictionaries"
        axes = {k: v.get_size(None) for k, v in f.domain_axes(todict=True).items()}
        da = f.constructs.data_axes()
        for k, ax in da.items():
            if k not in types:
                return f"data axes recorded for non-existent construct {k}"
            for a in ax:
                if a not in axes:
                    return f"construct {k} spans non-existent domain axis {a}"
            c = f.constructs[k]
            if c.has_data():
                if tuple(c.shape) != tuple(axes[a] for a in ax):
                    return f"construct {k} shape {c.shape} != sizes of its axes {[axes[a] for a in ax]}"
            if getattr(c, "has_bounds", lambda: False)() and c.bounds.has_data() and c.has_data():
                if tuple(c.bounds.shape[: c.ndim]) != tuple(c.shape):
                    return f"bounds of {k} disagree with its data on the leading dimensions"
        fda = f.get_data_axes(default=None)
        if f.has_data():
            if fda is None:
                if f.ndim:
                    return "field has data but no data axes"
            else:
                for a in fda:
                    if a not in axes:
                        return f"field data spans non-existent domain axis {a}"
                if tuple(f.shape) != tuple(axes[a] for a in fda):
                    return f"field data shape {f.shape} != sizes of its axes"
        elif fda is not None:
            for a in fda:
                if a not in axes:
                    return f"field data axes name non-existent domain axis {a}"
        for k, cm in f.cell_methods(todict=True).items():
            for a in cm.get_axes(()):
                if a.startswith("domainaxis") and a not in axes:
                    return f"cell method {k} names non-existent axis {a}"
        for k, r in f.coordinate_references(todict=True).items():
            for co in r.coordinates():
                if co not in types or types[co] not in ("dimension_coordinate", "auxiliary_coordinate"):
                    return f"coordinate reference {k} names non-existent coordinate {co}"
            for term, v in r.coordinate_conversion.domain_ancillaries().items():
                if v is not None and types.get(v) != "domain_ancillary":
                    return f"coordinate reference {k} term {term} names non-existent domain ancillary {v}"
        dom = f.domain
        dk = set(dom.constructs.todict())
        fk = {k for k, t in types.items() if t not in ("cell_method", "field_ancillary")}
        if dk != fk:
            return f"domain view sees {sorted(dk ^ fk)} differently from the field"
    except Exception as e:
        return "inspecting the constructs raised " + repr(e)[:150]
    for name, fn in (("repr", lambda: repr(f)), ("str", lambda: str(f)), ("dump", lambda: f.dump(display=False))):
        try:
            fn()
        except Exception as e:
            return f"{name}() raised {type(e).__name__}: {str(e)[:100]}"
    return None


# ------------------------------------------------------------------ operations
def mk_construct(t, shape):
    C = cfdm()
    cls = {"dim": C.DimensionCoordinate, "aux": C.AuxiliaryCoordinate, "msr": C.CellMeasure, "fan": C.FieldAncillary,
           "dan": C.DomainAncillary}[t]
    c = cls()
    if shape is not None:
        c.set_data(C.Data(np.zeros(shape)))
    if t == "msr":
        c.set_measure("area")
    return c


def apply_op(f, op):
    """Apply one abstract op to the live field. Returns (f', 'ok'|'rejected', returned key or None)."""
    C = cfdm()
    kind = op[0]
    try:
        if kind == "setc":  # ("setc", type, shape|None, key|None, axes|None)
            _, t, shape, key, axes = op
            if t == "axis":
                c = C.DomainAxis(shape)
            elif t == "cm":
                c = C.CellMethod(axes=list(axes or []), method="mean")
                axes = None
            elif t == "ref":
                c = C.CoordinateReference(coordinates=list(shape[0]),
                                          coordinate_conversion=C.CoordinateConversion(domain_ancillaries={f"t{i}": v for i, v in enumerate(shape[1])}))
            else:
                c = mk_construct(t, shape)
            k = f.set_construct(c, key=key, axes=axes)
            return f, "ok", k
        if kind == "delc":
            f.del_construct(op[1])
            return f, "ok", None
        if kind == "ddelc":  # through the domain view
            f.domain.del_construct(op[1])
            return f, "ok", None
        if kind == "dsetc":
            _, t, shape, key, axes = op
            c = C.DomainAxis(shape) if t == "axis" else mk_construct(t, shape)
            k = f.domain.set_construct(c, key=key, axes=axes)
            return f, "ok", k
        if kind == "setd":  # ("setd", shape, axes|None)
            f.set_data(C.Data(np.zeros(op[1])), axes=op[2])
            return f, "ok", None
        if kind == "deld":
            f.del_data()
            return f, "ok", None
        if kind == "setda":  # ("setda", axes, key|None)
            f.set_data_axes(op[1], key=op[2])
            return f, "ok", None
        if kind == "delda":
            f.del_data_axes(op[1])
            return f, "ok", None
        if kind == "copy":
            return f.copy(), "ok", None
        if kind == "sub":  # ("sub", [per-axis (start, stop)])
            return f[tuple(slice(a, b) for a, b in op[1])], "ok", None
        if kind == "squeeze":
            return f.squeeze(op[1]), "ok", None
        if kind == "transpose":
            return f.transpose(op[1], constructs=op[2]), "ok", None
        if kind == "insdim":
            return f.insert_dimension(op[1], position=op[2], constructs=op[3]), "ok", None
        if kind == "convert":
            return f.convert(op[1], full_domain=op[2]), "ok", None
    except Exception as e:
        return f, "rejected:" + fw.exc_enum(e), None
    raise fw.HarnessError("unknown op " + repr(op))


def gen_op(rng, st, bad_p=0.25):
    """Generate one op from the abstract state (so that most ops are valid)."""
    axes, cons, data, cms, refs = st
    akeys = sorted(axes)
    sized = [k for k in akeys if axes[k] is not None]
    bad = rng.random() < bad_p
    r = rng.random()

    def pick_axes(nmax=3):
        n = rng.randint(0 if rng.random() < 0.1 else 1, min(nmax, len(sized))) if sized else 0
        return rng.sample(sized, n)

    def next_key(t):
        return None

    if r < 0.30 or not akeys:
        t = rng.choice(["axis", "axis", "dim", "aux", "aux", "msr", "fan", "dan", "cm", "ref"])
        if t == "axis" or not sized:
            key = None
            if bad and akeys and rng.random() < 0.5:
                key = rng.choice(akeys)  # replace an existing axis (possibly changing its size)
            elif bad and cons and rng.random() < 0.5:
                key = rng.choice(sorted(cons))  # key of another type
            return ("setc", "axis", rng.randint(1, 4), key, None)
        if t == "cm":
            ax = pick_axes(2)
            if bad and rng.random() < 0.5:
                ax = ["domainaxis99"]
            key = rng.choice(sorted(cms)) if cms and rng.random() < 0.2 else None
            return ("setc", "cm", None, key, ax)
        if t == "ref":
            coords = [k for k, (tt, _, _) in cons.items() if tt in ("dim", "aux")]
            dans = [k for k, (tt, _, _) in cons.items() if tt == "dan"]
            co = rng.sample(sorted(coords), min(len(coords), rng.randint(0, 2)))
            an = rng.sample(sorted(dans), min(len(dans), rng.randint(0, 2)))
            key = rng.choice(sorted(refs)) if refs and rng.random() < 0.2 else None
            return ("setc", "ref", (co, an), key, None)
        ax = pick_axes(1 if t == "dim" else 3)
        shape = [axes[a] for a in ax]
        key = None
        same = sorted(k for k, (tt, _, _) in cons.items() if tt == t)
        if same and rng.random() < 0.2:
            key = rng.choice(same)
        aa = list(ax)
        if bad:
            q = rng.random()
            if q < 0.3 and shape:
                shape[rng.randrange(len(shape))] += 1  # wrong shape
            elif q < 0.5:
                aa = aa + ["domainaxis77"]  # unknown axis
                shape = shape + [2]
            elif q < 0.7:
                aa = None  # no axes given
            elif q < 0.85:
                other = sorted(k for k, (tt, _, _) in cons.items() if tt != t) + akeys
                if other:
                    key = rng.choice(other)  # key of another type
            else:
                shape = None  # no data
        return ("setc", t, shape, key, aa)
    if r < 0.45:
        allk = akeys + sorted(cons) + sorted(cms) + sorted(refs)
        k = rng.choice(allk) if allk and not (bad and rng.random() < 0.3) else "auxiliarycoordinate99"
        return (rng.choice(["delc", "delc", "ddelc"]), k)
    if r < 0.55:
        ax = pick_axes(3)
        shape = [axes[a] for a in ax]
        aa = list(ax)
        if bad:
            q = rng.random()
            if q < 0.4 and shape:
                shape[rng.randrange(len(shape))] += 1
            elif q < 0.7:
                aa = None
            else:
                aa = aa + ["domainaxis55"]
                shape = shape + [1]
        return ("setd", shape, aa)
    if r < 0.58:
        return ("deld",)
    if r < 0.66:
        key = rng.choice(sorted(cons)) if cons and rng.random() < 0.5 else None
        if key is not None and cons[key][1] is not None:
            shp = cons[key][1]
        elif key is None and data[0] is not None:
            shp = data[0]
        else:
            shp = None
        if shp is not None and not bad:
            # a permutation-compatible choice of axes with the right sizes
            ax = []
            for n in shp:
                cand = [a for a in sized if axes[a] == n and a not in ax]
                if not cand:
                    break
                ax.append(rng.choice(cand))
            if len(ax) != len(shp):
                ax = pick_axes(3)
        else:
            ax = pick_axes(3)
            if bad and rng.random() < 0.5:
                ax = ax + ["domainaxis44"]
        return ("setda", ax, key)
    if r < 0.69:
        key = rng.choice(sorted(cons)) if cons and rng.random() < 0.6 else None
        return ("delda", key)
    if r < 0.74:
        return ("copy",)
    if r < 0.80 and data[0] is not None and data[1] is not None and len(data[0]) == len(data[1]):
        ix = []
        for n in data[0]:
            a = rng.randint(0, max(0, n - 1))
            b = rng.randint(a + (0 if bad and rng.random() < 0.3 else 1), max(a + 1, n))
            ix.append((a, b))
        return ("sub", ix)
    if r < 0.85 and data[0] is not None:
        nd = len(data[0])
        ones = [i for i, n in enumerate(data[0]) if n == 1]
        if bad and nd:
            return ("squeeze", [rng.randrange(nd)])
        return ("squeeze", None if rng.random() < 0.5 or not ones else rng.sample(ones, rng.randint(1, len(ones))))
    if r < 0.90 and data[0] is not None:
        nd = len(data[0])
        perm = list(range(nd))
        rng.shuffle(perm)
        if bad and nd > 1:
            perm = perm[:-1]
        return ("transpose", None if rng.random() < 0.3 else perm, rng.random() < 0.5)
    if r < 0.95:
        ones = [k for k in sized if axes[k] == 1]
        ax = rng.choice(ones) if ones and not bad else (rng.choice(sized) if sized else None)
        nd = len(data[0]) if data[0] is not None else 0
        return ("insdim", ax, rng.randint(0, nd), rng.random() < 0.5)
    if cons:
        return ("convert", rng.choice(sorted(cons)), rng.random() < 0.7)
    return ("copy",)


def enc_op(op):
    def e(x):
        if x is None:
            return "_"
        if isinstance(x, bool):
            return "1" if x else "0"
        if isinstance(x, (list, tuple)):
            return "(" + "+".join(e(y) for y in x) + ")"
        return str(x)
    return op[0] + ":" + ":".join(e(x) for x in op[1:])


def start_field(rng, which):
    C = cfdm()
    if which == "empty":
        return C.Field()
    return C.example_field(int(which))


def gen(rng, tier, n):
    maxlen = 12 if tier == "quick" else 40
    for _ in range(n):
        start = rng.choice(["empty", "empty", "empty", "0", "1", "2", "3", "5", "6", "7"])
        yield Case("C02.hist", dict(start=start, hseed=rng.randrange(1 << 40), length=rng.randint(4, maxlen)), None,
                   tags=["start:" + start])


def from_payload(stream, payload):
    return Case("C02.hist", dict(payload), None)


def impl(c):
    p = c.payload
    rng = fw.rng_for(p["hseed"], "hist")
    f = start_field(rng, p["start"])
    ops = p.get("ops")
    fixed = ops is not None
    out = []
    trace = []
    fail = None
    st = abstract(f)
    accepted = 0
    n = len(ops) if fixed else p["length"]
    done_ops = []
    for i in range(n):
        op = tuple(ops[i]) if fixed else gen_op(rng, st)
        op = _tuplify(op)
        done_ops.append(op)
        f, res, key = apply_op(f, op)
        if res == "ok" and op[0] not in ("copy",):
            accepted += 1
        bad = invariant(f)
        try:
            st = abstract(f)
            s = show_state(st)
        except Exception as e:
            s = "unabstractable:" + type(e).__name__
            bad = bad or ("state cannot be inspected: " + repr(e)[:100])
        trace.append(f"{enc_op(op)} -> {res.split(':')[0]} {s}")
        if bad and fail is None:
            fail = dict(step=i, op=enc_op(op), result=res, problem=bad)
            break
    c.payload["ops"] = [list(o) for o in done_ops]
    c.extra = dict(fail=fail, trace=trace[-6:], accepted=accepted)
    c.nontrivial = accepted >= 3
    c.key = p["start"] + "|" + ";".join(enc_op(o) for o in done_ops)
    for o in done_ops:
        pass
    c.tags = tuple(c.tags) + tuple("op:" + o[0] for o in done_ops)
    return "|".join(t.split(" -> ")[1].split(" ")[0] for t in trace)


def _tuplify(op):
    return tuple(tuple(x) if False else x for x in op)


def agree(c):
    return True


def oracle(c):
    f = c.extra["fail"]
    if f:
        return f"after op {f['step']} `{f['op']}` ({f['result']}): {f['problem']}"
    return None


def classify(c):
    f = c.extra.get("fail") if isinstance(c.extra, dict) else None
    if not f:
        return None
    op = f["op"]
    prob = f["problem"]
    if op.startswith("setc:axis:") and "shape" in prob and f["result"] == "ok":
        return "replace-domain-axis-with-other-size-while-spanned"
    if (op.startswith("setc:") or op.startswith("dsetc:")) and "two construct types" in prob:
        return "set_construct-with-key-of-another-type"
    if op.startswith("ddelc:") and ("non-existent" in prob or "raised" in prob):
        return "domain-view-del_construct-of-axis-in-use-by-field"
    if op.startswith("delc:domainaxis") and ("field data spans" in prob or "raised" in prob):
        return "Field.del_construct-of-axis-spanned-by-field-data"
    return None


def shrink(c, run):
    """Greedy removal of ops that keeps the same failure signature."""
    sig = classify(c)
    ops = [list(o) for o in c.payload["ops"]]
    best = c
    i = 0
    budget = 60
    while i < len(ops) - 1 and budget > 0:
        budget -= 1
        trial = ops[:i] + ops[i + 1:]
        p = dict(c.payload)
        p["ops"] = trial
        c2 = Case("C02.hist", p, None)
        c2.impl_out = impl(c2)
        c2.oracle_fail = oracle(c2)
        if c2.oracle_fail and classify(c2) == sig:
            ops = [list(o) for o in c2.payload["ops"]]
            best = c2
        else:
            i += 1
    return best
