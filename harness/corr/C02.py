"""C02 — the construct container keeps referential integrity over any history.

One stream, C02.hist: a history of public API calls on a cfdm.Field (and on its live
domain view f.domain).  After every operation the harness abstracts the live object
(through public accessors only) into the model's state and records ok/rejected; the
Lean model (`P`: the container as coded at /repo HEAD) replays the same operation list from the same
abstract start state.  Identifiers that cfdm generated
are referred to by creation order (`#i` = key returned by operation i), so the operation
list and the compared states do not depend on how new identifiers are spelled.

The oracle evaluates the invariant of the property directly on the live object after
every operation, accepted or rejected (and calls repr/str/dump of the field and of its
domain); after a rejected call (other than an in-place deriving call) and, for the receiver, after
every call that returns a new field, it also demands that the object is literally unchanged: same
abstract state, the same construct objects under the same identifiers, the same data object.
"""
import re

import numpy as np

from .. import fw
from ..fw import Case

REQUIRED = [
    "C02_inv_init",
    "C02_inv_step_partial",
    "C02_inv_reachable_partial",
    "C02_inv_axes",
    "C02_inv_describe",
    "C02_set_rejected_unchanged",
    "C02_old_new_identifier_counterexample",
    "C02_old_set_construct_keeps_axes_counterexample",
    "C02_old_domain_view_delete_counterexample",
    "C02_old_set_data_axes_counterexample",
    "C02_old_insert_dimension_counterexample",
    "C02_del_construct_cleans_references",
    "C02_set_data_rejected_unchanged",
    "C02_axis_resize_breaks_inv",
    "C02_dangling_cell_method_breaks_inv",
    "C02_dangling_reference_breaks_inv",
    "C02_replace_unchecked_breaks_inv",
    "C02_direct_mutation_breaks_inv",
    "C02_seq_refines",
    "C02_guards_first_atomic",
    "C02_seq_guards_first",
    "C02_order_matters",
    "C02_rejected_unchanged",
    "C02_inplace_rejected_unchanged",
    "C02_inplace_needs_inv",
    "C02_inplace_insert_dimension_leaves_axis",
    "C02_view_eq_field",
    "C02_view_hidden_refused",
    "C02_key_in_use_refused",
    "C02_inplace_loops_any_order",
    "C02_old_insert_dimension_topology_counterexample",
]
BUDGET = {"quick": 2400, "thorough": 30000}
QUICK_JOBS = 4
RULE = (
    "random histories (quick: 4-14 ops, thorough: 4-40 ops) of public calls on cfdm.Field and on live views of its constructs "
    "(f.domain, Domain(source=f, copy=False), Domain.fromconstructs(f.constructs), a view of a view) starting from an empty "
    "field, example fields 0-3,5-10 (8-10: UGRID, with domain topology / cell connectivity), a random valid field, or on a stand-alone cfdm.Domain (Domain(), f.domain.copy(); container calls only): set_construct (every type; new / same-type key / "
    "other-type key / key of a construct that the view hides / key that collides with a later automatic identifier / key not of the form <letters><number>; valid, wrong-shape, missing or unknown axes, a single axis as a bare string), "
    "del_construct (existing, in use by a construct / by a hidden field ancillary / by a cell method / by the field's data, unknown, hidden; every route), set_data in place and inplace=False "
    "(fitting; transposed; the shape before / after a squeeze; another rank; fitting the old axes but not the given ones; axes=None on a field with data axes), del_data, "
    "set_data_axes / del_data_axes (field and per construct), constructs.replace, mutators of a contained construct (set_data, del_data, set_bounds, del_bounds, set_size, reached through f.constructs, a shallow copy, "
    "a filtered collection, f.construct, f.domain), mutations of containers derived from the field (shallow copy, filtered collections and their copies, f.domain.copy(), Domain(source=f), f.copy()), copy / Field(source=) / f[...], subspace, squeeze, "
    "transpose, insert_dimension (every combination of constructs / inplace), convert (incl. the chain that carries a coordinate reference and its domain ancillaries over); ~25% of calls are ones the API must reject. "
    "non-trivial = history with >= 3 accepted mutating ops; distinct = distinct (start, op list)"
)
ASSUMPTIONS = [
    "constructs are abstracted to (type, data/bounds/interior-ring shapes, axis size, named axes/constructs); values and properties play no role in the invariant",
    "a construct handed to set_construct is itself consistent (bounds / interior ring agree with its data on the leading dimensions, which cfdm's own set_bounds enforces)",
    "mutators of a contained construct are generated for constructs with plain data (no geometry, interior ring, domain topology, cell connectivity)",
    "identifiers not of the form <letters><number> are drawn from a fixed pool; a cell method axis spelled like one of them is an identifier, any other non-standard spelling a free name",
    "the state left by a REJECTED transpose / insert_dimension with constructs=True and inplace=True depends on the order in which Python walks the dictionaries: the model proves the invariant for every order (C02_inplace_loops_any_order) but cannot predict the state, which is judged by the oracle and ends the history",
    "a field that has data but no data axes (or a construct without data axes) is a partially built state of ab-initio creation, not a violation",
    "climatology flags (cell methods with within/over qualifiers) and the core-only route cfdm.core.Field.del_construct are not exercised",
    "a stand-alone Domain is started from Domain() or f.domain.copy(); Domain(source=f) (which keeps the field's data axes in its constructs and therefore refuses to delete axes that the FIELD's data span) is not used as a start",
]

_cfdm = None


def cfdm():
    global _cfdm
    if _cfdm is None:
        import cfdm as m
        _cfdm = m
    return _cfdm


LONG = {"axis": "domain_axis", "dim": "dimension_coordinate", "aux": "auxiliary_coordinate", "msr": "cell_measure",
        "fan": "field_ancillary", "dan": "domain_ancillary", "top": "domain_topology", "con": "cell_connectivity",
        "ref": "coordinate_reference", "cm": "cell_method"}
SHORT = {v: k for k, v in LONG.items()}
BASE = {k: v.replace("_", "") for k, v in LONG.items()}
ARRAY = ("dim", "aux", "msr", "fan", "dan", "top", "con")
KEYRE = re.compile(r"^([a-z_]*[a-z_])(0|[1-9][0-9]*)$")
# identifiers that are NOT of the form <letters><number> (legal for set_construct(key=...)); a cell method axis
# spelled like one of them is an identifier, every other non-standard spelling is a free name
NONSTD = ("foo", "x.y", "01", "domainaxis01", "Zed", "my")


def is_key(a):
    return bool(KEYRE.match(a)) or a in NONSTD



# ------------------------------------------------------------------ text forms shared with the Lean driver
def sh_shape(s):
    if s is None:
        return "_"
    return "x".join(str(n) for n in s) or "s"


def sh_key(ret, k):
    for i in range(len(ret) - 1, -1, -1):
        if ret[i] == k:
            return f"#{i}"
    return k


def sh_keys(ret, l):
    return "+".join(sh_key(ret, k) for k in l) or "n"


def sh_optkeys(ret, l):
    return "_" if l is None else sh_keys(ret, l)


def cm_tok(ret, a):
    return sh_key(ret, a) if is_key(a) else "~" + a


def sh_con(ret, t, k, c, sort=True):
    """c = dict(data, bounds, geom, ring, size, cmaxes, coords, ancils)"""
    srt = sorted if sort else list
    cm = "+".join(srt(cm_tok(ret, a) for a in c["cmaxes"])) or "n"
    co = "+".join(srt(sh_key(ret, a) for a in c["coords"])) or "n"
    # every term -> key pair of the coordinate conversion (`term~` = the term is mapped to None)
    an = "+".join(srt(f"{t}~" + ("" if a is None else sh_key(ret, a)) for t, a in c["ancils"])) or "n"
    return "/".join([t, "-" if k is None else sh_key(ret, k), sh_shape(c["data"]), sh_shape(c["bounds"]), "1" if c["geom"] else "0",
                     sh_shape(c["ring"]), "_" if c["size"] is None else str(c["size"]), cm, co, an])


def blank(**kw):
    c = dict(data=None, bounds=None, geom=False, ring=None, size=None, cmaxes=[], coords=[], ancils=[])
    c.update(kw)
    return c


def sh_state(ret, st, sort=True):
    srt = sorted if sort else list
    return "|".join([
        "C[" + ",".join(srt(sh_con(ret, t, k, c, sort) for (t, k), c in st["cons"].items())) + "]",
        "T[" + ",".join(srt(f"{sh_key(ret, k)}:{t}" for k, t in st["types"].items())) + "]",
        "X[" + ",".join(srt(f"{sh_key(ret, k)}:{sh_keys(ret, l)}" for k, l in st["axes"].items())) + "]",
        "D" + sh_shape(st["data"]),
        "A" + sh_optkeys(ret, st["daxes"]),
    ])


# ------------------------------------------------------------------ abstraction of the live object
def is_domain(f):
    """a stand-alone cfdm.Domain (not a field): no data, no cell methods / field ancillaries"""
    return isinstance(f, cfdm().Domain)


def abstract(f):
    """The model's state, read through public accessors only."""
    cons = {}
    for t, long in LONG.items():
        for k, c in f.constructs.filter_by_type(long, todict=True).items():
            if t == "axis":
                cons[(t, k)] = blank(size=c.get_size(None))
            elif t == "cm":
                cons[(t, k)] = blank(cmaxes=list(c.get_axes(())))
            elif t == "ref":
                cons[(t, k)] = blank(coords=sorted(c.coordinates()),
                                     ancils=list(c.coordinate_conversion.domain_ancillaries().items()))
            else:
                d = tuple(c.data.shape) if c.has_data() else None
                b = r = None
                g = False
                if hasattr(c, "has_bounds") and c.has_bounds() and c.bounds.has_data():
                    b = tuple(c.bounds.data.shape)
                if hasattr(c, "has_geometry"):
                    g = bool(c.has_geometry())
                if hasattr(c, "has_interior_ring") and c.has_interior_ring() and c.interior_ring.has_data():
                    r = tuple(c.interior_ring.data.shape)
                cons[(t, k)] = blank(data=d, bounds=b, geom=g, ring=r)
    types = {k: SHORT[t] for k, t in f.constructs.construct_types().items()}
    axes = {k: list(v) for k, v in f.constructs.data_axes().items()}
    if is_domain(f):
        return dict(cons=cons, types=types, axes=axes, data=None, daxes=None)
    data = tuple(f.data.shape) if f.has_data() else None
    da = f.get_data_axes(default=None)
    return dict(cons=cons, types=types, axes=axes, data=data, daxes=None if da is None else list(da))


def con_shape(t, c):
    """construct.shape as cfdm defines it (None: no shape)"""
    if t not in ARRAY:
        return None
    if t in ("top", "con"):
        return None if c["data"] is None else tuple(c["data"][:1])
    if c["data"] is not None:
        return tuple(c["data"])
    if c["bounds"] is not None:
        b = c["bounds"]
        return tuple(b[: max(0, len(b) - (2 if c["geom"] else 1))])
    return None


def invariant(f):
    """The property's invariant, evaluated on the live object.  Returns None or a description."""
    try:
        types = {}
        objs = {}
        for t, long in LONG.items():
            for k, c in f.constructs.filter_by_type(long, todict=True).items():
                if k in types:
                    return f"key {k} held under two construct types ({types[k]}, {t})"
                types[k] = t
                objs[k] = c
                if f.constructs.construct_type(k) != long:
                    return f"construct_type({k}) = {f.constructs.construct_type(k)} but it is stored as {long}"
                if c.construct_type != long:
                    return f"{k} is stored as {long} but is a {c.construct_type}"
        reg = f.constructs.construct_types()
        if set(reg) != set(types):
            return f"registered keys differ from the stored constructs: {sorted(set(reg) ^ set(types))}"
        if set(types) != set(f.constructs.todict()):
            return "constructs.todict() keys differ from the per-type dictionaries"
        sizes = {k: objs[k].get_size(None) for k, t in types.items() if t == "axis"}
        for k, c in objs.items():
            t = types[k]
            if t == "dim" and c.has_data() and c.data.ndim != 1:
                return f"dimension coordinate {k} has {c.data.ndim}-d data"
            if t in ARRAY and t not in ("top", "con") and c.has_data():
                nd = c.data.ndim
                if hasattr(c, "has_bounds") and c.has_bounds() and c.bounds.has_data():
                    if tuple(c.bounds.data.shape[:nd]) != tuple(c.data.shape):
                        return f"bounds of {k} disagree with its data on the leading dimensions"
                if hasattr(c, "has_interior_ring") and c.has_interior_ring() and c.interior_ring.has_data():
                    if tuple(c.interior_ring.data.shape[:nd]) != tuple(c.data.shape):
                        return f"interior ring of {k} disagrees with its data on the leading dimensions"
        for k, ax in f.constructs.data_axes().items():
            if k not in types:
                return f"data axes recorded for non-existent construct {k}"
            for a in ax:
                if a not in sizes:
                    return f"construct {k} spans non-existent domain axis {a}"
            c = objs[k]
            want = tuple(sizes[a] for a in ax)
            parts = []
            if types[k] in ARRAY:
                if c.has_data():
                    parts.append(("data", tuple(c.data.shape)[:1] if types[k] in ("top", "con") else tuple(c.data.shape)))
                if hasattr(c, "has_bounds") and c.has_bounds() and c.bounds.has_data():
                    b = tuple(c.bounds.data.shape)
                    if not c.has_data():
                        b = b[: max(0, len(b) - (2 if c.has_geometry() else 1))]
                        parts.append(("bounds", b))
                    else:
                        parts.append(("bounds", b[: len(ax)]))
                if hasattr(c, "has_interior_ring") and c.has_interior_ring() and c.interior_ring.has_data() and parts:
                    parts.append(("interior ring", tuple(c.interior_ring.data.shape)[: len(ax)]))
            for name, shp in parts:
                if shp != want:
                    return f"construct {k} {name} shape {shp} != sizes of its axes {want}"
        for k in types:
            if bool(f.has_data_axes(k)) != (k in f.constructs.data_axes()):
                return f"has_data_axes({k}) disagrees with constructs.data_axes()"
        fda = None if is_domain(f) else f.get_data_axes(default=None)
        if fda is not None:
            for a in fda:
                if a not in sizes:
                    return f"field data axes name non-existent domain axis {a}"
            if f.has_data() and tuple(f.data.shape) != tuple(sizes[a] for a in fda):
                return f"field data shape {tuple(f.data.shape)} != sizes of its axes {tuple(sizes[a] for a in fda)}"
        for k, t in types.items():
            if t == "cm":
                for a in objs[k].get_axes(()):
                    # an axis given as a construct identifier (<letters><number>) is a reference; free names are not
                    if is_key(a) and a not in sizes:
                        return f"cell method {k} names non-existent axis {a}"
            if t == "ref":
                r = objs[k]
                for co in r.coordinates():
                    if types.get(co) not in ("dim", "aux"):
                        return f"coordinate reference {k} names non-existent coordinate {co}"
                for term, v in r.coordinate_conversion.domain_ancillaries().items():
                    if v is not None and types.get(v) != "dan":
                        return f"coordinate reference {k} term {term} names non-existent domain ancillary {v}"
        if is_domain(f):
            if any(t in ("cm", "fan") for t in types.values()):
                return "a domain holds a cell method / field ancillary"
            dom = cfdm().Domain(source=f, copy=False)
        else:
            dom = f.domain
        dk = set(dom.constructs.todict())
        fk = {k for k, t in types.items() if t not in ("cm", "fan")}
        if dk != fk:
            return f"domain view sees {sorted(dk ^ fk)} differently from the field"
        for k in fk:
            if dom.constructs.get(k) is not f.constructs.get(k):
                return f"domain view holds another object for {k}"
        dax, fax = dom.constructs.data_axes(), f.constructs.data_axes()
        if any(dax.get(k) != fax.get(k) for k in fk):
            return "domain view sees other data axes than the field"
    except Exception as e:
        return "inspecting the constructs raised " + repr(e)[:150]
    checks = [("repr", lambda: repr(f)), ("str", lambda: str(f)), ("dump", lambda: f.dump(display=False))]
    if not is_domain(f):
        checks += [("repr(domain)", lambda: repr(f.domain)), ("str(domain)", lambda: str(f.domain)),
                   ("dump(domain)", lambda: f.domain.dump(display=False))]
    for name, fn in checks:
        try:
            fn()
        except Exception as e:
            return f"{name} raised {type(e).__name__}: {str(e)[:100]}"
    return None


# ------------------------------------------------------------------ operations on the live object
def mk_construct(t, c):
    C = cfdm()
    if t == "axis":
        return C.DomainAxis(c["size"]) if c["size"] is not None else C.DomainAxis()
    if t == "cm":
        return C.CellMethod(axes=list(c["cmaxes"]), method="mean")
    if t == "ref":
        return C.CoordinateReference(
            coordinates=list(c["coords"]),
            coordinate_conversion=C.CoordinateConversion(domain_ancillaries={t: v for t, v in c["ancils"]}))
    if t in ("top", "con"):
        x = C.DomainTopology(cell="face") if t == "top" else C.CellConnectivity(connectivity="edge")
        if c["data"] is not None:
            x.set_data(C.Data(np.zeros(c["data"], dtype=int)))
        return x
    cls = {"dim": C.DimensionCoordinate, "aux": C.AuxiliaryCoordinate, "msr": C.CellMeasure, "fan": C.FieldAncillary,
           "dan": C.DomainAncillary}[t]
    x = cls()
    if t == "msr":
        x.set_measure("area")
    if c["data"] is not None:
        x.set_data(C.Data(np.zeros(c["data"])))
    if c["bounds"] is not None:
        x.set_bounds(C.Bounds(data=C.Data(np.zeros(c["bounds"]))))
    if c["geom"]:
        x.set_geometry("polygon")
    if c["ring"] is not None:
        x.set_interior_ring(C.InteriorRing(data=C.Data(np.zeros(c["ring"], dtype=int))))
    return x


VIEWS = ("d", "s", "c", "v")
# Scale of the argument choices that end a history in an OPEN finding (a history stops at its first violation):
# 1 for the short histories of the quick tier, smaller for long ones, so that the share of histories that end
# in a known finding stays small in every tier
RISK = 1.0


def ax_arg(axes):
    """a single axis is handed over as a bare string when its identifier ends with an odd digit
    (the API accepts `axes='domainaxis1'`; deterministic, so that replays take the same route)"""
    if axes is not None and len(axes) == 1 and axes[0][-1:] in "13579":
        return axes[0]
    return axes


def target(f, via):
    """the object a call is issued through: the field or one of the live views of its constructs"""
    C = cfdm()
    if via == "f":
        return f
    if via == "d":
        return f if is_domain(f) else f.domain
    if via == "s":
        return C.Domain(source=f, copy=False)
    if via == "c":
        return C.Domain.fromconstructs(f.constructs)
    if via == "v":
        return C.Domain(source=C.Domain(source=f, copy=False) if is_domain(f) else f.domain, copy=False)
    raise fw.HarnessError("unknown route " + repr(via))


def contained(f, key, how):
    """the construct object that the field holds under `key`, reached in one of several public ways"""
    if how == 0:
        return f.constructs[key]
    if how == 1:
        return f.constructs.shallow_copy()[key]
    if how == 2:
        return f.constructs.filter_by_key(key).value()
    if how == 3:
        return f.construct(key)
    c = (f if is_domain(f) else f.domain).constructs.get(key)
    return c if c is not None else f.constructs[key]


def frame_action(f, variant, rng):
    """mutate a container that was derived from the field and has dictionaries of its own"""
    C = cfdm()
    keys = sorted(f.constructs.todict())

    def derive(fn):
        # a field holding a construct that cannot be copied (bounds without an extra dimension after a direct
        # mutation, ...) has no copies: then there is nothing to mutate
        try:
            return fn()
        except Exception:
            return None

    if is_domain(f) and variant >= 2:
        d = derive(lambda: f.copy() if variant < 4 else C.Domain(source=f))
        if d is None:
            return
        d.set_construct(C.DomainAxis(93))
        for k in sorted(d.constructs.filter_by_type("dimension_coordinate", "auxiliary_coordinate", "cell_measure", todict=True))[:2]:
            d.del_construct(k)
        return
    if variant == 0:
        g = f.constructs.shallow_copy()
        for k in keys[:2]:
            g.replace(k, g[k], axes=["domainaxis0", "domainaxis0"], copy=False)
    elif variant == 1:
        g = f.constructs.filter_by_type("auxiliary_coordinate", "dimension_coordinate", "domain_axis")
        h = derive(lambda: g.copy())
        for k in sorted(g.todict())[:2]:
            g.replace(k, g[k], axes=["domainaxis9"], copy=False)
            if h is not None:
                h.replace(k, h[k], axes=[], copy=False)
        g = f.constructs.filter_by_type("field_ancillary").inverse_filter()
        for k in sorted(g.todict())[:1]:
            g.replace(k, g[k], axes=["domainaxis0"], copy=False)
    elif variant == 2:
        d = derive(lambda: f.domain.copy())
        if d is None:
            return
        for k in sorted(d.constructs.filter_by_type("dimension_coordinate", "auxiliary_coordinate", todict=True))[:2]:
            d.del_construct(k)
        d.set_construct(C.DomainAxis(96))
    elif variant == 3:
        d = derive(lambda: C.Domain(source=f))
        if d is None:
            return
        d.set_construct(C.DomainAxis(95))
        for k in sorted(d.constructs.filter_by_type("domain_ancillary", "cell_measure", todict=True))[:1]:
            d.del_construct(k)
    else:
        g = derive(lambda: f.copy())
        if g is None:
            return
        g.set_construct(C.DomainAxis(94))
        if g.has_data():
            g.del_data()
        for k in sorted(g.constructs.filter_by_type("cell_method", "field_ancillary", "coordinate_reference", todict=True))[:2]:
            g.del_construct(k)


def apply_op(f, op):
    """Apply one op (literal keys) to the live field.  Returns (f', 'ok'|'rej', returned key or None, exception name)."""
    C = cfdm()
    kind = op[0]
    try:
        if kind == "setc":  # ("setc", via, t, con, key|None, axes|None)
            _, via, t, c, key, axes = op
            k = target(f, via).set_construct(mk_construct(t, c), key=key, axes=ax_arg(axes))
            return f, "ok", k, None
        if kind == "delc":
            target(f, op[1]).del_construct(op[2])
            return f, "ok", None, None
        if kind == "setd":
            f.set_data(C.Data(np.zeros(op[1])), axes=ax_arg(op[2]))
            return f, "ok", None, None
        if kind == "setdn":
            g = f.set_data(C.Data(np.zeros(op[1])), axes=ax_arg(op[2]), inplace=False)
            return g, "ok", None, None
        if kind == "frame":
            frame_action(f, op[1], None)
            return f, "ok", None, None
        if kind == "mut":  # ("mut", key, what, arg, how)
            _, key, what, arg, how = op
            if key not in f.constructs.todict():
                raise ValueError("no such construct")
            c = contained(f, key, how)
            if what == "data":
                c.set_data(C.Data(np.zeros(arg)))
            elif what == "deldata":
                c.del_data()
            elif what == "bounds":
                c.set_bounds(C.Bounds(data=C.Data(np.zeros(arg))))
            elif what == "delbounds":
                c.del_bounds()
            elif what == "size":
                c.set_size(arg)
            else:
                raise fw.HarnessError("unknown mutator " + repr(what))
            return f, "ok", None, None
        if kind == "deld":
            f.del_data()
            return f, "ok", None, None
        if kind == "setda":
            f.set_data_axes(ax_arg(op[1]))
            return f, "ok", None, None
        if kind == "setdak":
            target(f, op[1]).set_data_axes(ax_arg(op[2]), key=op[3])
            return f, "ok", None, None
        if kind == "delda":
            f.del_data_axes()
            return f, "ok", None, None
        if kind == "deldak":
            target(f, op[1]).del_data_axes(op[2])
            return f, "ok", None, None
        if kind == "replace":  # ("replace", key, t, con, axes)
            f.constructs.replace(op[1], mk_construct(op[2], op[3]), axes=op[4])
            return f, "ok", None, None
        if kind == "copy":
            return (f.copy() if op[1] == 0 or (op[1] == 2 and is_domain(f)) else type(f)(source=f) if op[1] == 1 else f[...]), "ok", None, None
        if kind == "sub":
            return f[tuple(slice(a, b) for a, b in op[1])], "ok", None, None
        if kind == "squeeze":
            g = f.squeeze(op[1], inplace=op[2])
            return (f if op[2] else g), "ok", None, None
        if kind == "transpose":
            g = f.transpose(op[1], constructs=op[2], inplace=op[3])
            return (f if op[3] else g), "ok", None, None
        if kind == "insdim":
            g = f.insert_dimension(op[1], position=op[2], constructs=op[3], inplace=op[4])
            return (f if op[4] else g), "ok", None, None
        if kind == "convert":
            return f.convert(op[1], full_domain=op[2]), "ok", None, None
    except fw.HarnessError:
        raise
    except Exception as e:
        return f, "rej", None, fw.exc_enum(e)
    raise fw.HarnessError("unknown op " + repr(op))


# ------------------------------------------------------------------ op text  (mirrors Cfdm/Driver/C02.lean)
def enc_op(op, ret):
    k = op[0]
    if k == "setc":
        _, via, t, c, key, axes = op
        return ":".join(["setc", via, sh_con(ret, t, None, c, sort=False), "_" if key is None else sh_key(ret, key), sh_optkeys(ret, axes)])
    if k == "delc":
        return f"delc:{op[1]}:{sh_key(ret, op[2])}"
    if k == "setd":
        return f"setd:{sh_shape(op[1])}:{sh_optkeys(ret, op[2])}"
    if k == "setdn":
        return f"setdn:{sh_shape(op[1])}:{sh_optkeys(ret, op[2])}"
    if k == "frame":
        return f"frame@{op[1]}"
    if k == "mut":
        arg = "_" if op[3] is None else (str(op[3]) if op[2] == "size" else sh_shape(op[3]))
        return f"mut@{op[4]}:{sh_key(ret, op[1])}:{op[2]}:{arg}"
    if k in ("deld", "delda"):
        return k
    if k == "setda":
        return f"setda:{sh_keys(ret, op[1])}"
    if k == "setdak":
        return f"setdak:{op[1]}:{sh_keys(ret, op[2])}:{sh_key(ret, op[3])}"
    if k == "deldak":
        return f"deldak:{op[1]}:{sh_key(ret, op[2])}"
    if k == "replace":
        return ":".join(["replace", sh_key(ret, op[1]), sh_con(ret, op[2], None, op[3], sort=False), sh_optkeys(ret, op[4])])
    if k == "copy":
        return "copy" if not op[1] else f"copy@{op[1]}"
    if k == "sub":
        return "sub:" + ("+".join(f"{a}-{b}" for a, b in op[1]) or "n")
    idx = lambda l: "_" if l is None else ("+".join(str(i) for i in l) or "n")
    b = lambda x: "1" if x else "0"
    if k == "squeeze":
        return f"squeeze:{idx(op[1])}:{b(op[2])}"
    if k == "transpose":
        return f"transpose:{idx(op[1])}:{b(op[2])}:{b(op[3])}"
    if k == "insdim":
        return f"insdim:{'_' if op[1] is None else sh_key(ret, op[1])}:{op[2]}:{b(op[3])}:{b(op[4])}"
    if k == "convert":
        return f"convert:{sh_key(ret, op[1])}:{b(op[2])}"
    raise fw.HarnessError("cannot encode " + repr(op))


def _key(ret, s):
    if s.startswith("#"):
        k = ret[int(s[1:])]
        if k is None:
            raise fw.HarnessError("reference to an operation that returned no key: " + s)
        return k
    return s


def _keys(ret, s):
    return [] if s == "n" else [_key(ret, x) for x in s.split("+")]


def _optkeys(ret, s):
    return None if s == "_" else _keys(ret, s)


def _shape(s):
    if s == "_":
        return None
    if s == "s":
        return ()
    return tuple(int(x) for x in s.split("x"))


def dec_con(ret, s):
    t, k, d, b, g, r, sz, cmx, co, an = s.split("/")
    c = blank(data=_shape(d), bounds=_shape(b), geom=g == "1", ring=_shape(r), size=None if sz == "_" else int(sz),
              cmaxes=[] if cmx == "n" else [x[1:] if x.startswith("~") else _key(ret, x) for x in cmx.split("+")],
              coords=_keys(ret, co),
              ancils=[] if an == "n" else [(x.split("~")[0], None if x.split("~")[1] == "" else _key(ret, x.split("~")[1]))
                                           for x in an.split("+")])
    return t, c


def dec_op(s, ret, types=None):
    p = s.split(":")
    k = p[0]
    idx = lambda x: None if x == "_" else ([] if x == "n" else [int(i) for i in x.split("+")])
    if k == "setc":
        t, c = dec_con(ret, p[2])
        return ("setc", p[1], t, c, None if p[3] == "_" else _key(ret, p[3]), _optkeys(ret, p[4]))
    if k == "delc":
        return ("delc", p[1], _key(ret, p[2]))
    if k == "setd":
        return ("setd", _shape(p[1]), _optkeys(ret, p[2]))
    if k == "setdn":
        return ("setdn", _shape(p[1]), _optkeys(ret, p[2]))
    if k.startswith("frame"):
        return ("frame", int(k.split("@")[1]) if "@" in k else 0)
    if k.startswith("mut"):
        how = int(k.split("@")[1]) if "@" in k else 0
        arg = None if p[3] == "_" else (int(p[3]) if p[2] == "size" else _shape(p[3]))
        return ("mut", _key(ret, p[1]), p[2], arg, how)
    if k in ("deld", "delda"):
        return (k,)
    if k == "setda":
        return ("setda", _keys(ret, p[1]))
    if k == "setdak":
        return ("setdak", p[1], _keys(ret, p[2]), _key(ret, p[3]))
    if k == "deldak":
        return ("deldak", p[1], _key(ret, p[2]))
    if k == "replace":
        t, c = dec_con(ret, p[2])
        return ("replace", _key(ret, p[1]), t, c, _optkeys(ret, p[3]))
    if k.startswith("copy"):
        return ("copy", int(k.split("@")[1]) if "@" in k else 0)
    if k == "sub":
        return ("sub", [] if p[1] == "n" else [tuple(int(x) for x in q.split("-")) for q in p[1].split("+")])
    if k == "squeeze":
        return ("squeeze", idx(p[1]), p[2] == "1")
    if k == "transpose":
        return ("transpose", idx(p[1]), p[2] == "1", p[3] == "1")
    if k == "insdim":
        return ("insdim", None if p[1] == "_" else _key(ret, p[1]), int(p[2]), p[3] == "1", p[4] == "1")
    if k == "convert":
        return ("convert", _key(ret, p[1]), p[2] == "1")
    raise fw.HarnessError("cannot decode " + s)


# ------------------------------------------------------------------ targeted families
def targeted(rng, st, akeys, size, sized, arr, tof, cms):
    """Families aimed at single guards / at the order of guard and write (about 1 call in 5); None = no family applies."""
    cons, types, axes, data, daxes = st["cons"], st["types"], st["axes"], st["data"], st["daxes"]
    q = rng.random()
    if q > 0.24:
        return None
    hidden = sorted(k for (t, k) in cons if t in ("fan", "cm"))
    plain = [k for k in arr if tof[k] in ("dim", "aux", "msr", "fan", "dan") and not cons[(tof[k], k)]["geom"]
             and cons[(tof[k], k)]["ring"] is None]

    def sizes_of(ax):
        return [size.get(a) or 1 for a in ax]

    def spoil(shape):
        """a shape that must be refused for axes of sizes `shape`"""
        shape = list(shape)
        w = rng.random()
        if w < 0.25 and len(shape) >= 2 and shape != shape[::-1]:
            return shape[::-1]  # transposed
        if w < 0.45:
            return shape + [1]  # the shape before a squeeze
        if w < 0.6 and 1 in shape:
            shape.remove(1)  # the shape after a squeeze (the axes are still there)
            return shape
        if w < 0.75 and shape:
            return shape[:-1] if len(shape) > 1 or rng.random() < 0.5 else [shape[0] + 1]
        if shape:
            i = rng.randrange(len(shape))
            shape[i] += rng.choice([1, 2])
            return shape
        return [2]

    if q < 0.07 and sized:
        # ---- set_data (in place or not) / set_data_axes that must be refused, or just fit
        kind = "setdn" if rng.random() < 0.4 else "setd"
        old = list(daxes) if daxes is not None else None
        new = rng.sample(sized, rng.randint(1, min(3, len(sized))))
        w = rng.random()
        if w < 0.22 and old is not None and all(a in size for a in old):
            return (kind, tuple(spoil(sizes_of(old))), None)  # axes=None on a field with data axes, unfitting shape
        if w < 0.34 and old is not None and all(a in size for a in old):
            return (kind, tuple(sizes_of(old)), None)  # ... fitting
        if w < 0.50 and old is not None and all(a in size for a in old) and sizes_of(old) != sizes_of(new):
            return (kind, tuple(sizes_of(old)), new)  # fits the old axes, not the new ones
        if w < 0.66:
            return (kind, tuple(spoil(sizes_of(new))), new)  # fits neither (or only by accident)
        if w < 0.74 and len(new) >= 2:
            return (kind, tuple(sizes_of(new)), new[::-1])  # axes transposed against the shape
        if w < 0.80:
            return (kind, tuple(sizes_of(new) + [1]), new + [rng.choice(["domainaxis55", "domainaxis5"])])  # unknown axis
        if w < 0.90 and data is not None:
            # set_data_axes against the existing data
            fit = []
            for n in data:
                cand = [a for a in sized if size[a] == n]
                if not cand:
                    break
                fit.append(rng.choice(cand))
            if len(fit) == len(data) and rng.random() < 0.5:
                return ("setda", fit)
            ax = new if sizes_of(new) != list(data) else new + [rng.choice(sized)]
            return ("setda", ax[::-1] if rng.random() < 0.3 else ax)
        return (kind, tuple(sizes_of(new)), new)  # accepted
    if q < 0.115 and akeys:
        # ---- through a live view: what the view hides, and the guards that must look beneath it
        via = rng.choice(VIEWS)
        w = rng.random()
        if w < 0.25 and hidden and sized:
            # an identifier that a hidden construct uses, for a construct of a visible type
            a = rng.choice(sized)
            t = rng.choice(["aux", "dim", "dan", "msr"])
            return ("setc", via, t, blank(data=(size[a],)), rng.choice(hidden), [a])
        if w < 0.33 and hidden:
            return ("setc", via, "axis", blank(size=rng.randint(1, 4)), rng.choice(hidden), None)
        if w < 0.45 and sized:
            # a construct of a hidden type
            a = rng.choice(sized)
            if rng.random() < 0.5:
                return ("setc", via, "fan", blank(data=(size[a],)), None, [a])
            return ("setc", via, "cm", blank(cmaxes=[a]), None, None)
        if w < 0.60 and hidden:
            k = rng.choice(hidden)
            z = rng.random()
            if z < 0.5:
                return ("delc", via, k)
            if z < 0.75 or not sized:
                return ("deldak", via, k)
            shp = con_shape(tof[k], cons[(tof[k], k)]) or ()
            fit = [next((a for a in sized if size[a] == n), sized[0]) for n in shp]
            return ("setdak", via, fit, k)
        # an axis that only something hidden / the field's data still uses
        by_hidden = [a for a in akeys if any(a in axes.get(k, ()) for k in hidden if tof[k] == "fan")
                     or any(a in cons[("cm", k)]["cmaxes"] for k in cms)]
        by_data = [a for a in akeys if daxes is not None and a in daxes]
        pool = by_hidden if by_hidden and rng.random() < 0.6 else (by_data or akeys)
        return ("delc", via, rng.choice(pool))
    if q < 0.16 and (plain or akeys):
        # ---- a mutator called on a contained construct (shape-preserving most of the time)
        how = rng.randrange(5)
        if akeys and (not plain or rng.random() < 0.2):
            k = rng.choice(akeys)
            n = size.get(k)
            spanned = any(k in l for l in axes.values()) or (daxes is not None and k in daxes)
            return ("mut", k, "size", n if (n is not None and spanned and rng.random() > 0.07 * RISK) else rng.randint(1, 4), how)
        k = rng.choice(plain)
        t = tof[k]
        c = cons[(t, k)]
        shp = c["data"]
        w = rng.random()
        if w < 0.45:
            fit = tuple(size[a] for a in axes[k]) if k in axes and all(size.get(a) for a in axes[k]) else None
            new = shp if shp is not None else (con_shape(t, c) or fit or (rng.randint(1, 3),))
            if t == "dim" and len(new) != 1:
                new = (rng.randint(1, 3),)
            if rng.random() < 0.06 * RISK:
                new = tuple(new) + (2,) if rng.random() < 0.5 else tuple(n + 1 for n in new) or (2,)
            return ("mut", k, "data", tuple(new), how)
        if w < 0.6:
            return ("mut", k, "deldata", None, how)
        if w < 0.85 and t in ("dim", "aux", "dan"):
            base = shp if shp is not None else (con_shape(t, c) or (rng.randint(1, 3),))
            b = tuple(base) + (rng.choice([2, 4]),)
            if rng.random() < 0.2:
                b = tuple(n + 1 for n in base) + (2,) if base and rng.random() < 0.6 else tuple(base)
            return ("mut", k, "bounds", b, how)
        return ("mut", k, "delbounds", None, how)
    if q < 0.18:
        return ("frame", rng.randrange(5))
    if q >= 0.205:
        # ---- convert(full_domain=True) that has to carry a coordinate reference and its domain ancillaries over:
        # one step of the chain  coordinate -> domain ancillary on its axes -> reference naming both -> convert
        coords = sorted(k for (t, k) in cons if t in ("dim", "aux") and k in axes and axes[k])
        dans = sorted(k for (t, k) in cons if t == "dan" and k in axes)
        for (t, k), c in sorted(cons.items()):
            if t != "ref" or not c["coords"] or not any(v for _, v in c["ancils"]):
                continue
            need = set()
            ok = True
            for v in [v for _, v in c["ancils"]]:
                if v is None or v not in axes:
                    ok = False
                    break
                need |= set(axes[v])
            hit = [x for x in c["coords"] if x in axes]
            if not ok or not hit:
                continue
            for kk in arr:
                if tof[kk] in ("top", "con") or cons[(tof[kk], kk)]["data"] is None or kk not in axes:
                    continue
                if need <= set(axes[kk]) and any(set(axes[x]) <= set(axes[kk]) for x in hit):
                    return ("convert", kk, True)
        pair = [(x, y) for x in coords for y in dans if set(axes[y]) <= set(axes[x])]
        if pair:
            x, y = rng.choice(pair)
            return ("setc", "f", "ref", blank(coords=[x], ancils=[("a", y)] + ([("b", y)] if rng.random() < 0.4 else [])), None, None)
        if coords:
            x = rng.choice(coords)
            if all(a in size and size[a] is not None for a in axes[x]):
                return ("setc", "f", "dan", blank(data=tuple(size[a] for a in axes[x])), None, list(axes[x]))
        return None
    if data is not None and daxes is not None:
        # ---- in place AND constructs=True
        nd = len(data)
        if rng.random() < 0.5:
            perm = list(range(nd))
            rng.shuffle(perm)
            return ("transpose", None if rng.random() < 0.3 else perm, True, True)
        ones = [k for k in sized if size[k] == 1 and k not in daxes]
        ax = rng.choice(ones) if ones and rng.random() < 0.5 else None
        if any(t in ("top", "con") and c["data"] is not None for (t, _), c in cons.items()) and rng.random() > 0.5 * RISK:
            # on a mesh the in-place call with constructs failed half-way before
            # fixes/C02-insert-dimension-skips-topology-constructs.patch: mix in the non-in-place call
            return ("insdim", ax, rng.randint(0, nd), True, False)
        return ("insdim", ax, rng.randint(0, nd), True, True)
    return None


# ------------------------------------------------------------------ generator of one op from the abstract state
def gen_op(rng, st, bad_p=0.25, domain=False):
    op = _gen_op(rng, st, bad_p)
    if domain:
        # a stand-alone domain offers the container calls only; in the model they are calls through a view
        # (no cell methods, no field ancillaries, no field data) on a state that has nothing hidden
        for _ in range(50):
            if op[0] in DOMAIN_OPS:
                break
            op = _gen_op(rng, st, bad_p)
        else:
            op = ("copy", 0)
        if op[0] in ("setc", "delc", "setdak", "deldak") and op[1] == "f":
            op = (op[0], "d") + op[2:]
        if op[0] == "setc" and op[2] not in ("fan", "cm") and rng.random() < 0.05 and st["cons"]:
            # a construct of a type that a domain cannot hold, with and without an identifier
            a = next((k for (t, k), c in sorted(st["cons"].items()) if t == "axis" and c["size"]), None)
            if a is not None:
                if rng.random() < 0.5:
                    op = ("setc", op[1], "cm", blank(cmaxes=[a]), rng.choice([None, None, None, "cellmethod7"]), None)
                else:
                    op = ("setc", op[1], "fan", blank(data=(st["cons"][("axis", a)]["size"],)), rng.choice([None, None, "fieldancillary7"]), [a])
    if op[0] == "setc" and op[4] is None and rng.random() < 0.06 * (0.4 + 0.6 * RISK):
        # an identifier that is not of the form <letters><number>
        op = op[:4] + (rng.choice(NONSTD),) + op[5:]
    return op


def _gen_op(rng, st, bad_p=0.25):
    cons, types, axes, data, daxes = st["cons"], st["types"], st["axes"], st["data"], st["daxes"]
    akeys = sorted(k for (t, k) in cons if t == "axis")
    size = {k: cons[("axis", k)]["size"] for k in akeys}
    sized = [k for k in akeys if size[k] is not None]
    arr = sorted(k for (t, k) in cons if t in ARRAY)
    tof = {k: t for (t, k) in cons}
    cms = sorted(k for (t, k) in cons if t == "cm")
    refs = sorted(k for (t, k) in cons if t == "ref")
    bad = rng.random() < bad_p
    via = rng.choice(VIEWS) if rng.random() < 0.25 else "f"
    fam = targeted(rng, st, akeys, size, sized, arr, tof, cms)
    if fam is not None:
        return fam
    r = rng.random()

    def pick_axes(nmax=3):
        if not sized:
            return []
        n = rng.randint(0 if rng.random() < 0.1 else 1, min(nmax, len(sized)))
        return rng.sample(sized, n)

    def arr_con(t, shape):
        c = blank(data=None if shape is None else tuple(shape))
        if shape is not None and t in ("dim", "aux", "dan") and rng.random() < 0.35:
            if t == "aux" and len(shape) == 1 and rng.random() < 0.3:
                c["geom"] = True
                c["bounds"] = tuple(shape) + (2, 3)
                if rng.random() < 0.6:
                    c["ring"] = tuple(shape) + (2,)
            else:
                c["bounds"] = tuple(shape) + (rng.choice([2, 4]),)
            if rng.random() < 0.25:
                c["data"] = None  # bounds only
        return c

    if r < 0.30 or not akeys:
        t = rng.choice(["axis", "axis", "dim", "aux", "aux", "msr", "fan", "dan", "cm", "ref"] * 3 + ["top", "con"])
        if t == "axis" or not sized:
            key = None
            q = rng.random()
            if bad and akeys and q < 0.45:
                key = rng.choice(akeys)  # replace an existing axis (possibly changing its size)
                n = size[key] if size[key] and rng.random() > 0.17 * RISK else rng.randint(1, 4)
                return ("setc", via, "axis", blank(size=n), key, None)
            if bad and arr and q < 0.6:
                key = rng.choice(arr)  # key of another type
            elif bad and q < 0.7:
                key = f"foo{rng.randint(0, 2)}"
            elif bad and q < 0.8:
                return ("setc", via, "axis", blank(size=None), None, None)  # an axis without size
            return ("setc", via, "axis", blank(size=rng.randint(1, 4)), key, None)
        if t == "cm":
            ax = pick_axes(2)
            if rng.random() < 0.2:
                ax = ax + [rng.choice(["area", "time"])]
            if bad and rng.random() < 0.12 * RISK:
                ax = ax + [f"domainaxis{rng.choice([9, 99])}"]
            key = rng.choice(cms) if cms and rng.random() < 0.2 else None
            return ("setc", via, "cm", blank(cmaxes=ax), key, ["domainaxis0"] if bad and rng.random() < 0.1 else None)
        if t == "ref":
            coords = sorted(k for (tt, k) in cons if tt in ("dim", "aux"))
            dans = sorted(k for (tt, k) in cons if tt == "dan")
            # coordinates / ancillaries already used by another reference are preferred half of the time, so that
            # several references share one construct
            used_co = sorted({x for (tt, k), c in cons.items() if tt == "ref" for x in c["coords"] if x in coords})
            used_an = sorted({v for (tt, k), c in cons.items() if tt == "ref" for _, v in c["ancils"] if v in dans})
            pool_co = used_co if used_co and rng.random() < 0.5 else coords
            pool_an = used_an if used_an and rng.random() < 0.5 else dans
            co = rng.sample(pool_co, min(len(pool_co), rng.randint(0, 2)))
            vals = rng.sample(pool_an, min(len(pool_an), rng.randint(0, 2)))
            if vals and rng.random() < 0.65:
                # one domain ancillary as the value of 2-3 terms of the same coordinate conversion
                vals = vals + [vals[0]] * rng.randint(1, 2)
                rng.shuffle(vals)
            if rng.random() < 0.15:
                vals = vals + [None]
            if bad and rng.random() < 0.1 * RISK:
                co = co + [rng.choice(["auxiliarycoordinate99"] + sorted(k for (tt, k) in cons if tt in ("msr", "axis")))]
            if bad and rng.random() < 0.05 * RISK:
                vals = vals + ["domainancillary99"]
            names = rng.sample(["a", "b", "orog", "sigma", "eta", "depth", "zlev"], len(vals))
            key = rng.choice(refs) if refs and rng.random() < 0.2 else None
            return ("setc", via, "ref", blank(coords=co, ancils=list(zip(names, vals))), key, None)
        if t in ("top", "con"):
            # a domain topology / cell connectivity: (cells, nodes) data on ONE domain axis (`shape` = the first dimension)
            ax = pick_axes(1)
            shp = [size[a] for a in ax] + [rng.randint(2, 4)]
            aa = list(ax)
            if bad:
                q = rng.random()
                if q < 0.3:
                    shp[0] += 1
                elif q < 0.5:
                    aa = aa + [rng.choice(sized)]  # two axes never fit a topology
                elif q < 0.7:
                    aa = None
            same = sorted(k for (tt, k) in cons if tt == t)
            key = rng.choice(same) if same and rng.random() < 0.2 else None
            return ("setc", via, t, blank(data=tuple(shp) if len(shp) >= 2 else None), key, aa)
        ax = pick_axes(1 if t == "dim" else 3)
        shape = [size[a] for a in ax]
        key = None
        same = sorted(k for (tt, k) in cons if tt == t)
        if same and rng.random() < 0.2:
            key = rng.choice(same)
        elif rng.random() < 0.06:
            # an identifier of the standard form of ANOTHER type (legal; later automatic identifiers must avoid it)
            ot = rng.choice(["axis", "aux", "dim", "cm", "msr"])
            key = f"{BASE[ot]}{sum(1 for (tt, _) in cons if tt == ot) + rng.randint(0, 1)}"
        aa = list(ax)
        if bad:
            q = rng.random()
            if q < 0.25 and shape:
                shape[rng.randrange(len(shape))] += 1  # wrong shape
            elif q < 0.4:
                aa = aa + [f"domainaxis{rng.choice([7, 77])}"]  # unknown axis
                shape = shape + [2]
            elif q < 0.65:
                aa = None  # no axes given (with an existing key: the recorded axes are kept)
                if key is not None and rng.random() < 0.5 and shape:
                    shape[rng.randrange(len(shape))] += 1
            elif q < 0.8:
                other = sorted(k for k in types if tof.get(k) != t)
                if other:
                    key = rng.choice(other)  # key of another type
            elif q < 0.9:
                shape = None  # no data
            else:
                aa = aa[:-1] if aa else aa  # too few axes
        if t == "dim" and shape is not None and len(shape) != 1:
            t = "aux"  # cfdm's DimensionCoordinate.set_data accepts 1-d data only
            if key is not None and tof.get(key) == "dim":
                key = None
        return ("setc", via, t, arr_con(t, shape), key, aa)
    if r < 0.44:
        allk = sorted(types)
        named = sorted({x for (tt, k), c in cons.items() if tt == "ref" for x in list(c["coords"]) + [v for _, v in c["ancils"] if v is not None]
                        if x in types})
        if named and rng.random() < 0.5:
            # a construct that coordinate references name (through the field or through the domain view)
            return ("delc", rng.choice(["f", "d"]), rng.choice(named))
        k = rng.choice(allk) if allk and not (bad and rng.random() < 0.3) else rng.choice(["auxiliarycoordinate99", "domainaxis99"])
        return ("delc", via, k)
    if r < 0.52:
        ax = pick_axes(3)
        if daxes is not None and rng.random() < 0.4:
            ax = list(daxes)
        shape = [size.get(a) or 1 for a in ax]
        aa = list(ax)
        if rng.random() < 0.3 and daxes is not None:
            aa = None
            shape = [size.get(a) or 1 for a in daxes]
        if bad:
            q = rng.random()
            if q < 0.4 and shape:
                shape[rng.randrange(len(shape))] += 1
            elif q < 0.7:
                aa = None
            else:
                aa = (aa or []) + ["domainaxis55"]
                shape = shape + [1]
        return ("setd", tuple(shape), aa)
    if r < 0.55:
        return ("deld",)
    if r < 0.62:
        if arr and rng.random() < 0.55:
            key = rng.choice(arr)
            shp = con_shape(tof[key], cons[(tof[key], key)])
            if bad and rng.random() < 0.3:
                key = rng.choice(sorted(types))  # any construct, also one that cannot have data
        else:
            key = None
            shp = data
        if shp is not None and not bad:
            ax = []
            for n in shp:
                cand = [a for a in sized if size[a] == n and a not in ax]
                if not cand:
                    break
                ax.append(rng.choice(cand))
            if len(ax) != len(shp):
                ax = pick_axes(3)
        else:
            ax = pick_axes(3)
            if bad and rng.random() < 0.5:
                ax = ax + ["domainaxis44"]
        if key is None:
            return ("setda", ax)
        return ("setdak", via, ax, key)
    if r < 0.66:
        if rng.random() < 0.6 and axes:
            return ("deldak", via, rng.choice(sorted(axes)) if not bad else rng.choice(sorted(types)))
        return ("delda",)
    if r < 0.69 and arr:
        key = rng.choice(arr)
        t = tof[key]
        old = cons[(t, key)]
        shp = con_shape(t, old)
        if t == "dim" and shp is not None and len(shp) != 1:
            return ("copy", 0)
        c = blank(data=shp)
        ax = None
        if bad:
            q = rng.random()
            if q < 0.15 * RISK and shp:
                c = blank(data=tuple(n + 1 for n in shp))
            elif q < 0.3 * RISK:
                ax = pick_axes(2) + ["domainaxis33"]
            else:
                key = "auxiliarycoordinate99"
        return ("replace", key, t, c, ax)
    if r < 0.73:
        return ("copy", rng.randint(0, 2))
    if r < 0.80 and data is not None and daxes is not None:
        ix = []
        for n in data:
            a = rng.randint(0, max(0, n - 1))
            b = rng.randint(a + (0 if bad and rng.random() < 0.3 else 1), max(a + 1, n))
            ix.append((a, b))
        if bad and rng.random() < 0.2:
            ix.append((0, 1))
        return ("sub", ix)
    if r < 0.85 and data is not None:
        nd = len(data)
        ones = [i for i, n in enumerate(data) if n == 1]
        ip = rng.random() < 0.3
        if bad and nd:
            return ("squeeze", [rng.randrange(nd + 1)], ip)
        return ("squeeze", None if rng.random() < 0.5 or not ones else rng.sample(ones, rng.randint(1, len(ones))), ip)
    if r < 0.90 and data is not None:
        nd = len(data)
        perm = list(range(nd))
        rng.shuffle(perm)
        if bad and nd > 1:
            perm = perm[:-1] if rng.random() < 0.5 else perm[:-1] + [perm[0]]
        cs = rng.random() < 0.5
        return ("transpose", None if rng.random() < 0.3 else perm, cs, (not cs) and rng.random() < 0.3)
    if r < 0.95:
        ones = [k for k in sized if size[k] == 1 and (daxes is None or k not in daxes)]
        q = rng.random()
        if q < 0.35:
            ax = None
        elif ones and not bad:
            ax = rng.choice(ones)
        else:
            ax = rng.choice(akeys + ["domainaxis66"]) if akeys else None
        nd = len(data) if data is not None else 0
        cs = rng.random() < 0.5
        return ("insdim", ax, rng.randint(0, nd + (1 if bad else 0)), cs, (not cs) and rng.random() < 0.3)
    if types:
        return ("convert", rng.choice(arr) if arr and not bad else rng.choice(sorted(types)), rng.random() < 0.7)
    return ("copy", 0)


# ------------------------------------------------------------------ cases
DOMAIN_OPS = ("setc", "delc", "setdak", "deldak", "replace", "copy", "mut", "frame")


def start_field(which, hseed):
    C = cfdm()
    if which == "empty":
        return C.Field()
    if which == "dom:e":
        return C.Domain()
    if which.startswith("dom:"):
        # a stand-alone domain: the copy of a field's domain
        return C.example_field(int(which[4:])).domain.copy()
    if which == "random":
        from ..gen import fields
        return fields.random_field(fw.rng_for(hseed, "start"), allow=("dim", "aux", "aux2d", "scalar", "msr", "fan", "cm", "gm", "ft", "bounds", "dan"))
    return C.example_field(int(which))


def gen(rng, tier, n):
    maxlen = 14 if tier == "quick" else 40
    for _ in range(n):
        start = rng.choice(["empty", "empty", "empty", "0", "1", "2", "3", "5", "6", "7", "8", "9", "10",
                            "random", "random", "random", "dom:e", "dom:1", rng.choice(["dom:0", "dom:2", "dom:6", "dom:7", "dom:8"])])
        yield Case("C02.hist", dict(start=start, hseed=rng.randrange(1 << 40), length=rng.randint(4, maxlen)), None,
                   tags=["start:" + start])


def from_payload(stream, payload):
    return Case("C02.hist", dict(payload), None)


INPLACE_DERIVING = ("squeeze", "transpose", "insdim")
NEW_OBJECT = ("copy", "sub", "convert", "setdn", "squeeze", "transpose", "insdim")


def in_place(op):
    return op[0] in INPLACE_DERIVING and bool(op[-1])


def order_dependent(op):
    """in place and with constructs=True: what a rejected call leaves depends on the order of the dictionaries"""
    return (op[0] == "transpose" and op[2] and op[3]) or (op[0] == "insdim" and op[3] and op[4])


def objects(f):
    """the construct objects and the data object that the field holds (kept alive, compared with `is`)"""
    return dict(f.constructs.todict()), (None if is_domain(f) else f.get_data(None))


def same_objects(a, b):
    return set(a[0]) == set(b[0]) and all(a[0][k] is b[0][k] for k in a[0]) and a[1] is b[1]


def impl(c):
    p = c.payload
    rng = fw.rng_for(p["hseed"], "hist")
    f = start_field(p["start"], p["hseed"])
    fixed = p.get("ops")
    st = abstract(f)
    init = sh_state([], st, sort=False)
    ret = []
    lines = []
    done = []
    fail = None
    accepted = 0
    n = len(fixed) if fixed is not None else p["length"]
    global RISK
    RISK = min(1.0, 9.0 / max(1, n))
    tags = []
    before = None
    for i in range(n):
        if fixed is not None:
            text = fixed[i]
            op = dec_op(text, ret)
        else:
            op = gen_op(rng, st, domain=is_domain(f))
            text = enc_op(op, ret)
            op = dec_op(text, ret)
        before = st
        receiver = f
        held = objects(f)
        f, res, key, exc = apply_op(f, op)
        ret.append(key)
        done.append(text)
        if res == "ok" and op[0] not in ("copy", "frame"):
            accepted += 1
        tags.append(("op:" if res == "ok" else "rej:") + op[0] + (":v" if len(op) > 1 and op[1] in VIEWS else "")
                    + (":ip" if in_place(op) else "") + (":cs+ip" if order_dependent(op) else ""))
        bad = invariant(f)
        try:
            st = abstract(f)
            s = sh_state(ret, st)
        except Exception as e:
            s = "unabstractable:" + type(e).__name__
            bad = bad or ("the state cannot be inspected: " + repr(e)[:100])
        if not bad:
            # a rejected call, and the receiver of a call that returns a new field, must be literally unchanged
            # (a rejected in-place deriving call too, unless its first statement creates the new axis or it
            # walks the constructs: C02_rejected_unchanged, C02_inplace_rejected_unchanged)
            if ((res == "rej" and not order_dependent(op) and not (in_place(op) and op[0] == "insdim" and op[1] is None))
                    or (op[0] in NEW_OBJECT and not in_place(op)) or op[0] == "frame"):
                try:
                    now = sh_state(ret[:-1], abstract(receiver))
                    was = sh_state(ret[:-1], before)
                    if now != was:
                        bad = f"the receiver of a {'rejected' if res == 'rej' else 'non-in-place'} call changed: {was} -> {now}"
                    elif not same_objects(held, objects(receiver)):
                        bad = f"the receiver of a {'rejected' if res == 'rej' else 'non-in-place'} call holds other construct / data objects than before"
                except Exception as e:
                    bad = "the receiver cannot be inspected after the call: " + repr(e)[:100]
        stop = order_dependent(op) and res == "rej"
        lines.append(f"{res}@{'0' if bad else '1'}@{'~' if stop else s}")
        if bad:
            fail = dict(step=i, op=text, kind=op[0], result=res, exc=exc, problem=bad,
                        sig=signature(op, res, before, st if isinstance(st, dict) else None, bad))
            break
        if stop:
            break
    c.payload["ops"] = done
    c.line = f"C02.hist init={init} ops={';'.join(done) or '-'}"
    c.extra = dict(fail=fail, accepted=accepted, last=lines[-3:])
    c.nontrivial = accepted >= 3
    c.key = p["start"] + "|" + str(p["hseed"] if p["start"] == "random" else "") + "|" + ";".join(done)
    c.tags = tuple(c.tags) + tuple(tags)
    return ";;".join(lines)


def _model(c):
    m = c.model_out or ""
    out = {}
    for part in m.split(" "):
        if "=" in part:
            k, v = part.split("=", 1)
            out[k] = v
    return out


# findings that the model cannot see (how the formatters spell names is outside the abstract state): the
# states and outcomes of the whole history must still be the model's, the invariant flag is the oracle's alone
MODEL_BLIND = ("identifier-without-number-shares-name:str-dump-IndexError",)
# findings whose damage is the state left by the LAST (rejected) call: every earlier step must be the model's,
# of the last step only the outcome
LAST_STATE_BLIND = ("domain-copy-set_construct-hidden-type-with-key:KeyError-after-registering-the-key",)


def _noinv(step):
    """a step of a trace without its invariant flag"""
    return re.sub(r"^(ok|rej)@[01]@", r"\1@", step)


def agree(c, noinv=False, lastblind=False):
    """implementation trace == trace of the model of the container at HEAD.  The state after a rejected
    in-place call with constructs=True (`~`) is outside the model: only the outcome is compared."""
    m = _model(c)
    if m.get("I") != "1":
        return False
    a, b = (c.impl_out or "").split(";;"), (m.get("P") or "").split(";;")
    if noinv:
        a, b = [_noinv(x) for x in a], [_noinv(x) for x in b]
    if lastblind and a and b and len(a) == len(b):
        if a[-1].split("@")[0] != b[-1].split("@")[0]:
            return False
        a, b = a[:-1], b[:-1]
    if len(a) != len(b):
        return False
    for x, y in zip(a, b):
        if y == "rej@~@~":
            if not (x.startswith("rej@") and x.endswith("@~")):
                return False
        elif x != y:
            return False
    return True


def oracle(c):
    f = c.extra["fail"] if isinstance(c.extra, dict) else None
    if f:
        return f"after op {f['step']} `{f['op']}` ({f['result']}{'' if not f['exc'] else ':' + f['exc']}): {f['problem']}"
    return None


# ------------------------------------------------------------------ known findings
def signature(op, res, st, after, problem):
    """Signature of a failing operation, from the operation and the states before and after it."""
    cons, types, axes, data, daxes = st["cons"], st["types"], st["axes"], st["data"], st["daxes"]
    kind = op[0]
    if (res == "ok" and after is not None and "raised IndexError" in problem and problem.split(" ")[0] in ("repr", "str", "dump", "repr(domain)", "str(domain)", "dump(domain)")
            and any(not re.search(r"[0-9]$", k) for (_, k) in after["cons"])):
        # the formatters tell constructs of one name apart by the number at the end of the identifier
        return "identifier-without-number-shares-name:str-dump-IndexError"
    if (res != "ok" and kind == "setc" and op[2] in ("fan", "cm") and op[4] is not None and op[4] not in types
            and ("registered keys differ" in problem or "data axes recorded for non-existent construct" in problem
                 or "rejected call changed" in problem)
            and not any(t in ("fan", "cm") for t in types.values())):
        # a copy of a domain knows the construct types `cell_method` / `field_ancillary` but has no dictionary for them
        return "domain-copy-set_construct-hidden-type-with-key:KeyError-after-registering-the-key"
    if res != "ok":
        # a rejected in-place insert_dimension(constructs=True) on a field with a domain topology / cell
        # connectivity that has data: the construct was reshaped before its new axes were refused
        if (kind == "insdim" and op[3] and op[4] and "shape" in problem and "sizes of its axes" in problem
                and any(t in ("top", "con") and c["data"] is not None and k in axes for (t, k), c in cons.items())):
            return "insert_dimension-inplace-constructs-rejected-half-way-on-topology"
        return None
    if kind == "mut":
        return "direct-mutation-of-contained-construct"
    twice = after is not None and len({k for (_, k) in after["cons"]}) < len(after["cons"])
    if twice and ((kind == "setc" and op[4] is None) or (kind == "insdim" and op[1] is None)):
        return "new_identifier-returns-key-of-another-type"
    if kind == "setc":
        _, via, t, c, key, ax = op
        if t == "axis" and key is not None and ("axis", key) in cons and cons[("axis", key)]["size"] != c["size"]:
            spanned = any(key in l for l in axes.values()) or (daxes is not None and key in daxes)
            if spanned:
                return "set_construct-domain-axis-of-other-size-while-spanned"
        if t in ARRAY and key is not None and ax is None and key in axes and (t, key) in cons:
            return "set_construct-existing-key-keeps-axes-of-other-shape"
        if t == "cm" and "cell method" in problem:
            return "set_construct-cell-method-naming-missing-domain-axis"
        if t == "ref" and "coordinate reference" in problem:
            return "set_construct-coordinate-reference-naming-missing-construct"
    if kind == "delc" and op[1] == "d" and ("axis", op[2]) in cons:
        return "domain-view-del_construct-of-axis-in-use-by-field"
    if kind == "setda" and data is None and any(("axis", a) not in cons for a in op[1]):
        return "set_data_axes-unknown-axis-on-field-without-data"
    if kind == "insdim" and op[3] and "dimension coordinate" in problem and "-d data" in problem:
        return "insert_dimension-constructs-makes-dimension-coordinates-2d"
    if kind == "replace":
        return "constructs.replace-unchecked"
    return None


def classify(c):
    f = c.extra.get("fail") if isinstance(c.extra, dict) else None
    if not f:
        return None
    # not a listed finding: group the violations of one run by kind of call and kind of damage
    unlisted = "unlisted:" + f["kind"] + ":" + re.sub(r"term \S+|[a-z]+[0-9]+|[0-9]+|\(.*?\)", "#", f["problem"])[:60].strip().replace(" ", "-")
    if not f.get("sig"):
        return unlisted
    # a known finding is only recognised when the whole observed trace is what the model of the container
    # at HEAD produces for this history (so any other deviation is still reported)
    if c.model_out is not None and not agree(c, noinv=f["sig"] in MODEL_BLIND, lastblind=f["sig"] in LAST_STATE_BLIND):
        return unlisted
    return f["sig"]


def shrink(c, run):
    """Replace operations by no-ops (copy) while the failure keeps its signature, then drop the no-ops."""
    sig = (c.extra.get("fail") or {}).get("sig") if isinstance(c.extra, dict) else None
    prob = (c.extra.get("fail") or {}).get("problem") if isinstance(c.extra, dict) else None
    ops = list(c.payload["ops"])

    def attempt(trial):
        p = dict(c.payload)
        p["ops"] = trial
        c2 = Case("C02.hist", p, None)
        try:
            c2.impl_out = impl(c2)
        except Exception:
            return None
        c2.oracle_fail = oracle(c2)
        f2 = c2.extra.get("fail")
        if c2.oracle_fail and f2 and f2.get("sig") == sig and (sig or f2.get("problem", "")[:25] == (prob or "")[:25]):
            return c2
        return None

    best = c
    budget = 80
    for i in range(len(ops) - 1):
        if budget <= 0:
            break
        if ops[i] == "copy":
            continue
        budget -= 1
        trial = ops[:i] + ["copy"] + ops[i + 1:]
        c2 = attempt(trial)
        if c2 is not None:
            ops = list(c2.payload["ops"])
            best = c2
    # drop the no-ops, renumbering the #i references
    keep = [i for i, o in enumerate(ops) if o != "copy"]
    remap = {old: new for new, old in enumerate(keep)}
    try:
        compact = [re.sub(r"#(\d+)", lambda m: "#" + str(remap[int(m.group(1))]), ops[i]) for i in keep]
        c3 = attempt(compact)
        if c3 is not None:
            best = c3
    except KeyError:
        pass
    if best is not c and run is not None and best.line:
        try:
            best.model_out = fw.model_run([best.line])[0]
        except Exception:
            pass
    return best
