"""C16, streams q1 / q2: quadratic_latitude_longitude and bi_quadratic_latitude_longitude.

* an independent implementation of the two CF Appendix J methods in plain Python floats
  (`math` only; written from the Appendix J text: fll2v, fv2ll, fcea2cv, fqv, fcv, fcll, fqll),
  used as a SAMPLED oracle with an absolute tolerance (the methods are trigonometric, nothing
  is exact; tie points are checked with the same tolerance);
* generators of latitude / longitude tie points with their interpolation parameters
  (ce*, ca*, interpolation_subarea_flags) stored over any subset of the non-interpolated
  dimensions in any dimension order;
* builders of the `cfdm.SubsampledArray` pairs (each holding the other as dependent tie points).
"""
import itertools
import math

import numpy as np

TOL = 2e-9  # degrees, absolute (sampled check)
PDEN = 1024  # ce / ca values are integers / PDEN
LDEN = 4  # latitudes / longitudes are integers / LDEN degrees


# ------------------------------------------------------------------ Appendix J, plain floats
def fll2v(lat, lon):
    la, lo = math.radians(lat), math.radians(lon)
    return (math.cos(la) * math.cos(lo), math.cos(la) * math.sin(lo), math.sin(la))


def fv2ll(v):
    return (math.degrees(math.atan2(v[2], math.sqrt(v[0] * v[0] + v[1] * v[1]))),
            math.degrees(math.atan2(v[1], v[0])))


def fplus(*vs):
    return tuple(sum(c) for c in zip(*vs))


def fminus(a, b):
    return tuple(x - y for x, y in zip(a, b))


def fmul(r, v):
    return tuple(r * x for x in v)


def fdot(a, b):
    return sum(x * y for x, y in zip(a, b))


def fcross(a, b):
    return (a[1] * b[2] - a[2] * b[1], a[2] * b[0] - a[0] * b[2], a[0] * b[1] - a[1] * b[0])


def fq(ua, ub, w, s):
    return ua + s * (ub - ua + 4 * w * (1 - s))


def fw(ua, ub, ui, s):
    return (ui - (1 - s) * ua - s * ub) / (4 * (1 - s) * s)


def fqv(va, vb, wv, s):
    return tuple(fq(a, b, w, s) for a, b, w in zip(va, vb, wv))


def fcv(va, vb, vp, s):
    return tuple(fw(a, b, p, s) for a, b, p in zip(va, vb, vp))


def fcea2cv(va, vb, ce, ca):
    """ce / ca may be absent (None): the term is then left out (cfdm: `if ce is not None`)."""
    ce0 = 0.0 if ce is None else ce
    ca0 = 0.0 if ca is None else ca
    vr = fmul(0.5, fplus(va, vb))
    cr = math.sqrt(1 - ce0 * ce0 - ca0 * ca0) - math.sqrt(fdot(vr, vr))
    return fplus(fmul(ce0, fminus(va, vb)), fmul(ca0, fcross(va, vb)), fmul(cr, vr))


def fcll(lla, llb, llab):
    return (fw(lla[0], llb[0], llab[0], 0.5), fw(lla[1], llb[1], llab[1], 0.5))


def fqll(lla, llb, cll, s):
    return (fq(lla[0], llb[0], cll[0], s), fq(lla[1], llb[1], cll[1], s))


def qll_point(lla, llb, ce, ca, cart, s):
    va, vb = fll2v(*lla), fll2v(*llb)
    cv = fcea2cv(va, vb, ce, ca)
    if cart:
        return fv2ll(fqv(va, vb, cv, s))
    llab = fv2ll(fqv(va, vb, cv, 0.5))
    return fqll(lla, llb, fcll(lla, llb, llab), s)


def bqll_point(lla, llb, llc, lld, ce1, ca1, ce2, ca2, ce3, ca3, cart, s2, s1):
    """ce1/ca1: pairs (value at tie point row 0, row 1 of dimension 2); ce2/ca2: pairs (tie point column
    0, 1 of dimension 1); ce3/ca3: single values.  A (latitude, longitude) = tie point (row 0, column 0),
    B = (0, 1), C = (1, 0), D = (1, 1)."""
    va, vb, vc, vd = fll2v(*lla), fll2v(*llb), fll2v(*llc), fll2v(*lld)
    cv_ac = fcea2cv(va, vc, ce2[0], ca2[0])
    cv_bd = fcea2cv(vb, vd, ce2[1], ca2[1])
    vab = fqv(va, vb, fcea2cv(va, vb, ce1[0], ca1[0]), 0.5)
    vcd = fqv(vc, vd, fcea2cv(vc, vd, ce1[1], ca1[1]), 0.5)
    cv_z = fcea2cv(vab, vcd, ce3, ca3)
    if cart:
        vac = fqv(va, vc, cv_ac, s2)
        vbd = fqv(vb, vd, cv_bd, s2)
        vz = fqv(vab, vcd, cv_z, s2)
        cv_zz = fcv(vac, vbd, vz, 0.5)
        return fv2ll(fqv(vac, vbd, cv_zz, s1))
    llc_ac = fcll(lla, llc, fv2ll(fqv(va, vc, cv_ac, 0.5)))
    llac = fqll(lla, llc, llc_ac, s2)
    llc_bd = fcll(llb, lld, fv2ll(fqv(vb, vd, cv_bd, 0.5)))
    llbd = fqll(llb, lld, llc_bd, s2)
    llab, llcd = fv2ll(vab), fv2ll(vcd)
    llc_z = fcll(llab, llcd, fv2ll(fqv(vab, vcd, cv_z, 0.5)))
    llz = fqll(llab, llcd, llc_z, s2)
    cl_zz = fcll(llac, llbd, llz)
    return fqll(llac, llbd, cl_zz, s1)


# ------------------------------------------------------------------ bookkeeping shared with C16.py
def n_subareas(t):
    return sum(1 for a, b in zip(t, t[1:]) if b - a >= 2)


def locate(t, p):
    for k in range(len(t) - 1):
        if t[k + 1] - t[k] >= 2 and t[k] <= p <= t[k + 1]:
            return k, (p - t[k]) / (t[k + 1] - t[k])
    raise ValueError("index not inside any interpolation subarea")


def subarea_number(t, k):
    return sum(1 for j in range(k) if t[j + 1] - t[j] >= 2)


# ------------------------------------------------------------------ parameters
def term_kinds(m):
    """term -> the kind of dimension it has along each subsampled dimension ('sa' = interpolation
    subarea dimension, 'tp' = tie point (subsampled) dimension)."""
    if m == "quadratic_latitude_longitude":
        return {"ce": ["sa"], "ca": ["sa"], "flags": ["sa"]}
    return {"ce1": ["tp", "sa"], "ca1": ["tp", "sa"], "ce2": ["sa", "tp"], "ca2": ["sa", "tp"],
            "ce3": ["sa", "sa"], "ca3": ["sa", "sa"], "flags": ["sa", "sa"]}


def term_sub_shape(p, term):
    return [len(t) if k == "tp" else n_subareas(t) for k, t in zip(term_kinds(p["m"])[term], p["t"])]


def param_full(p, term):
    """The parameter broadcast to canonical (extra..., per-subsampled-dimension) integers, or None."""
    q = p["params"].get(term)
    if q is None:
        return None
    vals = np.array(q["values"], dtype=int)
    extra = p["extra"]
    full = np.empty(list(extra) + term_sub_shape(p, term), dtype=int)
    for idx in itertools.product(*[range(e) for e in extra]):
        full[idx] = vals[tuple(idx[e] for e in q["span"])]
    return full


def param_stored(p, term):
    """(integer array as stored, parameter_dimensions)."""
    q = p["params"][term]
    vals = np.array(q["values"], dtype=int)
    nd = len(p["extra"]) + len(p["t"])
    others = [d for d in range(nd) if d not in p["pos"]]
    tp_dims = [others[e] for e in q["span"]] + list(p["pos"])
    order = q["order"]
    return np.transpose(vals, order), tuple(tp_dims[o] for o in order)


def gen_param(rng, p, term, lo, hi):
    extra = p["extra"]
    span = [e for e in range(len(extra)) if rng.random() < 0.5]
    shape = [extra[e] for e in span] + term_sub_shape(p, term)
    order = list(range(len(shape)))
    rng.shuffle(order)
    size = int(np.prod(shape)) if shape else 1
    vals = np.array([rng.randint(lo, hi) for _ in range(size)], dtype=int).reshape(shape)
    return dict(span=span, values=vals.tolist(), order=order)


def gen_t(rng, small=False):
    """Tie point indices; `small`: short subareas (two subsampled dimensions: every element of the model
    line costs a full evaluation of the method in the driver's fixed point arithmetic)."""
    n_areas = rng.choice([1, 1, 2])
    t, pos = [], 0
    for _ in range(n_areas):
        t.append(pos)
        for _ in range(rng.choice([2, 2, 2, 3] if small else [2, 2, 3]) - 1):
            pos += rng.choice([2, 2, 3] if small else [2, 3, 4, 5])
            t.append(pos)
        pos += 1
    return t, pos


def gen_q(rng):
    two = rng.random() < 0.45
    extra = [rng.randint(1, 3) for _ in range(rng.choice([0, 0, 1]))]
    p = dict(kind="q", extra=extra, recv=rng.choice(["array", "array", "data"]),
             which=rng.choice(["latitude", "longitude"]), precision=rng.choice(["64", None]),
             tp_dtype=rng.choice(["f8", "f8", "f4"]))
    if two:
        t0, n0 = gen_t(rng, small=True)
        t1, n1 = gen_t(rng, small=True)
        nd = len(extra) + 2
        p.update(m="bi_quadratic_latitude_longitude", t=[t0, t1], n=[n0, n1], pos=sorted(rng.sample(range(nd), 2)))
    else:
        t, nn = gen_t(rng)
        nd = len(extra) + 1
        p.update(m="quadratic_latitude_longitude", t=[t], n=[nn], pos=[rng.randrange(nd)])
    # smooth-ish tie points: a base point plus increments, in quarter degrees
    shape = extra + [len(t) for t in p["t"]]
    lat = np.empty(shape, dtype=int)
    lon = np.empty(shape, dtype=int)
    for e in itertools.product(*[range(x) for x in extra]):
        la0, lo0 = rng.randint(-200, 200), rng.randint(-500, 500)
        dla = [rng.randint(4, 40) * rng.choice([1, 1, -1]) for _ in p["t"]]
        dlo = [rng.randint(4, 60) * rng.choice([1, 1, -1]) for _ in p["t"]]
        for k in itertools.product(*[range(len(t)) for t in p["t"]]):
            jit = (rng.randint(-3, 3), rng.randint(-3, 3))
            lat[e + k] = la0 + sum(d * i for d, i in zip(dla, k)) + (k[-1] * dla[0] // 3 if two else 0) + jit[0]
            lon[e + k] = lo0 + sum(d * i for d, i in zip(dlo[::-1], k)) + jit[1]
    # keep the tie points where latitude/longitude -> vector -> latitude/longitude is the identity
    # (|latitude| <= 85 degrees, |longitude| <= 175 degrees): shift rows that leave the range
    for e in itertools.product(*[range(x) for x in extra]):
        for arr, lim in ((lat, 85 * LDEN), (lon, 175 * LDEN)):
            hi, lo = int(arr[e].max()), int(arr[e].min())
            if hi > lim:
                arr[e] -= hi - lim
            if int(arr[e].min()) < -lim:
                arr[e] += -lim - int(arr[e].min())
            assert arr[e].max() <= lim and arr[e].min() >= -lim
    p["lat"], p["lon"] = lat.tolist(), lon.tolist()
    p["params"] = {}
    for term in term_kinds(p["m"]):
        if term == "flags":
            continue
        if rng.random() < 0.8:
            p["params"][term] = gen_param(rng, p, term, -40, 40)
    p["params"]["flags"] = gen_param(rng, p, "flags", 0, 1)
    r = rng.random()
    if r < 0.25:
        # all Cartesian / all latitude-longitude
        v = rng.randint(0, 1)
        q = p["params"]["flags"]
        q["values"] = (np.array(q["values"], dtype=int) * 0 + v).tolist()
    p["flag_style"] = rng.choice(["masks", "values", "both"])
    p["flag_other_first"] = rng.random() < 0.5
    return p


# ------------------------------------------------------------------ cfdm arrays
def _actual(arr_canon, p):
    ne = len(p["extra"])
    src = list(range(ne, ne + len(p["pos"])))
    return np.moveaxis(arr_canon, src, p["pos"])


def canon(arr, p):
    ne = len(p["extra"])
    dst = list(range(ne, ne + len(p["pos"])))
    return np.moveaxis(arr, p["pos"], dst)


def ushape_of(p):
    shape = list(p["extra"])
    for d, n in zip(p["pos"], p["n"]):
        shape.insert(d, n)
    return shape


def build(C, p):
    """{'latitude': SubsampledArray, 'longitude': SubsampledArray}"""
    tpi = {d: C.TiePointIndex(data=C.Data(np.array(t, dtype="i4"))) for d, t in zip(p["pos"], p["t"])}
    params, pdims = {}, {}
    for term, q in p["params"].items():
        stored, dims = param_stored(p, term)
        if term == "flags":
            # bit 2 is an unrelated flag that must be ignored; bit 1 is location_use_3d_cartesian
            stored = stored * 2 + 4 * ((stored + np.arange(stored.size).reshape(stored.shape)) % 2)
            ip = C.InterpolationParameter(data=C.Data(stored.astype("i4")))
            style = p["flag_style"]
            rev = bool(p.get("flag_other_first"))
            ip.set_property("flag_meanings", "other_flag location_use_3d_cartesian" if rev
                            else "location_use_3d_cartesian other_flag")
            bits = np.array([4, 2] if rev else [2, 4], dtype="i4")
            if style in ("masks", "both"):
                ip.set_property("flag_masks", bits)
            if style == "both":
                ip.set_property("flag_values", bits)
            if style == "values":
                # flag_values alone: the parameter must equal the value, so no other bit
                ip = C.InterpolationParameter(data=C.Data((stored & 2).astype("i4")))
                ip.set_property("flag_meanings", "location_use_3d_cartesian")
                ip.set_property("flag_values", np.array([2], dtype="i4"))
            params["interpolation_subarea_flags"] = ip
            pdims["interpolation_subarea_flags"] = dims
        else:
            params[term] = C.InterpolationParameter(data=C.Data(stored.astype(float) / PDEN))
            pdims[term] = dims
    dt = p["tp_dtype"]
    lat = (_actual(np.array(p["lat"], dtype=int), p) / LDEN).astype(dt)
    lon = (_actual(np.array(p["lon"], dtype=int), p) / LDEN).astype(dt)
    nd = lat.ndim
    out = {}
    for name, mine, other, oname in (("latitude", lat, lon, "longitude"), ("longitude", lon, lat, "latitude")):
        kwargs = dict(interpolation_name=p["m"], tie_point_indices=tpi, parameters=params,
                      parameter_dimensions=pdims,
                      dependent_tie_points={oname: C.Data(other)},
                      dependent_tie_point_dimensions={oname: tuple(range(nd))})
        if p["precision"]:
            kwargs["computational_precision"] = p["precision"]
        out[name] = C.SubsampledArray(compressed_array=C.Data(mine), shape=tuple(ushape_of(p)), **kwargs)
    return out


# ------------------------------------------------------------------ the oracle's arrays
def expected(p):
    """{'latitude': float array, 'longitude': float array} in canonical order (None outside subareas)."""
    extra = p["extra"]
    # float32 tie points are what the implementation sees
    lat = (np.array(p["lat"], dtype=int) / LDEN).astype(p["tp_dtype"]).astype(float)
    lon = (np.array(p["lon"], dtype=int) / LDEN).astype(p["tp_dtype"]).astype(float)
    full = {term: param_full(p, term) for term in term_kinds(p["m"])}

    def par(term, idx):
        a = full[term]
        return None if a is None else float(a[idx]) / PDEN

    out_lat = np.full(list(extra) + list(p["n"]), np.nan)
    out_lon = np.full(list(extra) + list(p["n"]), np.nan)
    for e in itertools.product(*[range(x) for x in extra]):
        if len(p["t"]) == 1:
            t = p["t"][0]
            for i in range(p["n"][0]):
                try:
                    k, s = locate(t, i)
                except ValueError:
                    continue
                j = subarea_number(t, k)
                cart = bool(full["flags"][e + (j,)])
                r = qll_point((lat[e + (k,)], lon[e + (k,)]), (lat[e + (k + 1,)], lon[e + (k + 1,)]),
                              par("ce", e + (j,)), par("ca", e + (j,)), cart, s)
                out_lat[e + (i,)], out_lon[e + (i,)] = r
        else:
            t0, t1 = p["t"]
            for i2 in range(p["n"][0]):
                for i1 in range(p["n"][1]):
                    try:
                        k2, s2 = locate(t0, i2)
                        k1, s1 = locate(t1, i1)
                    except ValueError:
                        continue
                    j2, j1 = subarea_number(t0, k2), subarea_number(t1, k1)
                    ll = lambda a, b: (lat[e + (a, b)], lon[e + (a, b)])  # noqa: E731
                    cart = bool(full["flags"][e + (j2, j1)])
                    r = bqll_point(
                        ll(k2, k1), ll(k2, k1 + 1), ll(k2 + 1, k1), ll(k2 + 1, k1 + 1),
                        (par("ce1", e + (k2, j1)), par("ce1", e + (k2 + 1, j1))),
                        (par("ca1", e + (k2, j1)), par("ca1", e + (k2 + 1, j1))),
                        (par("ce2", e + (j2, k1)), par("ce2", e + (j2, k1 + 1))),
                        (par("ca2", e + (j2, k1)), par("ca2", e + (j2, k1 + 1))),
                        par("ce3", e + (j2, j1)), par("ca3", e + (j2, j1)), cart, s2, s1)
                    out_lat[e + (i2, i1)], out_lon[e + (i2, i1)] = r
    return {"latitude": out_lat, "longitude": out_lon}


# ------------------------------------------------------------------ the same coordinates as a netCDF file
def dim_names(p):
    """netCDF dimension names of the latitude tie point variable, in its own dimension order."""
    nd = len(p["extra"]) + len(p["t"])
    others = [d for d in range(nd) if d not in p["pos"]]
    names = [None] * nd
    for e, d in enumerate(others):
        names[d] = f"x{e}"
    for k, d in enumerate(p["pos"]):
        names[d] = f"tp{k}"
    return names


def param_dim_names(p, term):
    """netCDF dimension names of a parameter variable, in its stored dimension order."""
    q = p["params"][term]
    kinds = term_kinds(p["m"])[term]
    canon_names = [f"x{e}" for e in q["span"]] + [f"{kind}{k}" for k, kind in enumerate(kinds)]
    return [canon_names[o] for o in q["order"]]


def write_file(p, path):
    """latitude / longitude tie point variables (the longitude one possibly with its dimensions in another
    order), their interpolation variable and parameters, written with netCDF4 only."""
    import netCDF4

    ds = netCDF4.Dataset(path, "w")
    ds.Conventions = "CF-1.11"
    names = dim_names(p)
    for e, size in enumerate(p["extra"]):
        ds.createDimension(f"x{e}", size)
    mapping = []
    for k, (t, n) in enumerate(zip(p["t"], p["n"])):
        ds.createDimension(f"u{k}", n)
        ds.createDimension(f"tp{k}", len(t))
        ds.createDimension(f"sa{k}", n_subareas(t))
        v = ds.createVariable(f"idx{k}", "i4", (f"tp{k}",))
        v[...] = t
        mapping.append(f"u{k}: idx{k} tp{k} sa{k}")
    dt = p["tp_dtype"]
    lat = (_actual(np.array(p["lat"], dtype=int), p) / LDEN).astype(dt)
    lon = (_actual(np.array(p["lon"], dtype=int), p) / LDEN).astype(dt)
    vlat = ds.createVariable("lat", dt, tuple(names))
    vlat.standard_name = "latitude"
    vlat.units = "degrees_north"
    vlat[...] = lat
    perm = p.get("lon_perm") or list(range(len(names)))
    vlon = ds.createVariable("lon", dt, tuple(names[i] for i in perm))
    vlon.standard_name = "longitude"
    vlon.units = "degrees_east"
    vlon[...] = np.transpose(lon, perm)
    iv = ds.createVariable("interp", "i4", ())
    iv.interpolation_name = p["m"]
    if p["precision"]:
        iv.computational_precision = p["precision"]
    iv.tie_point_mapping = " ".join(mapping)
    ips = []
    for term in p["params"]:
        stored, _ = param_stored(p, term)
        pn = tuple(param_dim_names(p, term))
        if term == "flags":
            v = ds.createVariable("flagsv", "i4", pn)
            v.flag_meanings = "location_use_3d_cartesian"
            v.flag_masks = np.array([1], dtype="i4")
            v[...] = stored.astype("i4")
            ips.append("interpolation_subarea_flags: flagsv")
        else:
            v = ds.createVariable(term + "v", "f8", pn)
            v[...] = stored.astype(float) / PDEN
            ips.append(f"{term}: {term}v")
    iv.interpolation_parameters = " ".join(ips)
    u_names = [n.replace("tp", "u") for n in names]
    dv = ds.createVariable("q", "f4", tuple(u_names))
    dv.long_name = "q"
    dv.coordinate_interpolation = "lat: lon: interp"
    dv[...] = np.zeros([len(ds.dimensions[x]) for x in u_names], dtype="f4")
    ds.close()


def read_file(C, p, path):
    """{'latitude': array, 'longitude': array} in the latitude variable's dimension order."""
    fs = C.read(path)
    if len(fs) != 1:
        raise ValueError(f"{len(fs)} fields read")
    f = fs[0]
    want = [n.replace("tp", "u") for n in dim_names(p)]
    axes = f.domain_axes(todict=True)
    out = {}
    for name in ("latitude", "longitude"):
        key = f.construct_key(name)
        c = f.constructs[key]
        have = [axes[a].nc_get_dimension() for a in f.get_data_axes(key)]
        a = np.ma.asanyarray(c.array)
        out[name] = dict(array=np.transpose(a, [have.index(n) for n in want]), construct=c, dims=have,
                         dep=c.data.source().get_dependent_tie_point_dimensions())
    return out
