"""C07 — masking and unpacking of file data follow the netCDF conventions.

Streams
  C07.read   one netCDF variable written by hand with netCDF4; read through
             cfdm.read(mask=, unpack=, netcdf_backend=) as a whole or as a subspace,
             through Data.array or through the backend array (Data.source()).
             Compared with the Lean model (mask pattern, integer values, masked-vs-plain
             kind) and with netCDF4.Variable[...] (mask, values, dtype, kind).
  C07.apply  one field variable plus coordinate variables (optionally with bounds), each
             with its own attributes; cfdm.read(mask=False) followed by
             Field.apply_masking(inplace=) must reproduce the masked read for the field
             and every metadata construct, and leave the receiver alone when not in place.
             Compared with the Lean model and with netCDF4 as the independent masked read.
"""
import atexit
import json
import os
import shutil
import tempfile

import numpy as np

from .. import fw
from ..fw import Case

REQUIRED = [
    "C07_mask_iff",
    "C07_kind_iff",
    "C07_unpack_linear",
    "C07_subspace_commutes",
    "C07_mask_off",
    "C07_apply_masking_partial",
    "C07_field_apply_masking_partial",
]
BUDGET = {"quick": 2400, "thorough": 40000}
QUICK_JOBS = 8
RULE = (
    "1-d netCDF variables (4-9 elements) of dtype {i1,i2,i4,i8,u1,u2,u4,u8,f4,f8,S1,str} x random subsets of "
    "{_FillValue, missing_value (scalar/vector), valid_min, valid_max, valid_range (1,2,3 elements), scale_factor, "
    "add_offset, _Unsigned (true/True/false/TRUE)} x attribute values {same dtype, other dtype safely castable, type "
    "limits, default fill value, NaN, out of range, fractional, text} x data drawn from {attribute values and their "
    "neighbours, default fill value, NaN, type limits, zero, small numbers} x mask x unpack x backend {netCDF4, "
    "h5netcdf} x access {Data.array, Data[...] subspace, backend array subspace}; apply stream: field + 0-2 "
    "coordinate constructs (optionally with bounds) x inplace. non-trivial = at least one of the eight attributes "
    "present or a default fill value in the data; distinct = distinct (variable configuration, flags, index)"
)
ASSUMPTIONS = [
    "values are exact integers, NaN or 1-character strings; IEEE rounding, data type promotion and integer overflow in "
    "unpacking are not modelled (values that overflow or round are compared with netCDF4 only, like every dtype)",
    "files are written in the default fill mode (nc_inq_var_fill no_fill=0); byte variables created with fill mode "
    "off are outside the generated inputs",
    "vector-valued valid_min, valid_max, scale_factor, add_offset (length >= 2) are not generated: the reference "
    "library itself raises on them",
    "the variable is 1-d; N-d subspacing is property C03",
    "where the reference library itself cannot read a variable (netCDF4 1.7 under numpy 2 fails to build the masked "
    "array of some _Unsigned variables) the read stream is judged by the model alone, and the apply stream compares "
    "apply_masking with cfdm's own masked read",
    "the model is the code after the four proposed patches fixes/C07-*.patch; on the unpatched tree the four defects "
    "surface as known findings, never as agreement",
]

_cfdm = None


def cfdm():
    global _cfdm
    if _cfdm is None:
        import cfdm as m
        _cfdm = m
    return _cfdm


DTYPES = ["i1", "i2", "i4", "i8", "u1", "u2", "u4", "u8", "f4", "f8", "S1", "str"]
F_FILL = 9969209968386869046778552952102584320
DEFAULT_FILL = {
    "i1": -127, "i2": -32767, "i4": -2147483647, "i8": -9223372036854775806,
    "u1": 255, "u2": 65535, "u4": 4294967295, "u8": 18446744073709551614,
    "f4": F_FILL, "f8": F_FILL, "S1": "", "str": "",
}
MASK_ATTRS = ["_FillValue", "missing_value", "valid_min", "valid_max", "valid_range"]
ALL_ATTRS = MASK_ATTRS + ["scale_factor", "add_offset"]
KEY = {"_FillValue": "fv", "missing_value": "mv", "valid_min": "vmin", "valid_max": "vmax",
       "valid_range": "vr", "scale_factor": "sf", "add_offset": "ao"}


def pre():
    """The model's default fill table must be that of the installed reference library."""
    import netCDF4
    scratch()
    for k, v in DEFAULT_FILL.items():
        if k in ("S1", "str"):
            if netCDF4.default_fillvals["S1"] != "\x00":
                raise fw.HarnessError("netCDF4.default_fillvals['S1'] changed")
            continue
        if int(np.array(netCDF4.default_fillvals[k], k)) != v:
            raise fw.HarnessError(f"netCDF4.default_fillvals[{k}] differs from the model's table")


def is_str(dt):
    return dt in ("S1", "str")


def lim(dt):
    if dt[0] in "iu":
        ii = np.iinfo(dt)
        return int(ii.min), int(ii.max)
    return None


def fits(dt, z):
    """Exactly representable in dt (z: int, 'nan', str)."""
    if is_str(dt):
        return isinstance(z, str)
    if isinstance(z, str):
        return z == "nan" and dt[0] == "f"
    if isinstance(z, float):
        return False if dt[0] in "iu" else True
    if dt[0] in "iu":
        lo, hi = lim(dt)
        return lo <= z <= hi
    try:
        x = np.dtype(dt).type(z)
    except OverflowError:
        return False
    return bool(np.isfinite(x)) and int(x) == z


# ---------------------------------------------------------------- generators
def pool(rng, dt):
    if is_str(dt):
        return ["", "a", "b", "c", "z"]
    if dt[0] in "iu":
        lo, hi = lim(dt)
        p = [lo, lo + 1, hi, hi - 1, 0, 1, 5, 100, DEFAULT_FILL[dt], rng.randint(2, 60)]
        if dt[0] == "i":
            p += [-1, -2, -3, -100, DEFAULT_FILL["u" + dt[1]] - (1 << (8 * int(dt[1])))]
        return p
    return [-(1 << 24), 1 << 24, 0, 1, -1, 5, 100, -100, F_FILL, "nan", "nan", rng.randint(2, 60)]


def neighbours(dt, z):
    if not isinstance(z, int) or abs(z) > (1 << 62):
        return []
    return [w for w in (z - 1, z + 1) if fits(dt, w)]


def other_dtype(rng, dt, safe, value):
    """A different attribute dtype holding `value` exactly."""
    if dt[0] in "iu":
        cands = [d for d in ("i1", "i2", "i4", "i8", "u1", "u2", "u4", "u8", "f8") if d != dt]
    else:
        cands = [d for d in ("f4", "f8", "i4", "i2") if d != dt]
    rng.shuffle(cands)
    for d in cands:
        if fits(d, value) and not (d[0] == "f" and isinstance(value, int) and abs(value) > (1 << 24)):
            return d
    return dt


def gen_attr_scalar(rng, dt, p, allow_unsafe=True, allow_frac=True):
    """-> dict(dt=, v=[one value]) or dict(text=...)."""
    r = rng.random()
    if is_str(dt):
        return dict(text=rng.choice(["a", "b", "c"]))
    if allow_unsafe and r < 0.04:
        return dict(text="abc")
    if allow_unsafe and r < 0.12:
        if dt[0] in "iu":
            k = rng.random()
            lo, hi = lim(dt)
            if k < 0.45 and dt not in ("i8", "u8"):
                return dict(dt="i8", v=[rng.choice([hi + 1, hi + 45, lo - 1, lo - 300])])
            if k < 0.6 and dt[0] == "u":
                return dict(dt="i" + dt[1], v=[rng.choice([-1, -5])])
            if k < 0.8:
                return dict(dt="f8", v=["nan"])
            if allow_frac:
                return dict(dt="f8", v=[rng.choice([2.5, 0.5, -1.5])])
        # floats hold every modelled value: nothing numeric is unsafe
    v = rng.choice(p)
    if r > 0.8:
        d = other_dtype(rng, dt, True, v)
        return dict(dt=d, v=[v])
    return dict(dt=dt, v=[v])


def gen_var(rng, role="field", n=None, for_apply=False):
    """One variable configuration.  role: field | dim | aux | bounds."""
    if role == "dim":
        dt = rng.choice(["i2", "i4", "f4", "f8", "i8", "u2", "i1"])
    elif role == "bounds":
        dt = None
    else:
        dt = rng.choices(DTYPES, [8, 8, 6, 4, 6, 4, 4, 4, 8, 8, 2, 1])[0]
    return gen_var_dt(rng, dt, n, for_apply)


def gen_var_dt(rng, dt, n=None, for_apply=False):
    n = n or rng.randint(4, 9)
    p = pool(rng, dt)
    attrs = {}
    uns = None
    dense = rng.random() < 0.3
    pr = 0.55 if dense else 0.25
    if is_str(dt):
        if rng.random() < 0.5:
            attrs["missing_value"] = dict(text=rng.choice(["a", "b"]))
        if dt == "S1" and rng.random() < 0.4:
            attrs["_FillValue"] = dict(dt="S1", v=[rng.choice(["a", "c", "z"])])
        if rng.random() < 0.2:
            attrs["valid_min"] = dict(text="b")
        if rng.random() < 0.1:
            attrs["valid_max"] = dict(text="b")
    else:
        frac = not for_apply
        if rng.random() < pr:
            # _FillValue always has the variable's own type (the library enforces it)
            attrs["_FillValue"] = dict(dt=dt, v=[rng.choice(p)])
        if rng.random() < pr:
            a = gen_attr_scalar(rng, dt, p, allow_frac=frac)
            if "v" in a and rng.random() < 0.3:
                k = rng.randint(1, 2)
                a["v"] = a["v"] + [rng.choice(p) for _ in range(k)]
                if not all(fits(a["dt"], x) for x in a["v"]):
                    a["dt"] = dt if all(fits(dt, x) for x in a["v"]) else "f8"
            attrs["missing_value"] = a
        if rng.random() < pr:
            attrs["valid_min"] = gen_attr_scalar(rng, dt, p, allow_frac=frac)
        if rng.random() < pr:
            attrs["valid_max"] = gen_attr_scalar(rng, dt, p, allow_frac=frac)
        if rng.random() < pr:
            a = gen_attr_scalar(rng, dt, p, allow_frac=False)
            if "v" in a:
                k = rng.choices([2, 3, 1], [17, 2, 1])[0]
                vals = a["v"] + [rng.choice(p) for _ in range(k - 1)]
                if rng.random() < 0.7:
                    nums = sorted(x for x in vals if isinstance(x, int))
                    vals = nums + [x for x in vals if not isinstance(x, int)]
                a["v"] = vals
                if not all(fits(a["dt"], x) for x in vals):
                    a["dt"] = dt if all(fits(dt, x) for x in vals) else "f8"
            attrs["valid_range"] = a
        ps = 0.25 if not for_apply else 0.12
        small = [1, 0, 2, 3, -1, 10, 1, 0]
        if rng.random() < ps:
            r = rng.random()
            if r < 0.02:
                attrs["scale_factor"] = dict(text="abc")
            else:
                v = rng.choice(small)
                sdt = rng.choice([dt, dt, "f8", "f4"])
                attrs["scale_factor"] = dict(dt=sdt if fits(sdt, v) else "f8", v=[v])
        if rng.random() < ps:
            r = rng.random()
            if r < 0.02:
                attrs["add_offset"] = dict(text="abc")
            else:
                v = rng.choice(small)
                sdt = rng.choice([dt, dt, "f8", "f4"])
                attrs["add_offset"] = dict(dt=sdt if fits(sdt, v) else "f8", v=[v])
        if rng.random() < (0.3 if dt[0] == "i" else 0.08):
            uns = rng.choice(["true", "true", "True", "false", "TRUE"])
    for k, a in list(attrs.items()):
        if "v" in a and not all(fits(a["dt"], x) for x in a["v"]):
            for d in (dt, "f8", "i8", "u8"):
                if all(fits(d, x) for x in a["v"]):
                    a["dt"] = d
                    break
            else:
                # no single type holds all the values exactly: keep those the f8 type holds
                a["dt"] = "f8"
                a["v"] = [x for x in a["v"] if fits("f8", x)] or [0]
    # data: attribute values, their neighbours, the default fill, the pool
    hot = []
    for k in MASK_ATTRS:
        a = attrs.get(k)
        if a and "v" in a:
            for x in a["v"]:
                if fits(dt, x):
                    hot.append(x)
                    hot += neighbours(dt, x)
                    if dt[0] == "i" and isinstance(x, int) and x < 0:
                        pass
    hot.append(DEFAULT_FILL[dt])
    if is_str(dt):
        hot += ["a", "b", ""]
    data = []
    for _ in range(n):
        r = rng.random()
        if hot and r < 0.55:
            data.append(rng.choice(hot))
        else:
            data.append(rng.choice(p))
    return dict(dt=dt, data=data, attrs=attrs, uns=uns)



# ---------------------------------------------------------------- predicates on a variable configuration
def uns_true(var):
    return var["uns"] in ("true", "True")


def attr_unsafe(var, k):
    """Present but not safely castable to the variable's type (the read ignores it)."""
    a = var["attrs"].get(k)
    if a is None:
        return False
    if "text" in a:
        return True  # text on numbers; a str-typed attribute on character data
    return not all(fits(var["dt"], x) for x in a["v"])


def has_unsafe(var):
    return any(attr_unsafe(var, k) for k in MASK_ATTRS)


def vector_mv(var):
    a = var["attrs"].get("missing_value")
    return a is not None and "v" in a and len(a["v"]) > 1


def range_conflict(var):
    a = var["attrs"].get("valid_range")
    if a is None:
        return False
    if "valid_min" in var["attrs"] or "valid_max" in var["attrs"]:
        return True
    return "v" in a and len(a["v"]) != 2


def str_valid(var):
    return is_str(var["dt"]) and any(k in var["attrs"] for k in ("valid_min", "valid_max", "valid_range"))


def transformed(var, unpack):
    """The read with unpack=True changes the stored values' representation."""
    if not unpack:
        return False
    if uns_true(var) and var["dt"][0] in "if":
        return True
    return any(k in var["attrs"] and "v" in var["attrs"][k] for k in ("scale_factor", "add_offset"))


def nan_fill(var):
    return any("v" in var["attrs"].get(k, {}) and "nan" in var["attrs"][k]["v"] for k in ("_FillValue", "missing_value"))


def text_scale(var):
    return any("text" in var["attrs"].get(k, {}) for k in ("scale_factor", "add_offset"))


def trivial_single(var):
    """Exactly one of scale_factor/add_offset, numeric and neutral (1 / 0)."""
    sf, ao = var["attrs"].get("scale_factor"), var["attrs"].get("add_offset")
    if (sf is None) == (ao is None):
        return False
    if sf is not None:
        return "v" in sf and sf["v"][0] == 1
    return "v" in ao and ao["v"][0] == 0


def inherits(b, c):
    """apply_masking gives the bounds a property of the parent that the read never applies."""
    return any(k in c["attrs"] and k not in b["attrs"] for k in ("missing_value", "valid_min", "valid_max", "valid_range"))


def apply_ok(var, unpack):
    """The Lean predicate ApplyOK, restated."""
    return not (has_unsafe(var) or vector_mv(var) or range_conflict(var) or str_valid(var) or transformed(var, unpack))


def sanitise(var, unpack):
    """Drop whatever takes the variable outside ApplyOK (keeps NaN fills, default fills, limits)."""
    var = dict(var, attrs=dict(var["attrs"]))
    A = var["attrs"]
    for k in MASK_ATTRS:
        if attr_unsafe(var, k):
            del A[k]
    if vector_mv(var):
        A["missing_value"] = dict(A["missing_value"], v=A["missing_value"]["v"][:1])
    if "valid_range" in A:
        if "v" in A["valid_range"] and len(A["valid_range"]["v"]) != 2:
            del A["valid_range"]
        else:
            A.pop("valid_min", None)
            A.pop("valid_max", None)
    if is_str(var["dt"]):
        for k in ("valid_min", "valid_max", "valid_range"):
            A.pop(k, None)
    if unpack:
        A.pop("scale_factor", None)
        A.pop("add_offset", None)
        if uns_true(var):
            var["uns"] = None
    return var


def unpack_exact(var):
    """Does numpy's unpacking arithmetic give the exact integers for every datum?"""
    dt = var["dt"]
    sf, ao = var["attrs"].get("scale_factor"), var["attrs"].get("add_offset")
    nums = [a for a in (sf, ao) if a is not None and "v" in a]
    if not nums or is_str(dt):
        return True
    if any("text" in a for a in (sf, ao) if a is not None):
        return True
    s = sf["v"][0] if sf is not None else 1
    o = ao["v"][0] if ao is not None else 0
    arr = np_values(dt, var["data"])
    if uns_true(var) and dt[0] == "i":
        arr = arr.view("u" + dt[1])
    with np.errstate(all="ignore"):
        if s == 1 and o == 0:
            # the neutral short cut: a cast to the attribute's type
            r = arr.astype(np.array(attr_value(sf if sf is not None else ao)).dtype)
        else:
            r = arr
            if sf is not None:
                r = r * np.array(attr_value(sf))
            if ao is not None:
                r = r + np.array(attr_value(ao))
    for x, y in zip(arr.tolist(), r.tolist()):
        if isinstance(x, float) and np.isnan(x):
            continue
        if isinstance(y, float) and not np.isfinite(y):
            return False
        if int(x) * s + o != int(y) or (isinstance(y, float) and not float(y).is_integer()):
            return False
    return True


def gen_index(rng, n):
    r = rng.random()
    if r < 0.35:
        return None
    if r < 0.7:
        a = rng.randint(0, n - 1)
        b = rng.randint(a + 1, n)
        return dict(s=[a, b, rng.choice([1, 1, 2, 3])])
    k = rng.randint(1, n)
    return dict(l=sorted(rng.sample(range(n), k)))


def positions(ix, n):
    if ix is None:
        return list(range(n))
    if "s" in ix:
        return list(range(n))[slice(*ix["s"])]
    return list(ix["l"])


def gen(rng, tier, n):
    n_apply = max(8, int(n * 0.22))
    n_read = n - n_apply
    made = 0
    while made < n_read:
        var = gen_var(rng)
        combos = [(m, u, b) for m in (True, False) for u in (True, False) for b in ("netCDF4", "h5netcdf")]
        rng.shuffle(combos)
        k = 8 if tier == "thorough" else rng.randint(3, 6)
        for m, u, b in combos[:k]:
            ix = gen_index(rng, len(var["data"]))
            route = rng.choices(["data", "source"], [3, 2])[0]
            if vector_mv(var) or (not is_str(var["dt"]) and "text" in var["attrs"].get("missing_value", {})):
                # Data.array cannot use such a missing_value as its fill value (known finding):
                # look at the mask mostly through the backend array
                route = rng.choices(["data", "source"], [1, 6])[0]
            yield mk_read(dict(var=var, mask=m, unpack=u, backend=b, ix=ix, route=route))
            made += 1
    for _ in range(n_apply):
        nn = rng.randint(3, 6)
        unpack = rng.random() < 0.4
        clean = rng.random() < 0.55  # inside the hypotheses of C07_apply_masking_partial

        def fin(v):
            if not unpack_exact(v):
                v = dict(v, attrs={k: a for k, a in v["attrs"].items() if k not in ("scale_factor", "add_offset")})
            return sanitise(v, unpack) if clean else v
        f = fin(gen_var(rng, "field", nn, for_apply=True))
        cons = []
        if rng.random() < 0.7:
            c = fin(gen_var(rng, "dim", nn, for_apply=True))
            b = None
            if rng.random() < 0.6:
                b = gen_var_dt(rng, c["dt"], 2 * nn, for_apply=True)
                if rng.random() < 0.6:
                    b["attrs"] = {}
                    b["uns"] = None
                b = fin(b)
                if clean and inherits(b, c):
                    b["attrs"].update({k: c["attrs"][k] for k in ("missing_value", "valid_min", "valid_max", "valid_range")
                                       if k in c["attrs"] and k not in b["attrs"]})
                    b = fin(b)
            cons.append(dict(name="x", main=c, bounds=b))
        if rng.random() < 0.6:
            c = fin(gen_var(rng, "aux", nn, for_apply=True))
            b = None
            if not is_str(c["dt"]) and rng.random() < 0.3:
                b = gen_var_dt(rng, c["dt"], 2 * nn, for_apply=True)
                if rng.random() < 0.5:
                    b["attrs"] = {}
                    b["uns"] = None
                b = fin(b)
                if clean and inherits(b, c):
                    b["attrs"].update({k: c["attrs"][k] for k in ("missing_value", "valid_min", "valid_max", "valid_range")
                                       if k in c["attrs"] and k not in b["attrs"]})
                    b = fin(b)
            cons.append(dict(name="a", main=c, bounds=b))
        yield mk_apply(dict(field=f, cons=cons, unpack=unpack, inplace=rng.random() < 0.5,
                            backend=rng.choice(["netCDF4", "h5netcdf"])))


# ---------------------------------------------------------------- protocol lines
def enc_v(dt, x):
    if isinstance(x, str):
        if x == "nan":
            return "nan"
        return str(ord(x)) if x else "0"
    return str(x)


def enc_attr(dt, a, for_apply=False):
    """Protocol form of an attribute, or None if the model cannot express it."""
    if a is None:
        return "-"
    if "text" in a:
        return "t"
    if any(isinstance(x, float) for x in a["v"]):
        # fractional: never safely castable to an integer type -> ignored by the read like text
        return None if for_apply else "t"
    return "[" + ",".join(enc_v(dt, x) for x in a["v"]) + "]"


def enc_var(var, for_apply=False, sep=" "):
    dt = var["dt"]
    parts = [("dt", dt), ("data", "[" + ",".join(enc_v(dt, x) for x in var["data"]) + "]")]
    for k in ALL_ATTRS:
        a = var["attrs"].get(k)
        if is_str(dt) and a is not None and "v" in a and k != "_FillValue":
            return None
        if for_apply and is_str(dt) and a is not None and k in ("valid_min", "valid_max", "valid_range"):
            # numpy orders strings, the model's text attribute has no content: oracle only
            return None
        e = enc_attr(dt, a, for_apply)
        if e is None:
            return None
        parts.append((KEY[k], e))
    parts.append(("uns", var["uns"] or "-"))
    if sep == " ":
        return " ".join(f"{k}={v}" for k, v in parts)
    return ";".join(v for _, v in parts)


def var_tags(var, prefix=""):
    t = [f"{prefix}dt:{var['dt']}"]
    for k in ALL_ATTRS:
        a = var["attrs"].get(k)
        if a is None:
            continue
        kind = "text" if "text" in a else ("vector" if len(a["v"]) > 1 else "scalar")
        if "v" in a:
            if any(x == "nan" for x in a["v"]):
                kind += "-nan"
            if not all(fits(var["dt"], x) for x in a["v"]):
                kind += "-unsafe"
        t.append(f"{prefix}{KEY[k]}:{kind}")
    if var["uns"]:
        t.append(f"{prefix}uns:{var['uns']}")
    return t


def nontrivial_var(var):
    return bool(var["attrs"]) or bool(var["uns"]) or DEFAULT_FILL[var["dt"]] in var["data"]


def mk_read(p):
    var = p["var"]
    n = len(var["data"])
    pos = positions(p["ix"], n)
    ev = enc_var(var)
    line = None
    if ev is not None:
        line = (f"C07.read {ev} mask={int(p['mask'])} unpack={int(p['unpack'])} "
                f"ix=[{','.join(map(str, pos))}]")
    tags = var_tags(var) + [f"mask:{int(p['mask'])}", f"unpack:{int(p['unpack'])}", "be:" + p["backend"],
                            "route:" + p["route"], "ix:" + ("full" if p["ix"] is None else next(iter(p["ix"])))]
    return Case("C07.read", p, line, nontrivial=nontrivial_var(var), tags=tags)


def mk_apply(p):
    f = enc_var(p["field"], True, ";")
    cs = []
    ok = f is not None
    for c in p["cons"]:
        m = enc_var(c["main"], True, ";")
        b = "-" if c["bounds"] is None else enc_var(c["bounds"], True, ";")
        if m is None or b is None:
            ok = False
        if c["bounds"] is not None and (vector_mv(c["bounds"]) or vector_mv(c["main"])):
            # numpy broadcasts a vector fill value against the trailing (vertex) axis of 2-d
            # bounds; the model's arrays are flat, so this (excluded) corner is oracle only
            ok = False
        cs.append(f"{m}/{b}")
    line = None
    if ok:
        line = f"C07.apply f={f} c={'|'.join(cs)} unpack={int(p['unpack'])} inplace={int(p['inplace'])}"
    tags = ["apply:field"] + var_tags(p["field"], "ap-") + [f"apply:ncons={len(p['cons'])}", f"apply:inplace={int(p['inplace'])}",
                                                          f"apply:unpack={int(p['unpack'])}"]
    for c in p["cons"]:
        tags += var_tags(c["main"], "ap-")
        if c["bounds"] is not None:
            tags.append("apply:bounds")
    allv = apply_vars(p)
    tags.append("apply:in-hypotheses" if all(apply_ok(v, p["unpack"]) for _, v in allv) and not any(
        c["bounds"] is not None and inherits(c["bounds"], c["main"]) for c in p["cons"]) else "apply:outside-hypotheses")
    nt = nontrivial_var(p["field"]) or any(nontrivial_var(c["main"]) for c in p["cons"])
    return Case("C07.apply", p, line, nontrivial=nt, tags=tags)


def apply_vars(p):
    out = [("field", p["field"])]
    for c in p["cons"]:
        out.append(("con", c["main"]))
        if c["bounds"] is not None:
            out.append(("bounds", c["bounds"]))
    return out


def from_payload(stream, payload):
    return {"C07.read": mk_read, "C07.apply": mk_apply}[stream](payload)


# ---------------------------------------------------------------- files
_scratch = None
_scratch_pid = None
_files = {}


def scratch():
    """Scratch directory: one for the main process (removed at exit); a forked worker uses
    its own sub-directory and its own file cache (it must not evict the parent's files)."""
    global _scratch, _scratch_pid
    pid = os.getpid()
    if _scratch is None:
        _scratch = tempfile.mkdtemp(prefix="verif_c07_")
        _scratch_pid = pid
        atexit.register(shutil.rmtree, _scratch, True)
    elif _scratch_pid != pid:
        _scratch = os.path.join(_scratch, f"w{pid}")
        os.makedirs(_scratch, exist_ok=True)
        _scratch_pid = pid
        _files.clear()
    return _scratch


def np_values(dt, xs):
    if is_str(dt):
        return list(xs)
    out = np.empty(len(xs), dtype=dt)
    for i, x in enumerate(xs):
        out[i] = np.nan if x == "nan" else x
    return out


def attr_value(a):
    if "text" in a:
        return a["text"]
    if a["dt"] == "S1":
        return np.array(a["v"][0].encode(), dtype="S1")
    arr = np_values(a["dt"], a["v"])
    return arr[0] if len(arr) == 1 else arr


def write_var(ds, name, var, dims, extra=None):
    dt = var["dt"]
    kw = {}
    fv = var["attrs"].get("_FillValue")
    if fv is not None:
        kw["fill_value"] = fv["v"][0].encode() if dt == "S1" else np_values(dt, fv["v"])[0]
    if dt == "S1":
        if "strlen1" not in ds.dimensions:
            ds.createDimension("strlen1", 1)
        v = ds.createVariable(name, "S1", tuple(dims) + ("strlen1",), **kw)
    elif dt == "str":
        v = ds.createVariable(name, str, tuple(dims))
    else:
        v = ds.createVariable(name, dt, tuple(dims), **kw)
    v.set_auto_maskandscale(False)
    for k in ALL_ATTRS:
        a = var["attrs"].get(k)
        if a is not None and k != "_FillValue":
            v.setncattr(k, attr_value(a))
    if var["uns"]:
        v.setncattr("_Unsigned", var["uns"])
    for k, x in (extra or {}).items():
        v.setncattr(k, x)
    shape = tuple(len(ds.dimensions[d]) for d in dims)
    if dt == "str":
        arr = np.array(var["data"], dtype=object).reshape(shape)
        v[...] = arr
    elif dt == "S1":
        v[...] = np.array([x.encode() for x in var["data"]], dtype="S1").reshape(shape + (1,))
    else:
        v[...] = np_values(dt, var["data"]).reshape(shape)
    return v


def file_for(key, writer):
    """Cache of written files (a handful are kept, older ones are deleted)."""
    scratch()
    if key in _files and os.path.exists(_files[key]):
        return _files[key]
    if len(_files) > 6:
        for k in list(_files)[:3]:
            try:
                os.remove(_files.pop(k))
            except OSError:
                pass
    import netCDF4
    path = os.path.join(scratch(), f"f{os.getpid()}_{abs(hash(key)) % (1 << 40)}.nc")
    ds = netCDF4.Dataset(path, "w")
    try:
        writer(ds)
    finally:
        ds.close()
    _files[key] = path
    return path


def read_file(p):
    var = p["var"]
    key = "r" + json.dumps(var, sort_keys=True)

    def w(ds):
        ds.createDimension("x", len(var["data"]))
        write_var(ds, "v", var, ("x",), dict(long_name="v"))
    return file_for(key, w)


def apply_file(p):
    key = "a" + json.dumps([p["field"], p["cons"]], sort_keys=True)

    def w(ds):
        n = len(p["field"]["data"])
        ds.createDimension("x", n)
        ds.createDimension("bnds", 2)
        aux = [c["name"] for c in p["cons"] if c["name"] != "x"]
        extra = dict(long_name="v")
        if aux:
            extra["coordinates"] = " ".join(aux)
        for c in p["cons"]:
            ex = dict(long_name=c["name"] + "_coord")
            if c["bounds"] is not None:
                ex["bounds"] = c["name"] + "_bnds"
                write_var(ds, c["name"] + "_bnds", c["bounds"], ("x", "bnds"))
            write_var(ds, c["name"], c["main"], ("x",), ex)
        write_var(ds, "v", p["field"], ("x",), extra)
    return file_for(key, w)


# ---------------------------------------------------------------- canonical form
def canon_elem(x, m):
    if m:
        return "--"
    if isinstance(x, (bytes, np.bytes_)):
        x = x.decode()
    if isinstance(x, (str, np.str_)):
        x = str(x)
        if len(x) > 1:
            return "s:" + x
        return str(ord(x)) if x else "0"
    if isinstance(x, (float, np.floating)):
        if np.isnan(x):
            return "nan"
        if np.isinf(x):
            return "inf" if x > 0 else "-inf"
        return str(int(x)) if float(x).is_integer() else "x" + repr(float(x))
    return str(int(x))


def canon_array(a):
    a = np.ma.asanyarray(a)
    m = np.ma.getmaskarray(a).flatten().tolist()
    d = np.ma.getdata(a).flatten().tolist() if a.dtype.kind in "OSU" else list(np.ma.getdata(a).flatten())
    return "[" + ",".join(canon_elem(x, mm) for x, mm in zip(d, m)) + "]"


def py_index(ix):
    if ix is None:
        return slice(None)
    if "s" in ix:
        return slice(*ix["s"])
    return list(ix["l"])


# ---------------------------------------------------------------- implementation
def close_leaked():
    """cfdm.read leaves its datasets open when it raises; opening the same file again
    with such a handle still alive has crashed the netCDF-C library here, so close them."""
    import gc
    import netCDF4
    gc.collect()
    for o in gc.get_objects():
        try:
            if isinstance(o, netCDF4.Dataset) and o.isopen():
                o.close()
        except Exception:
            pass
    try:
        import h5py
        for o in gc.get_objects():
            try:
                if isinstance(o, h5py.File) and o.id.valid:
                    o.close()
            except Exception:
                pass
    except ImportError:
        pass


def impl(c):
    C = cfdm()
    p = c.payload
    if c.stream == "C07.read":
        path = read_file(p)
        try:
            fs = C.read(path, mask=p["mask"], unpack=p["unpack"], netcdf_backend=p["backend"])
            f = [g for g in fs if g.nc_get_variable() == "v"][0]
            if p["route"] == "data":
                a = f.data.array if p["ix"] is None else f.data[py_index(p["ix"])].array
            else:
                a = f.data.source()[(py_index(p["ix"]),)]
        except Exception as e:
            c.extra = dict(exc=repr(e)[:300])
            out = "raised:" + fw.exc_enum(e)
            e = None
            close_leaked()
            return out
        kind = "ma" if np.ma.isMA(a) else "nd"
        c.extra = dict(dtype=str(a.dtype), mask=np.ma.getmaskarray(a).astype(int).flatten().tolist(), arr=a)
        return f"kind={kind} vals={canon_array(a)}"
    if c.stream == "C07.apply":
        path = apply_file(p)
        c.extra = {}
        try:
            # cfdm's own masked read: what apply_masking has to reproduce (the oracle uses it
            # only where the reference library cannot read the file)
            m = [g for g in C.read(path, mask=True, unpack=p["unpack"], netcdf_backend=p["backend"])
                 if g.nc_get_variable() == "v"][0]
            c.extra["masked"] = state(m, p)
        except Exception as e:
            e = None
            close_leaked()
        try:
            r = [g for g in C.read(path, mask=False, unpack=p["unpack"], netcdf_backend=p["backend"])
                 if g.nc_get_variable() == "v"][0]
            c.extra["raw"] = state(r, p)
        except Exception as e:
            c.extra.update(exc=repr(e)[:300], where="read")
            out = "raised:" + fw.exc_enum(e)
            e = None
            close_leaked()
            return out
        try:
            if p["inplace"]:
                r.apply_masking(inplace=True)
                g = r
            else:
                g = r.apply_masking()
            out = f"recv={state(r, p)} res={state(g, p)}"
        except Exception as e:
            c.extra.update(exc=repr(e)[:300], where="apply")
            out = "raised:" + fw.exc_enum(e)
            e = None
            close_leaked()
            return out
        return out
    raise fw.HarnessError("unknown stream " + c.stream)


def construct_by_ncvar(f, name):
    for k, con in f.constructs.filter_by_data(todict=True).items():
        if con.nc_get_variable(None) == name:
            return con
    raise fw.HarnessError(f"construct for netCDF variable {name} not found")


def raw_array(x):
    """The data of a construct without the Data-level fill-value decoration."""
    return x.get_data(_fill_value=False).array


def state(f, p):
    parts = [canon_array(raw_array(f))]
    for c in p["cons"]:
        con = construct_by_ncvar(f, c["name"])
        s = canon_array(raw_array(con))
        s += "/" + (canon_array(raw_array(con.bounds)) if c["bounds"] is not None else "-")
        parts.append(s)
    return "|".join(parts)


# ---------------------------------------------------------------- agreement with the model
def _vals(s):
    return s[s.index("vals=[") + 6:-1].split(",") if "vals=[" in s else None


def agree(c):
    if c.impl_out == c.model_out:
        return True
    if c.stream == "C07.read" and c.impl_out.startswith("kind=") and c.model_out.startswith("kind="):
        # integer overflow / rounding in numpy's unpacking arithmetic is outside the model
        # (exact integers): where it occurs for this variable only the kind and the mask
        # pattern are compared, the values are left to the netCDF4 oracle
        p = c.payload
        if not (p["unpack"] and not unpack_exact(p["var"])):
            return False
        iv, mv = _vals(c.impl_out), _vals(c.model_out)
        if c.impl_out.split(" ")[0] != c.model_out.split(" ")[0] or len(iv) != len(mv):
            return False
        return all((a == "--") == (b == "--") for a, b in zip(iv, mv))
    return False


# ---------------------------------------------------------------- oracle (netCDF4 only)
def ref_read(path, name, mask, scale, index=None, strdt=None):
    import netCDF4
    ds = netCDF4.Dataset(path)
    try:
        v = ds.variables[name]
        v.set_auto_mask(bool(mask))
        v.set_auto_scale(bool(scale))
        v.set_always_mask(False)
        a = v[...] if index is None else v[index]
        if v.dtype == "S1" and a.ndim >= 1 and v.dimensions[-1] == "strlen1":
            m = np.ma.getmaskarray(a).any(axis=-1)
            d = np.array([b"".join(row).decode() for row in np.ma.getdata(a).reshape(-1, a.shape[-1])],
                         dtype="U1").reshape(a.shape[:-1])
            a = np.ma.array(d, mask=m) if np.ma.isMA(a) else d
        return a
    finally:
        ds.close()


def same_values(a, b):
    """Unmasked elements identical (NaN equals NaN), masks identical."""
    a = np.ma.asanyarray(a)
    b = np.ma.asanyarray(b)
    if a.shape != b.shape:
        return f"shape {a.shape} != {b.shape}"
    ma, mb = np.ma.getmaskarray(a), np.ma.getmaskarray(b)
    if (ma != mb).any():
        return f"mask {ma.astype(int).tolist()} != reference {mb.astype(int).tolist()}"
    da, db = np.ma.getdata(a), np.ma.getdata(b)
    for x, y, m in zip(da.flatten().tolist(), db.flatten().tolist(), ma.flatten().tolist()):
        if m:
            continue
        if isinstance(x, bytes):
            x = x.decode()
        if isinstance(y, bytes):
            y = y.decode()
        if isinstance(x, float) and isinstance(y, float) and np.isnan(x) and np.isnan(y):
            continue
        if x != y:
            return f"value {x!r} != reference {y!r}"
    return None


def oracle(c):
    p = c.payload
    if c.stream == "C07.read":
        path = read_file(p)
        idx = None if p["ix"] is None else (py_index(p["ix"]),)
        try:
            ref = ref_read(path, "v", p["mask"], p["unpack"], idx)
        except Exception as e:
            # the reference library itself cannot read this configuration (e.g. netCDF4 1.7
            # under numpy 2 fails to build the masked array of an _Unsigned variable): it
            # prescribes nothing, the comparison with the model is all there is - except that
            # an exception out of cfdm is still not a read
            if c.impl_out.startswith("raised:"):
                return (f"cfdm {c.impl_out} ({(c.extra or {}).get('exc')}); the reference library fails on this "
                        f"variable too ({repr(e)[:80]}), the model prescribes {c.model_out}")
            return None
        if c.impl_out.startswith("raised:"):
            return f"cfdm {c.impl_out} ({(c.extra or {}).get('exc') if isinstance(c.extra, dict) else ''}); reference reads {canon_array(ref)}"
        a = c.extra["arr"]
        d = same_values(a, ref)
        if d:
            return d
        rk = "ma" if np.ma.isMA(ref) else "nd"
        ik = "ma" if np.ma.isMA(a) else "nd"
        if rk != ik:
            return f"result kind {ik} != reference {rk}"
        rd, idt = ref.dtype, a.dtype
        if p["var"]["dt"] in ("S1", "str"):
            if idt.kind != "U":
                return f"dtype {idt} is not a unicode string type"
        elif rd != idt:
            return f"dtype {idt} != reference {rd}"
        return None
    if c.stream == "C07.apply":
        path = apply_file(p)
        names = [("v", p["field"])]
        for con in p["cons"]:
            names.append((con["name"], con["main"]))
            if con["bounds"] is not None:
                names.append((con["name"] + "_bnds", con["bounds"]))
        def st(arrs):
            it = iter(arrs)
            parts = [next(it)]
            for con in p["cons"]:
                s = next(it)
                s += "/" + (next(it) if con["bounds"] is not None else "-")
                parts.append(s)
            return "|".join(parts)
        try:
            want_res = st([canon_array(ref_read(path, nm, True, p["unpack"])) for nm, _ in names])
            want_raw = st([canon_array(ref_read(path, nm, False, p["unpack"])) for nm, _ in names])
        except Exception:
            # the reference cannot read this file: the masked read to reproduce is cfdm's own
            want_res = c.extra.get("masked")
            want_raw = c.extra.get("raw")
            if c.impl_out.startswith("raised:"):
                return (f"cfdm {c.impl_out} in {c.extra.get('where')} ({c.extra.get('exc')}); the reference library "
                        f"cannot read this file, cfdm's own masked read is {want_res}")
            if want_res is None or want_raw is None:
                return None
        want_recv = want_res if p["inplace"] else want_raw
        if c.impl_out.startswith("raised:"):
            return f"cfdm {c.impl_out} in {c.extra.get('where')} ({c.extra.get('exc')}); masked read is {want_res}"
        got_recv, got_res = c.impl_out.split(" ")
        got_recv, got_res = got_recv[5:], got_res[4:]
        if not p["inplace"] and p["cons"] and got_res != want_res:
            wm, wr = want_res.split("|"), want_raw.split("|")
            if got_res == "|".join(wm[:1] + wr[1:]) and got_recv == "|".join(wr[:1] + wm[1:]):
                return (f"copy-swap: the returned copy has the masked field data but unmasked constructs {got_res}; "
                        f"the receiver's constructs were masked instead {got_recv}")
        if got_res != want_res:
            return f"apply_masking gives {got_res}, the masked read is {want_res}"
        if got_recv != want_recv:
            return f"receiver afterwards {got_recv}, expected {want_recv}"
        return None
    return None


# ---------------------------------------------------------------- findings
def classify(c):
    """Signature of a known finding, from the failing input (and, where the input alone
    would be too broad, the kind of failure).  Failures that no known finding explains are
    grouped by stream and kind of failure (`unexplained:…`, never listed as known)."""
    sig = classify_known(c)
    if sig:
        return sig
    why = str(c.oracle_fail or "")
    kind = "raised" if str(c.impl_out).startswith("raised:") else (why.split(" ")[0].rstrip(":") or "model")
    return f"unexplained:{c.stream}:{kind}"


def classify_known(c):
    p = c.payload
    out = str(c.impl_out)
    raised = out.startswith("raised:")
    why = str(c.oracle_fail or "")
    if c.stream == "C07.read":
        var = p["var"]
        dt, A = var["dt"], var["attrs"]
        sel = [var["data"][i] for i in positions(p["ix"], len(var["data"]))]
        mv = A.get("missing_value")
        if raised:
            if dt == "str" and not p["mask"] and out in ("raised:AttributeError", "raised:KeyError"):
                return "read-mask-false-string-variable-raises"
            if text_scale(var) and out == "raised:TypeError":
                return "read-text-scale-factor-or-add-offset-raises"
            if p["route"] == "data" and mv is not None and (vector_mv(var) or ("text" in mv and not is_str(dt))) \
                    and out in ("raised:ValueError", "raised:TypeError"):
                return "data-array-raises-missing-value-unusable-as-fill-value"
            return None
        if uns_true(var) and p["unpack"] and dt[0] == "f":
            return "unsigned-view-of-non-integer-data"
        if p["unpack"] and trivial_single(var) and (why.startswith("dtype") or why.startswith("value")):
            return "unpack-neutral-single-scale-or-offset-casts-to-attribute-dtype"
        if why.startswith("mask"):
            if is_str(dt) and p["backend"] == "h5netcdf" and p["mask"] and mv is not None and "text" in mv \
                    and mv["text"] in sel:
                return "h5netcdf-string-missing-value-applied"
            if dt == "str" and p["mask"] and "" in sel:
                return "vlen-string-empty-string-masked"
            if uns_true(var) and p["unpack"] and p["mask"] and dt[0] == "i" and "_FillValue" not in A \
                    and DEFAULT_FILL[dt] in sel:
                return "unsigned-view-default-fill-value-reinterpreted"
        return None
    if c.stream == "C07.apply":
        allv = apply_vars(p)
        if raised and "in read" in why:
            if any(v["dt"] == "str" for _, v in allv) and out in ("raised:AttributeError", "raised:KeyError"):
                return "read-mask-false-string-variable-raises"
            if any(text_scale(v) for _, v in allv) and out == "raised:TypeError":
                return "read-text-scale-factor-or-add-offset-raises"
            return None
        if any(has_unsafe(v) or str_valid(v) for _, v in allv):
            return "apply-masking-attribute-not-safely-castable"
        if any(vector_mv(v) for _, v in allv):
            return "apply-masking-vector-missing-value"
        if any(range_conflict(v) for _, v in allv):
            return "apply-masking-valid-range-with-valid-min-max-or-wrong-size"
        if any(transformed(v, p["unpack"]) for _, v in allv):
            return "apply-masking-after-unpacking-read"
        if any(con["bounds"] is not None and inherits(con["bounds"], con["main"]) for con in p["cons"]):
            return "apply-masking-bounds-inherit-parent-attributes"
        if any(v["dt"] == "str" and "" in v["data"] for _, v in allv) and not raised:
            return "vlen-string-empty-string-masked"
        if why.startswith("copy-swap:"):
            return "field-apply-masking-copy-masks-receiver-constructs"
        if any(nan_fill(v) for _, v in allv) and not raised:
            return "apply-masking-nan-fill-value"
        return None
    return None


# ---------------------------------------------------------------- shrinking
def _still_fails(stream, payload, sig):
    c2 = from_payload(stream, payload)
    try:
        c2.impl_out = impl(c2)
        c2.oracle_fail = oracle(c2)
    except Exception:
        if os.environ.get("C07_DEBUG"):
            import traceback
            traceback.print_exc()
        return None
    if os.environ.get("C07_DEBUG"):
        print("shrink try", payload.get("ix"), c2.impl_out, c2.oracle_fail, classify(c2), sig)
    if c2.oracle_fail and classify(c2) == sig:
        if c2.line is not None:
            try:
                c2.model_out = fw.model_run([c2.line])[0]
            except Exception:
                pass
        return c2
    return None


def shrink(c, run):
    """Greedy reduction: a single selected element, then attributes / constructs dropped
    one at a time, keeping the same failure signature."""
    import copy
    if not c.oracle_fail:
        return None
    sig = classify(c)
    best = c
    p = copy.deepcopy(c.payload)
    if c.stream == "C07.read":
        n = len(p["var"]["data"])
        for i in positions(p["ix"], n):
            q = dict(copy.deepcopy(p), ix=dict(l=[i]))
            r = _still_fails(c.stream, q, sig)
            if r is not None:
                best, p = r, q
                break
        for k in list(p["var"]["attrs"]) + ["uns"]:
            q = copy.deepcopy(p)
            if k == "uns":
                if not q["var"]["uns"]:
                    continue
                q["var"]["uns"] = None
            else:
                del q["var"]["attrs"][k]
            r = _still_fails(c.stream, q, sig)
            if r is not None:
                best, p = r, q
    elif c.stream == "C07.apply":
        for j in reversed(range(len(p["cons"]))):
            q = copy.deepcopy(p)
            del q["cons"][j]
            r = _still_fails(c.stream, q, sig)
            if r is not None:
                best, p = r, q
        for j in range(len(p["cons"])):
            if p["cons"][j]["bounds"] is not None:
                q = copy.deepcopy(p)
                q["cons"][j]["bounds"] = None
                r = _still_fails(c.stream, q, sig)
                if r is not None:
                    best, p = r, q
        def vars_of(q):
            out = [q["field"]]
            for con in q["cons"]:
                out.append(con["main"])
                if con["bounds"] is not None:
                    out.append(con["bounds"])
            return out
        for vi in range(len(vars_of(p))):
            for k in list(vars_of(p)[vi]["attrs"]):
                q = copy.deepcopy(p)
                del vars_of(q)[vi]["attrs"][k]
                r = _still_fails(c.stream, q, sig)
                if r is not None:
                    best, p = r, q
    return best if best is not c else None
