"""C07 — masking and unpacking of file data follow the netCDF conventions.

Streams
  C07.read   one netCDF variable written by hand with netCDF4; read through
             cfdm.read(mask=, unpack=, netcdf_backend=) as a whole or as a subspace,
             through Data.array or through the backend array (Data.source()).
             Compared with the Lean model (mask pattern, integer values, masked-vs-plain
             kind) and with netCDF4.Variable[...] (mask, values, dtype, kind).
  C07.apply  one field variable plus coordinate variables (optionally with bounds), each
             with its own attributes; cfdm.read(mask=False) followed by
             Field.apply_masking(inplace=) must reproduce the masked read for the field
             and every metadata construct, and leave the receiver alone when not in place.
             Compared with the Lean model and with netCDF4 as the independent masked read.
             Constructs: dimension coordinate, auxiliary coordinate (both optionally with bounds
             of their own data type), field ancillary, cell measure, domain ancillary.
  C07.data   Data.apply_masking called directly on in-memory data that may already hold masked
             elements: fill_values None / True / False / a sequence / not a sequence, valid_min,
             valid_max, valid_range (right and wrong sizes, with valid_min), in place or not.
             Compared with the Lean model and with an elementwise numpy restatement.
  C07.dtype  one field variable plus coordinate / bounds / ancillary / cell measure / domain
             ancillary variables, each packed with its own scale_factor / add_offset (every
             numeric type, neutral or not, or text) and _Unsigned: the data type advertised
             before the data are fetched (Data.dtype, construct.dtype) must be the data type
             of the fetched array (Data.array, a subspace, to_memory) and that of netCDF4.
"""
import atexit
import json
import os
import shutil
import tempfile

import numpy as np

from .. import fw
from ..fw import Case

REQUIRED = [
    "C07_mask_iff",
    "C07_kind_iff",
    "C07_unpack_linear",
    "C07_subspace_commutes",
    "C07_mask_off",
    "C07_apply_masking_partial",
    "C07_field_apply_masking_partial",
    "C07_bounds_fill_value_never_inherited",
    "C07_promote_is_least_safe_upper_bound",
    "C07_promote_unique",
    "C07_promote_matches_numpy",
    "C07_canCast_matches_numpy",
    "C07_dtype_advertised_eq_delivered",
    "C07_dtype_unpack_no_narrowing",
    "C07_dtype_reference_partial",
    "C07_data_apply_masking_elementwise",
    "C07_data_apply_masking_range",
    "C07_data_apply_masking_argument_errors",
]
BUDGET = {"quick": 2600, "thorough": 40000}
QUICK_JOBS = 8
RULE = (
    "1-d netCDF variables (4-9 elements) of dtype {i1,i2,i4,i8,u1,u2,u4,u8,f4,f8,S1,str} x random subsets of "
    "{_FillValue, missing_value (scalar/vector), valid_min, valid_max, valid_range (1,2,3 elements), scale_factor, "
    "add_offset, _Unsigned (true/True/false/TRUE)} x attribute values {same dtype, other dtype safely castable, type "
    "limits, default fill value, NaN, out of range, fractional, text} x data drawn from {attribute values and their "
    "neighbours, default fill value, NaN, type limits, zero, small numbers} x mask x unpack x backend {netCDF4, "
    "h5netcdf} x access {Data.array, Data[...] subspace, backend array subspace}; apply stream: field + 0-5 "
    "metadata constructs {dimension coordinate, auxiliary coordinate (optionally with bounds of the same or another "
    "data type, without _FillValue, holding their own default fill value), field ancillary, cell measure, domain "
    "ancillary} x inplace; dtype stream: field + coordinate/bounds/ancillary/cell measure/domain ancillary variables "
    "of every numeric type x scale_factor, add_offset {absent, text, every numeric type, neutral or not} x _Unsigned x "
    "unpack x backend x access {Data.array, subspace, to_memory, construct.dtype}; data stream: in-memory int/float "
    "arrays (1-6 elements, NaN, already masked elements) x fill_values {None, True, False, not a sequence, 0-3 values} x "
    "own fill value x valid_min x valid_max x valid_range {1,2,3 elements, with valid_min} x inplace; read stream also: "
    "0-d variables, variables in a group. non-trivial = at least one of the "
    "eight attributes present or a default fill value in the data; distinct = distinct (variable configuration, "
    "flags, index)"
)
ASSUMPTIONS = [
    "values are exact integers, NaN or 1-character strings; IEEE rounding and integer overflow in the unpacking "
    "arithmetic are not modelled (values that overflow or round are compared with netCDF4 only); data types ARE "
    "modelled (dtype stream), on variables whose values are small enough not to overflow",
    "files are written in the default fill mode (nc_inq_var_fill no_fill=0); byte variables created with fill mode "
    "off are outside the generated inputs",
    "vector-valued valid_min, valid_max, scale_factor, add_offset (length >= 2) are not generated: the reference "
    "library itself raises on them",
    "the variable is 1-d; N-d subspacing is property C03",
    "where the reference library itself cannot read a variable (netCDF4 1.7 under numpy 2 fails to build the masked "
    "array of some _Unsigned variables) the read stream is judged by the model alone, and the apply stream compares "
    "apply_masking with cfdm's own masked read",
    "the model is /repo HEAD plus the proposed patches fixes/C07-apply-masking-vector-missing-value.patch, "
    "fixes/C07-unpacked-dtype.patch and fixes/C07-data-array-unusable-fill-value.patch; on a tree without them the "
    "three defects surface as known findings, never as agreement",
]

_cfdm = None


def cfdm():
    global _cfdm
    if _cfdm is None:
        import logging
        import cfdm as m
        # netcdf_indexer reports "No unpacking done" through the root logger: not an observable here
        logging.getLogger().setLevel(logging.ERROR)
        _cfdm = m
    return _cfdm


DTYPES = ["i1", "i2", "i4", "i8", "u1", "u2", "u4", "u8", "f4", "f8", "S1", "str"]
F_FILL = 9969209968386869046778552952102584320
DEFAULT_FILL = {
    "i1": -127, "i2": -32767, "i4": -2147483647, "i8": -9223372036854775806,
    "u1": 255, "u2": 65535, "u4": 4294967295, "u8": 18446744073709551614,
    "f4": F_FILL, "f8": F_FILL, "S1": "", "str": "",
}
MASK_ATTRS = ["_FillValue", "missing_value", "valid_min", "valid_max", "valid_range"]
ALL_ATTRS = MASK_ATTRS + ["scale_factor", "add_offset"]
KEY = {"_FillValue": "fv", "missing_value": "mv", "valid_min": "vmin", "valid_max": "vmax",
       "valid_range": "vr", "scale_factor": "sf", "add_offset": "ao"}


NT = ["i1", "u1", "i2", "u2", "i4", "u4", "i8", "u8", "f4", "f8"]


def numpy_promotion_text():
    """Cfdm/Generated/NumpyPromotion.lean: np.result_type and np.can_cast('safe') of the installed
    numpy on the ten numeric netCDF types (theorems C07_promote_matches_numpy / C07_canCast_matches_numpy
    tie the model's rule to it)."""
    rows, cc = [], []
    for a in NT:
        for b in NT:
            # the data type of `data * scale_factor` (an array times a 0-d array) ...
            r = (np.zeros(2, a) * np.array(1, b)).dtype
            # ... is np.result_type of the two data types (NEP 50: 0-d arrays are not weakly typed)
            if r != np.result_type(np.dtype(a), np.dtype(b)) or r != (np.zeros(2, a) + np.array(1, b)).dtype:
                raise fw.HarnessError(f"numpy: array (op) 0-d array is not np.result_type for {a},{b}")
            rows.append(f'  ("{a}", "{b}", "{r.str[1:]}")')
            cc.append(f'  ("{a}", "{b}", {"true" if np.can_cast(np.dtype(a), np.dtype(b), "safe") else "false"})')
    return ("/- GENERATED by harness/corr/C07.py pre() from the installed numpy (np.result_type, np.can_cast 'safe'). "
            "Do not edit. -/\n"
            "namespace Cfdm.Generated.NumpyPromotion\n\n"
            "def resultType : List (String × String × String) := [\n" + ",\n".join(rows) + "]\n\n"
            "def canCastSafe : List (String × String × Bool) := [\n" + ",\n".join(cc) + "]\n\n"
            "end Cfdm.Generated.NumpyPromotion\n")


def pre():
    """The model's default fill table must be that of the installed reference library; the numpy
    promotion tables are regenerated for the Lean build."""
    import netCDF4
    scratch()
    fw.write_if_changed(fw.LEAN / "Cfdm" / "Generated" / "NumpyPromotion.lean", numpy_promotion_text())
    for k, v in DEFAULT_FILL.items():
        if k in ("S1", "str"):
            if netCDF4.default_fillvals["S1"] != "\x00":
                raise fw.HarnessError("netCDF4.default_fillvals['S1'] changed")
            continue
        if int(np.array(netCDF4.default_fillvals[k], k)) != v:
            raise fw.HarnessError(f"netCDF4.default_fillvals[{k}] differs from the model's table")


def is_str(dt):
    return dt in ("S1", "str")


def lim(dt):
    if dt[0] in "iu":
        ii = np.iinfo(dt)
        return int(ii.min), int(ii.max)
    return None


def fits(dt, z):
    """Exactly representable in dt (z: int, 'nan', str)."""
    if is_str(dt):
        return isinstance(z, str)
    if isinstance(z, str):
        return z == "nan" and dt[0] == "f"
    if isinstance(z, float):
        return False if dt[0] in "iu" else True
    if dt[0] in "iu":
        lo, hi = lim(dt)
        return lo <= z <= hi
    try:
        x = np.dtype(dt).type(z)
    except OverflowError:
        return False
    return bool(np.isfinite(x)) and int(x) == z


# ---------------------------------------------------------------- generators
def pool(rng, dt):
    if is_str(dt):
        return ["", "a", "b", "c", "z"]
    if dt[0] in "iu":
        lo, hi = lim(dt)
        p = [lo, lo + 1, hi, hi - 1, 0, 1, 5, 100, DEFAULT_FILL[dt], rng.randint(2, 60)]
        if dt[0] == "i":
            p += [-1, -2, -3, -100, DEFAULT_FILL["u" + dt[1]] - (1 << (8 * int(dt[1])))]
        return p
    return [-(1 << 24), 1 << 24, 0, 1, -1, 5, 100, -100, F_FILL, "nan", "nan", rng.randint(2, 60)]


def neighbours(dt, z):
    if not isinstance(z, int) or abs(z) > (1 << 62):
        return []
    return [w for w in (z - 1, z + 1) if fits(dt, w)]


def other_dtype(rng, dt, safe, value):
    """A different attribute dtype holding `value` exactly."""
    if dt[0] in "iu":
        cands = [d for d in ("i1", "i2", "i4", "i8", "u1", "u2", "u4", "u8", "f8") if d != dt]
    else:
        cands = [d for d in ("f4", "f8", "i4", "i2") if d != dt]
    rng.shuffle(cands)
    for d in cands:
        if fits(d, value) and not (d[0] == "f" and isinstance(value, int) and abs(value) > (1 << 24)):
            return d
    return dt


def gen_attr_scalar(rng, dt, p, allow_unsafe=True, allow_frac=True):
    """-> dict(dt=, v=[one value]) or dict(text=...)."""
    r = rng.random()
    if is_str(dt):
        return dict(text=rng.choice(["a", "b", "c"]))
    if allow_unsafe and r < 0.04:
        return dict(text="abc")
    if allow_unsafe and r < 0.12:
        if dt[0] in "iu":
            k = rng.random()
            lo, hi = lim(dt)
            if k < 0.45 and dt not in ("i8", "u8"):
                return dict(dt="i8", v=[rng.choice([hi + 1, hi + 45, lo - 1, lo - 300])])
            if k < 0.6 and dt[0] == "u":
                return dict(dt="i" + dt[1], v=[rng.choice([-1, -5])])
            if k < 0.8:
                return dict(dt="f8", v=["nan"])
            if allow_frac:
                return dict(dt="f8", v=[rng.choice([2.5, 0.5, -1.5])])
        # floats hold every modelled value: nothing numeric is unsafe
    v = rng.choice(p)
    if r > 0.8:
        d = other_dtype(rng, dt, True, v)
        return dict(dt=d, v=[v])
    return dict(dt=dt, v=[v])


def gen_var(rng, role="field", n=None, for_apply=False):
    """One variable configuration.  role: field | dim | aux | bounds."""
    if role == "dim":
        dt = rng.choice(["i2", "i4", "f4", "f8", "i8", "u2", "i1"])
    elif role in ("msr", "dom"):
        dt = rng.choice(NT)
    elif role == "bounds":
        dt = None
    else:
        dt = rng.choices(DTYPES, [8, 8, 6, 4, 6, 4, 4, 4, 8, 8, 2, 1])[0]
    return gen_var_dt(rng, dt, n, for_apply)


def gen_var_dt(rng, dt, n=None, for_apply=False):
    n = n or rng.randint(4, 9)
    p = pool(rng, dt)
    attrs = {}
    uns = None
    dense = rng.random() < 0.3
    pr = 0.55 if dense else 0.25
    if is_str(dt):
        if rng.random() < 0.5:
            attrs["missing_value"] = dict(text=rng.choice(["a", "b"]))
        if dt == "S1" and rng.random() < 0.4:
            attrs["_FillValue"] = dict(dt="S1", v=[rng.choice(["a", "c", "z"])])
        if rng.random() < 0.2:
            attrs["valid_min"] = dict(text="b")
        if rng.random() < 0.1:
            attrs["valid_max"] = dict(text="b")
    else:
        frac = not for_apply
        if rng.random() < pr:
            # _FillValue always has the variable's own type (the library enforces it)
            attrs["_FillValue"] = dict(dt=dt, v=[rng.choice(p)])
        if rng.random() < pr:
            a = gen_attr_scalar(rng, dt, p, allow_frac=frac)
            if "v" in a and rng.random() < (0.12 if for_apply else 0.3):
                k = rng.randint(1, 2)
                a["v"] = a["v"] + [rng.choice(p) for _ in range(k)]
                if not all(fits(a["dt"], x) for x in a["v"]):
                    a["dt"] = dt if all(fits(dt, x) for x in a["v"]) else "f8"
            attrs["missing_value"] = a
        if rng.random() < pr:
            attrs["valid_min"] = gen_attr_scalar(rng, dt, p, allow_frac=frac)
        if rng.random() < pr:
            attrs["valid_max"] = gen_attr_scalar(rng, dt, p, allow_frac=frac)
        if rng.random() < pr:
            a = gen_attr_scalar(rng, dt, p, allow_frac=False)
            if "v" in a:
                k = rng.choices([2, 3, 1], [17, 2, 1])[0]
                vals = a["v"] + [rng.choice(p) for _ in range(k - 1)]
                if rng.random() < 0.7:
                    nums = sorted(x for x in vals if isinstance(x, int))
                    vals = nums + [x for x in vals if not isinstance(x, int)]
                a["v"] = vals
                if not all(fits(a["dt"], x) for x in vals):
                    a["dt"] = dt if all(fits(dt, x) for x in vals) else "f8"
            attrs["valid_range"] = a
        ps = 0.25 if not for_apply else 0.12
        small = [1, 0, 2, 3, -1, 10, 2, 5]
        if rng.random() < ps:
            r = rng.random()
            if r < 0.02:
                attrs["scale_factor"] = dict(text="abc")
            else:
                v = rng.choice(small)
                sdt = rng.choice([dt, dt, "f8", "f4"])
                attrs["scale_factor"] = dict(dt=sdt if fits(sdt, v) else "f8", v=[v])
        if rng.random() < ps:
            r = rng.random()
            if r < 0.02:
                attrs["add_offset"] = dict(text="abc")
            else:
                v = rng.choice(small)
                sdt = rng.choice([dt, dt, "f8", "f4"])
                attrs["add_offset"] = dict(dt=sdt if fits(sdt, v) else "f8", v=[v])
        if rng.random() < (0.3 if dt[0] == "i" else 0.08):
            uns = rng.choice(["true", "true", "True", "false", "TRUE"])
    for k, a in list(attrs.items()):
        if "v" in a and not all(fits(a["dt"], x) for x in a["v"]):
            for d in (dt, "f8", "i8", "u8"):
                if all(fits(d, x) for x in a["v"]):
                    a["dt"] = d
                    break
            else:
                # no single type holds all the values exactly: keep those the f8 type holds
                a["dt"] = "f8"
                a["v"] = [x for x in a["v"] if fits("f8", x)] or [0]
    # data: attribute values, their neighbours, the default fill, the pool
    hot = []
    for k in MASK_ATTRS:
        a = attrs.get(k)
        if a and "v" in a:
            for x in a["v"]:
                if fits(dt, x):
                    hot.append(x)
                    hot += neighbours(dt, x)
                    if dt[0] == "i" and isinstance(x, int) and x < 0:
                        pass
    hot.append(DEFAULT_FILL[dt])
    if is_str(dt):
        hot += ["a", "b", ""]
    data = []
    for _ in range(n):
        r = rng.random()
        if hot and r < 0.55:
            data.append(rng.choice(hot))
        else:
            data.append(rng.choice(p))
    return dict(dt=dt, data=data, attrs=attrs, uns=uns)



# ---------------------------------------------------------------- predicates on a variable configuration
def uns_true(var):
    return var["uns"] in ("true", "True")


def attr_unsafe(var, k):
    """Present but not safely castable to the variable's type (the read ignores it)."""
    a = var["attrs"].get(k)
    if a is None:
        return False
    if "text" in a:
        return True  # text on numbers; a str-typed attribute on character data
    return not all(fits(var["dt"], x) for x in a["v"])


def has_unsafe(var):
    return any(attr_unsafe(var, k) for k in MASK_ATTRS)


def vector_mv(var):
    a = var["attrs"].get("missing_value")
    return a is not None and "v" in a and len(a["v"]) > 1


def range_conflict(var):
    a = var["attrs"].get("valid_range")
    if a is None:
        return False
    if "valid_min" in var["attrs"] or "valid_max" in var["attrs"]:
        return True
    return "v" in a and len(a["v"]) != 2


def str_valid(var):
    return is_str(var["dt"]) and any(k in var["attrs"] for k in ("valid_min", "valid_max", "valid_range"))


def transformed(var, unpack):
    """The read with unpack=True changes the stored values' representation."""
    if not unpack:
        return False
    if uns_true(var) and var["dt"][0] == "i":
        return True
    return any(k in var["attrs"] and "v" in var["attrs"][k] for k in ("scale_factor", "add_offset"))


def nan_fill(var):
    return any("v" in var["attrs"].get(k, {}) and "nan" in var["attrs"][k]["v"] for k in ("_FillValue", "missing_value"))


def text_scale(var):
    return any("text" in var["attrs"].get(k, {}) for k in ("scale_factor", "add_offset"))


def trivial_single(var):
    """Exactly one of scale_factor/add_offset, numeric and neutral (1 / 0)."""
    sf, ao = var["attrs"].get("scale_factor"), var["attrs"].get("add_offset")
    if (sf is None) == (ao is None):
        return False
    if sf is not None:
        return "v" in sf and sf["v"][0] == 1
    return "v" in ao and ao["v"][0] == 0


def viewed_dtype(var):
    dt = np.dtype(var["dt"])
    if uns_true(var) and dt.kind == "i":
        dt = np.dtype(f"u{dt.itemsize}")
    return dt


def head_advertised(var, unpack):
    """Data.dtype as NetCDFRead announces it WITHOUT fixes/C07-unpacked-dtype.patch (classification of
    the known finding only): np.result_type(add_offset, scale_factor) folded into the type of the
    field's data variable; the packed type for every other construct."""
    dt = np.dtype(var["dt"])
    if var["role"] != "field" or not unpack:
        return dcode(dt)
    vals = [var["attrs"].get(k) for k in ("add_offset", "scale_factor")]
    vals = [np.dtype(a["dt"]) for a in vals if a is not None and "v" in a]
    if not vals:
        return dcode(dt)
    return dcode(np.result_type(dt, np.result_type(*vals)))


def inherits(b, c):
    """apply_masking gives the bounds a property of the parent that the read never applies."""
    return any(k in c["attrs"] and k not in b["attrs"] for k in ("missing_value", "valid_min", "valid_max", "valid_range"))


def apply_ok(var, unpack):
    """The Lean predicate ApplyOK, restated (a safe vector missing_value is inside it)."""
    return not (has_unsafe(var) or range_conflict(var) or str_valid(var) or transformed(var, unpack))


def sanitise(var, unpack):
    """Drop whatever takes the variable outside ApplyOK (keeps NaN fills, default fills, limits)."""
    var = dict(var, attrs=dict(var["attrs"]))
    A = var["attrs"]
    for k in MASK_ATTRS:
        if attr_unsafe(var, k):
            del A[k]
    if "valid_range" in A:
        if "v" in A["valid_range"] and len(A["valid_range"]["v"]) != 2:
            del A["valid_range"]
        else:
            A.pop("valid_min", None)
            A.pop("valid_max", None)
    if is_str(var["dt"]):
        for k in ("valid_min", "valid_max", "valid_range"):
            A.pop(k, None)
    if unpack:
        A.pop("scale_factor", None)
        A.pop("add_offset", None)
        if uns_true(var):
            var["uns"] = None
    return var


def unpack_exact(var):
    """Does numpy's unpacking arithmetic give the exact integers for every datum?"""
    dt = var["dt"]
    sf, ao = var["attrs"].get("scale_factor"), var["attrs"].get("add_offset")
    nums = [a for a in (sf, ao) if a is not None and "v" in a]
    if not nums or is_str(dt):
        return True
    if any("text" in a for a in (sf, ao) if a is not None):
        return True
    s = sf["v"][0] if sf is not None else 1
    o = ao["v"][0] if ao is not None else 0
    arr = np_values(dt, var["data"])
    if uns_true(var) and dt[0] == "i":
        arr = arr.view("u" + dt[1])
    with np.errstate(all="ignore"):
        if s == 1 and o == 0:
            # the neutral short cut: a cast to the attribute's type
            r = arr.astype(np.array(attr_value(sf if sf is not None else ao)).dtype)
        else:
            r = arr
            if sf is not None:
                r = r * np.array(attr_value(sf))
            if ao is not None:
                r = r + np.array(attr_value(ao))
    for x, y in zip(arr.tolist(), r.tolist()):
        if isinstance(x, float) and np.isnan(x):
            continue
        if isinstance(y, float) and not np.isfinite(y):
            return False
        if int(x) * s + o != int(y) or (isinstance(y, float) and not float(y).is_integer()):
            return False
    return True


def gen_index(rng, n):
    r = rng.random()
    if r < 0.35:
        return None
    if r < 0.7:
        a = rng.randint(0, n - 1)
        b = rng.randint(a + 1, n)
        return dict(s=[a, b, rng.choice([1, 1, 2, 3])])
    k = rng.randint(1, n)
    return dict(l=sorted(rng.sample(range(n), k)))


def positions(ix, n):
    if ix is None:
        return list(range(n))
    if "s" in ix:
        return list(range(n))[slice(*ix["s"])]
    return list(ix["l"])


CON_ROLES = [("x", "dim", 0.7, 0.6), ("a", "aux", 0.5, 0.4), ("n", "anc", 0.25, 0.0), ("m", "msr", 0.2, 0.0),
             ("d", "dom", 0.2, 0.0)]
INHERITED = ("missing_value", "valid_min", "valid_max", "valid_range")


def gen(rng, tier, n):
    n_apply = max(8, int(n * 0.2))
    n_dtype = max(8, int(n * 0.1))
    n_data = max(8, int(n * 0.06))
    n_read = n - n_apply - n_dtype - n_data
    made = 0
    while made < n_read:
        r = rng.random()
        if r < 0.06:
            # a 0-d variable (numpy scalars / the masked constant inside netcdf_indexer and the backends)
            var = gen_var(rng, n=1)
            var["scalar"] = True
            if rng.random() < 0.5:
                hot = [a["v"][0] for k, a in var["attrs"].items() if k in ("_FillValue", "missing_value") and "v" in a
                       and fits(var["dt"], a["v"][0])] + [DEFAULT_FILL[var["dt"]]]
                var["data"] = [rng.choice(hot)]
        else:
            var = gen_var(rng)
            if r < 0.12:
                var["group"] = True   # the variable and its dimension live in a group
        combos = [(m, u, b) for m in (True, False) for u in (True, False) for b in ("netCDF4", "h5netcdf")]
        rng.shuffle(combos)
        k = 8 if tier == "thorough" else rng.randint(3, 6)
        for m, u, b in combos[:k]:
            ix = None if var.get("scalar") else gen_index(rng, len(var["data"]))
            route = rng.choices(["data", "source"], [3, 2])[0]
            if vector_mv(var) or (not is_str(var["dt"]) and "text" in var["attrs"].get("missing_value", {})):
                # without fixes/C07-data-array-unusable-fill-value.patch Data.array cannot use such a
                # missing_value as its fill value (known finding): look through the backend array more often
                route = rng.choices(["data", "source"], [2, 3])[0]
            yield mk_read(dict(var=var, mask=m, unpack=u, backend=b, ix=ix, route=route))
            made += 1
    for _ in range(n_apply):
        yield mk_apply(gen_apply(rng))
    for _ in range(n_dtype):
        yield mk_dtype(gen_dtype(rng))
    for _ in range(n_data):
        yield mk_data(gen_data(rng))


def gen_apply(rng):
    """A field and its metadata constructs.  `clean`: every variable inside the hypotheses of
    C07_field_apply_masking_partial; `one`: a clean case with exactly one deviation injected (one
    of the open findings); `wild`: whatever the variable generator gives."""
    nn = rng.randint(3, 6)
    unpack = rng.random() < 0.4
    r = rng.random()
    mode = "clean" if r < 0.76 else ("one" if r < 0.92 else "wild")

    def fin(v):
        if not unpack_exact(v):
            v = dict(v, attrs={k: a for k, a in v["attrs"].items() if k not in ("scale_factor", "add_offset")})
        return v if mode == "wild" else sanitise(v, unpack)
    f = fin(gen_var(rng, "field", nn, for_apply=True))
    cons = []
    for name, role, p_con, p_bounds in CON_ROLES:
        if rng.random() >= p_con:
            continue
        c = fin(gen_var(rng, role, nn, for_apply=True))
        b = None
        if not is_str(c["dt"]) and rng.random() < p_bounds:
            # bounds of the parent's type or of another one; often without any attribute (the
            # reader must record the default fill value OF THE BOUNDS' TYPE), holding that value
            bdt = c["dt"] if rng.random() < 0.5 else rng.choice(NT)
            b = gen_var_dt(rng, bdt, 2 * nn, for_apply=True)
            k = rng.random()
            if k < 0.5:
                b["attrs"] = {}
                b["uns"] = None
            elif k < 0.7:
                b["attrs"].pop("_FillValue", None)
            if "_FillValue" not in b["attrs"] and rng.random() < 0.6:
                b["data"][rng.randrange(2 * nn)] = DEFAULT_FILL[bdt]
            b = fin(b)
            if mode != "wild" and inherits(b, c):
                b["attrs"].update({k: c["attrs"][k] for k in INHERITED if k in c["attrs"] and k not in b["attrs"]})
                b = fin(b)
                if inherits(b, c):
                    # the parent's attribute does not fit the bounds' type: the parent goes without
                    c = dict(c, attrs={k: a for k, a in c["attrs"].items() if k not in INHERITED or k in b["attrs"]})
        cons.append(dict(name=name, main=c, bounds=b))
    p = dict(field=f, cons=cons, unpack=unpack, inplace=rng.random() < 0.5, backend=rng.choice(["netCDF4", "h5netcdf"]))
    if mode == "one":
        inject(rng, p)
    return p


def inject(rng, p):
    """Take a clean apply case outside the hypotheses in exactly one way."""
    allv = [v for _, v in apply_vars(p)]
    nums = [v for v in allv if not is_str(v["dt"])]
    ints = [v for v in nums if v["dt"][0] in "iu" and v["dt"] not in ("i8", "u8")]
    kinds = ["unsafe", "range", "strvalid"]
    if p["unpack"] and nums:
        kinds.append("transformed")
    withb = [c for c in p["cons"] if c["bounds"] is not None and not is_str(c["main"]["dt"])]
    if withb:
        kinds += ["inherit", "inherit"]
    k = rng.choice(kinds)
    if k == "unsafe" and nums:
        v = rng.choice(ints or nums)
        key = rng.choice(["valid_min", "valid_max", "missing_value"])
        if v["dt"][0] in "iu" and v["dt"] not in ("i8", "u8") and rng.random() < 0.7:
            lo, hi = lim(v["dt"])
            v["attrs"][key] = dict(dt="i8", v=[rng.choice([hi + 1, lo - 1, hi + 45])])
        elif v["dt"][0] in "iu" and rng.random() < 0.5:
            v["attrs"][key] = dict(dt="f8", v=["nan"])
        else:
            v["attrs"][key] = dict(text="abc")
        v["attrs"].pop("valid_range", None)
    elif k == "range" and nums:
        v = rng.choice(nums)
        pl = [x for x in pool(rng, v["dt"]) if isinstance(x, int) and fits(v["dt"], x)]
        lo, hi = sorted(rng.sample(pl, 2))
        if rng.random() < 0.6:
            v["attrs"]["valid_range"] = dict(dt=v["dt"], v=[lo, hi])
            v["attrs"][rng.choice(["valid_min", "valid_max"])] = dict(dt=v["dt"], v=[rng.choice(pl)])
        else:
            v["attrs"].pop("valid_min", None)
            v["attrs"].pop("valid_max", None)
            v["attrs"]["valid_range"] = dict(dt=v["dt"], v=[lo, hi, hi] if rng.random() < 0.5 else [lo])
    elif k == "strvalid":
        strs = [v for v in allv if v["dt"] == "S1"]
        if strs:
            rng.choice(strs)["attrs"][rng.choice(["valid_min", "valid_max"])] = dict(text="b")
    elif k == "transformed":
        v = rng.choice(nums)
        if v["dt"][0] == "i" and rng.random() < 0.5:
            v["uns"] = "true"
            v["data"][0] = -1
        else:
            v["attrs"]["scale_factor"] = dict(dt=v["dt"], v=[2])
            if not unpack_exact(v):
                v["attrs"]["scale_factor"] = dict(dt=v["dt"], v=[1])
                v["attrs"]["add_offset"] = dict(dt=v["dt"], v=[1])
                if not unpack_exact(v):
                    del v["attrs"]["scale_factor"], v["attrs"]["add_offset"]
    elif k == "inherit":
        c = rng.choice(withb)
        dt = c["main"]["dt"]
        pl = [x for x in pool(rng, dt) if isinstance(x, int) and fits(dt, x)]
        key = rng.choice(["valid_min", "valid_max", "missing_value"])
        c["main"]["attrs"].pop("valid_range", None)
        c["bounds"]["attrs"].pop(key, None)
        c["main"]["attrs"][key] = dict(dt=dt, v=[rng.choice(pl)])


def gen_data(rng):
    """Data.apply_masking called directly."""
    dt = rng.choice(["i4", "f8", "f4", "i2"])
    n = rng.randint(1, 6)
    pl = [0, 1, 2, 3, 5, 8, -1, -4, 10]
    if dt[0] == "f":
        pl += ["nan", "nan"]
    arr = [rng.choice(pl) for _ in range(n)]
    msk = [rng.random() < 0.2 for _ in range(n)] if rng.random() < 0.5 else [False] * n
    pick = lambda: rng.choice(arr + pl)
    dfill = (rng.choice(arr) if rng.random() < 0.6 else pick()) if rng.random() < 0.6 else None
    r = rng.random()
    if r < 0.16:
        fills = "N"
    elif r < 0.32:
        fills = "T"
    elif r < 0.38:
        fills = "F"
    elif r < 0.44:
        fills = "X"
    else:
        fills = [pick() for _ in range(rng.choice([0, 1, 1, 2, 3]))]
    if dt[0] != "f":
        # a NaN fill value on integer data is legal (it matches nothing)
        fills = fills if isinstance(fills, str) else [x if x != "nan" or rng.random() < 0.3 else 1 for x in fills]
    num = [x for x in pl if x != "nan"]
    vmin = rng.choice(num) if rng.random() < 0.35 else None
    vmax = rng.choice(num) if rng.random() < 0.35 else None
    vr = None
    if rng.random() < 0.3:
        k = rng.choices([2, 1, 3], [8, 1, 1])[0]
        vr = sorted(rng.choice(num) for _ in range(k))
        if rng.random() < 0.8:
            vmin = vmax = None
    return dict(dt=dt, arr=arr, mask=msk, dfill=dfill, fills=fills, vmin=vmin, vmax=vmax, vr=vr, inplace=rng.random() < 0.5)


DT_ROLES = [("x", "dim", 0.6), ("x_bnds", "bounds", 0.0), ("a", "aux", 0.5), ("a_bnds", "bounds", 0.0), ("n", "anc", 0.4),
            ("m", "msr", 0.3), ("d", "dom", 0.3)]


def gen_dtype(rng):
    """Variables of every numeric type packed with scale_factor / add_offset of every type."""
    unpack = rng.random() < 0.85
    field_only = rng.random() < 0.3   # only the data variable is packed

    def attr(neutral, other, plain):
        r = rng.random()
        if plain or r < 0.4:
            return None
        if r < 0.44:
            return dict(text="abc")
        t = rng.choices(NT, [2, 2, 3, 2, 2, 2, 1, 1, 6, 6])[0]
        return dict(dt=t, v=[neutral if rng.random() < 0.12 else other])

    def var(name, role):
        dt = rng.choice(NT)
        plain = (field_only and role != "field") or rng.random() < 0.15
        A = {}
        sf, ao = attr(1, 2, plain), attr(0, 3, plain)
        if sf is not None:
            A["scale_factor"] = sf
        if ao is not None:
            A["add_offset"] = ao
        uns = None
        if not plain and rng.random() < (0.3 if dt[0] == "i" else 0.1):
            uns = rng.choice(["true", "true", "True", "false"])
        n = 6 if role == "bounds" else 3
        return dict(name=name, role=role, dt=dt, data=list(range(1, n + 1)), attrs=A, uns=uns)
    vs = [var("v", "field")]
    have = set()
    for name, role, pr in DT_ROLES:
        if role == "bounds":
            if name[0] in have and rng.random() < 0.6:
                vs.append(var(name, role))
            continue
        if rng.random() < pr:
            have.add(name)
            vs.append(var(name, role))
    return dict(vars=vs, unpack=unpack, backend=rng.choice(["netCDF4", "h5netcdf"]),
                access=rng.choice(["array", "array", "sub", "memory", "con"]))


# ---------------------------------------------------------------- protocol lines
def enc_v(dt, x):
    if isinstance(x, str):
        if x == "nan":
            return "nan"
        return str(ord(x)) if x else "0"
    return str(x)


def enc_attr(dt, a, for_apply=False):
    """Protocol form of an attribute, or None if the model cannot express it."""
    if a is None:
        return "-"
    if "text" in a:
        return "t"
    if any(isinstance(x, float) for x in a["v"]):
        # fractional: never safely castable to an integer type -> ignored by the read like text
        return None if for_apply else "t"
    return "[" + ",".join(enc_v(dt, x) for x in a["v"]) + "]"


def enc_var(var, for_apply=False, sep=" "):
    dt = var["dt"]
    parts = [("dt", dt), ("data", "[" + ",".join(enc_v(dt, x) for x in var["data"]) + "]")]
    for k in ALL_ATTRS:
        a = var["attrs"].get(k)
        if is_str(dt) and a is not None and "v" in a and k != "_FillValue":
            return None
        if for_apply and is_str(dt) and a is not None and k in ("valid_min", "valid_max", "valid_range"):
            # numpy orders strings, the model's text attribute has no content: oracle only
            return None
        e = enc_attr(dt, a, for_apply)
        if e is None:
            return None
        parts.append((KEY[k], e))
    parts.append(("uns", var["uns"] or "-"))
    if sep == " ":
        return " ".join(f"{k}={v}" for k, v in parts)
    return ";".join(v for _, v in parts)


def var_tags(var, prefix=""):
    t = [f"{prefix}dt:{var['dt']}"]
    for k in ALL_ATTRS:
        a = var["attrs"].get(k)
        if a is None:
            continue
        kind = "text" if "text" in a else ("vector" if len(a["v"]) > 1 else "scalar")
        if "v" in a:
            if any(x == "nan" for x in a["v"]):
                kind += "-nan"
            if not all(fits(var["dt"], x) for x in a["v"]):
                kind += "-unsafe"
        t.append(f"{prefix}{KEY[k]}:{kind}")
    if var["uns"]:
        t.append(f"{prefix}uns:{var['uns']}")
    return t


def nontrivial_var(var):
    return bool(var["attrs"]) or bool(var["uns"]) or DEFAULT_FILL[var["dt"]] in var["data"]


def mk_read(p):
    var = p["var"]
    n = len(var["data"])
    pos = positions(p["ix"], n)
    ev = enc_var(var)
    line = None
    if ev is not None:
        line = (f"C07.read {ev} mask={int(p['mask'])} unpack={int(p['unpack'])} "
                f"ix=[{','.join(map(str, pos))}]")
    tags = var_tags(var) + [f"mask:{int(p['mask'])}", f"unpack:{int(p['unpack'])}", "be:" + p["backend"],
                            "route:" + p["route"], "ix:" + ("full" if p["ix"] is None else next(iter(p["ix"])))]
    if var.get("scalar"):
        tags.append("shape:0-d")
    if var.get("group"):
        tags.append("in-group")
    return Case("C07.read", p, line, nontrivial=nontrivial_var(var), tags=tags)


def mk_apply(p):
    f = enc_var(p["field"], True, ";")
    cs = []
    ok = f is not None
    for c in p["cons"]:
        m = enc_var(c["main"], True, ";")
        b = "-" if c["bounds"] is None else enc_var(c["bounds"], True, ";")
        if m is None or b is None:
            ok = False
        cs.append(f"{m}/{b}")
    allv = apply_vars(p)
    inside = all(apply_ok(v, p["unpack"]) for _, v in allv) and not any(
        c["bounds"] is not None and inherits(c["bounds"], c["main"]) for c in p["cons"])
    if any(vector_mv(v) for _, v in allv) and not inside:
        # the model takes a vector missing_value apart (the proposed patch); a tree without the patch
        # compares `array == vector` with numpy broadcasting, which outside the hypotheses can agree
        # with the masked read by accident: oracle only
        ok = False
    line = None
    if ok:
        line = f"C07.apply f={f} c={'|'.join(cs)} unpack={int(p['unpack'])} inplace={int(p['inplace'])}"
    tags = ["apply:field"] + var_tags(p["field"], "ap-") + [f"apply:ncons={len(p['cons'])}", f"apply:inplace={int(p['inplace'])}",
                                                          f"apply:unpack={int(p['unpack'])}"]
    for c in p["cons"]:
        tags += var_tags(c["main"], "ap-")
        tags.append("apply:con=" + c["name"])
        if c["bounds"] is not None:
            b = c["bounds"]
            tags.append("apply:bounds")
            tags.append("apply:bounds-dtype-" + ("same" if b["dt"] == c["main"]["dt"] else "differs"))
            if "_FillValue" not in b["attrs"]:
                tags.append("apply:bounds-no-fillvalue")
                if DEFAULT_FILL[b["dt"]] in b["data"]:
                    tags.append("apply:bounds-holds-own-default-fill")
                    if "_FillValue" in c["main"]["attrs"] or b["dt"] != c["main"]["dt"]:
                        tags.append("apply:bounds-default-fill-vs-parent-fill")
            if vector_mv(b):
                tags.append("apply:bounds-vector-mv")
    if any(vector_mv(v) for _, v in allv):
        tags.append("apply:vector-mv")
    tags.append("apply:in-hypotheses" if inside else "apply:outside-hypotheses")
    nt = nontrivial_var(p["field"]) or any(nontrivial_var(c["main"]) for c in p["cons"])
    return Case("C07.apply", p, line, nontrivial=nt, tags=tags)


def apply_vars(p):
    out = [("field", p["field"])]
    for c in p["cons"]:
        out.append(("con", c["main"]))
        if c["bounds"] is not None:
            out.append(("bounds", c["bounds"]))
    return out


def is_neutral(key, a):
    return a["v"][0] == (1 if key == "scale_factor" else 0)


def enc_pack(key, a):
    if a is None:
        return "-"
    if "text" in a:
        return "t"
    return a["dt"] + ("n" if is_neutral(key, a) else "s")


def mk_dtype(p):
    parts = []
    tags = ["dtype:unpack=%d" % int(p["unpack"]), "dtype:access=" + p["access"], "dtype:be=" + p["backend"]]
    for v in p["vars"]:
        sf, ao = v["attrs"].get("scale_factor"), v["attrs"].get("add_offset")
        parts.append(f"{v['dt']}:{enc_pack('scale_factor', sf)}:{enc_pack('add_offset', ao)}:{int(uns_true(v))}")
        tags.append("dtype:role=" + v["role"])
        tags.append("dtype:dt=" + v["dt"])
        for key, a in (("scale_factor", sf), ("add_offset", ao)):
            if a is not None:
                tags.append(f"dtype:{KEY[key]}=" + ("text" if "text" in a else a["dt"] + ("-neutral" if is_neutral(key, a) else "")))
        if sf is not None and ao is not None and "v" in sf and "v" in ao:
            tags.append("dtype:both-" + ("same-type" if sf["dt"] == ao["dt"] else "mixed-types"))
        if uns_true(v):
            tags.append("dtype:unsigned")
    line = f"C07.dtype vars={'|'.join(parts)} unpack={int(p['unpack'])}"
    nt = any(v["attrs"] or v["uns"] for v in p["vars"])
    return Case("C07.dtype", p, line, nontrivial=nt, tags=tags)


def mk_data(p):
    ev = lambda x: "nan" if x == "nan" else str(x)
    opt = lambda x: "-" if x is None else "[" + ev(x) + "]"
    arr = "[" + ",".join("--" if m else ev(x) for x, m in zip(p["arr"], p["mask"])) + "]"
    fills = p["fills"] if isinstance(p["fills"], str) else "[" + ",".join(ev(x) for x in p["fills"]) + "]"
    vr = "-" if p["vr"] is None else "[" + ",".join(ev(x) for x in p["vr"]) + "]"
    line = (f"C07.data arr={arr} dfill={opt(p['dfill'])} fills={fills} vmin={opt(p['vmin'])} vmax={opt(p['vmax'])} "
            f"vr={vr} inplace={int(p['inplace'])}")
    tags = ["data:fills=" + (p["fills"] if isinstance(p["fills"], str) else f"seq{len(p['fills'])}"), "data:dt=" + p["dt"],
            "data:premasked=" + str(int(any(p["mask"]))), "data:vr=" + ("-" if p["vr"] is None else str(len(p["vr"]))),
            "data:vmin/vmax=" + str(int(p["vmin"] is not None)) + str(int(p["vmax"] is not None))]
    return Case("C07.data", p, line, nontrivial=True, tags=tags)


def from_payload(stream, payload):
    return {"C07.read": mk_read, "C07.apply": mk_apply, "C07.dtype": mk_dtype, "C07.data": mk_data}[stream](payload)


# ---------------------------------------------------------------- files
_scratch = None
_scratch_pid = None
_files = {}


def scratch():
    """Scratch directory: one for the main process (removed at exit); a forked worker uses
    its own sub-directory and its own file cache (it must not evict the parent's files)."""
    global _scratch, _scratch_pid
    pid = os.getpid()
    if _scratch is None:
        _scratch = tempfile.mkdtemp(prefix="verif_c07_")
        _scratch_pid = pid
        atexit.register(shutil.rmtree, _scratch, True)
    elif _scratch_pid != pid:
        _scratch = os.path.join(_scratch, f"w{pid}")
        os.makedirs(_scratch, exist_ok=True)
        _scratch_pid = pid
        _files.clear()
    return _scratch


def np_values(dt, xs):
    if is_str(dt):
        return list(xs)
    out = np.empty(len(xs), dtype=dt)
    for i, x in enumerate(xs):
        out[i] = np.nan if x == "nan" else x
    return out


def attr_value(a):
    if "text" in a:
        return a["text"]
    if a["dt"] == "S1":
        return np.array(a["v"][0].encode(), dtype="S1")
    arr = np_values(a["dt"], a["v"])
    return arr[0] if len(arr) == 1 else arr


def write_var(ds, name, var, dims, extra=None):
    dt = var["dt"]
    kw = {}
    fv = var["attrs"].get("_FillValue")
    if fv is not None:
        kw["fill_value"] = fv["v"][0].encode() if dt == "S1" else np_values(dt, fv["v"])[0]
    if dt == "S1":
        if "strlen1" not in ds.dimensions:
            ds.createDimension("strlen1", 1)
        v = ds.createVariable(name, "S1", tuple(dims) + ("strlen1",), **kw)
    elif dt == "str":
        v = ds.createVariable(name, str, tuple(dims))
    else:
        v = ds.createVariable(name, dt, tuple(dims), **kw)
    v.set_auto_maskandscale(False)
    for k in ALL_ATTRS:
        a = var["attrs"].get(k)
        if a is not None and k != "_FillValue":
            v.setncattr(k, attr_value(a))
    if var["uns"]:
        v.setncattr("_Unsigned", var["uns"])
    for k, x in (extra or {}).items():
        v.setncattr(k, x)
    shape = tuple(len(ds.dimensions[d]) for d in dims)
    if dt == "str":
        arr = np.array(var["data"], dtype=object).reshape(shape)
        v[...] = arr
    elif dt == "S1":
        v[...] = np.array([x.encode() for x in var["data"]], dtype="S1").reshape(shape + (1,))
    else:
        v[...] = np_values(dt, var["data"]).reshape(shape)
    return v


def file_for(key, writer):
    """Cache of written files (a handful are kept, older ones are deleted)."""
    scratch()
    if key in _files and os.path.exists(_files[key]):
        return _files[key]
    if len(_files) > 6:
        for k in list(_files)[:3]:
            try:
                os.remove(_files.pop(k))
            except OSError:
                pass
    import netCDF4
    path = os.path.join(scratch(), f"f{os.getpid()}_{abs(hash(key)) % (1 << 40)}.nc")
    ds = netCDF4.Dataset(path, "w")
    try:
        writer(ds)
    finally:
        ds.close()
    _files[key] = path
    return path


def read_file(p):
    var = p["var"]
    key = "r" + json.dumps(var, sort_keys=True)

    def w(ds):
        if var.get("group"):
            ds = ds.createGroup("g")
        if var.get("scalar"):
            write_var(ds, "v", var, (), dict(long_name="v"))
        else:
            ds.createDimension("x", len(var["data"]))
            write_var(ds, "v", var, ("x",), dict(long_name="v"))
    return file_for(key, w)


def write_layout(ds, n, field, cons):
    """One field variable `v` over x (over (z, x) with a size-1 z when a domain ancillary is wanted) and
    its constructs: x dimension coordinate, a auxiliary coordinate (both optionally with bounds), n field
    ancillary, m cell measure, d domain ancillary (a term of the parametric vertical coordinate z).
    cons: list of (name, main, bounds)."""
    ds.createDimension("x", n)
    ds.createDimension("bnds", 2)
    names = [c[0] for c in cons]
    extra = dict(long_name="v")
    fdims = ("x",)
    if "a" in names:
        extra["coordinates"] = "a"
    if "n" in names:
        extra["ancillary_variables"] = "n"
    if "m" in names:
        extra["cell_measures"] = "area: m"
    if "d" in names:
        ds.createDimension("z", 1)
        fdims = ("z", "x")
        z = ds.createVariable("z", "f8", ("z",))
        z.standard_name = "atmosphere_sigma_coordinate"
        z.formula_terms = "sigma: z ps: d ptop: p0"
        z[...] = [0.5]
        p0 = ds.createVariable("p0", "f8", ())
        p0.long_name = "p0"
        p0[...] = 1.0
    for name, main, bounds in cons:
        ex = dict(long_name=name + "_coord")
        if name == "m":
            ex["units"] = "m2"
        if bounds is not None:
            ex["bounds"] = name + "_bnds"
            write_var(ds, name + "_bnds", bounds, ("x", "bnds"))
        write_var(ds, name, main, ("x",), ex)
    write_var(ds, "v", field, fdims, extra)


def apply_file(p):
    key = "a" + json.dumps([p["field"], p["cons"]], sort_keys=True)

    def w(ds):
        write_layout(ds, len(p["field"]["data"]), p["field"], [(c["name"], c["main"], c["bounds"]) for c in p["cons"]])
    return file_for(key, w)


def dtype_file(p):
    key = "d" + json.dumps(p["vars"], sort_keys=True)

    def w(ds):
        byname = {v["name"]: v for v in p["vars"]}
        cons = [(v["name"], v, byname.get(v["name"] + "_bnds")) for v in p["vars"] if v["role"] not in ("field", "bounds")]
        write_layout(ds, 3, byname["v"], cons)
    return file_for(key, w)


# ---------------------------------------------------------------- canonical form
def canon_elem(x, m):
    if m:
        return "--"
    if isinstance(x, (bytes, np.bytes_)):
        x = x.decode()
    if isinstance(x, (str, np.str_)):
        x = str(x)
        if len(x) > 1:
            return "s:" + x
        return str(ord(x)) if x else "0"
    if isinstance(x, (float, np.floating)):
        if np.isnan(x):
            return "nan"
        if np.isinf(x):
            return "inf" if x > 0 else "-inf"
        return str(int(x)) if float(x).is_integer() else "x" + repr(float(x))
    return str(int(x))


def canon_array(a):
    a = np.ma.asanyarray(a)
    m = np.ma.getmaskarray(a).flatten().tolist()
    d = np.ma.getdata(a).flatten().tolist() if a.dtype.kind in "OSU" else list(np.ma.getdata(a).flatten())
    return "[" + ",".join(canon_elem(x, mm) for x, mm in zip(d, m)) + "]"


def py_index(ix):
    if ix is None:
        return slice(None)
    if "s" in ix:
        return slice(*ix["s"])
    return list(ix["l"])


# ---------------------------------------------------------------- implementation
def close_leaked():
    """cfdm.read leaves its datasets open when it raises; opening the same file again
    with such a handle still alive has crashed the netCDF-C library here, so close them."""
    import gc
    import netCDF4
    gc.collect()
    for o in gc.get_objects():
        try:
            if isinstance(o, netCDF4.Dataset) and o.isopen():
                o.close()
        except Exception:
            pass
    try:
        import h5py
        for o in gc.get_objects():
            try:
                if isinstance(o, h5py.File) and o.id.valid:
                    o.close()
            except Exception:
                pass
    except ImportError:
        pass


def impl(c):
    C = cfdm()
    p = c.payload
    if c.stream == "C07.read":
        path = read_file(p)
        try:
            fs = C.read(path, mask=p["mask"], unpack=p["unpack"], netcdf_backend=p["backend"])
            f = [g for g in fs if g.nc_get_variable() in ("v", "/g/v")][0]
            if p["route"] == "data":
                a = f.data.array if p["ix"] is None else f.data[py_index(p["ix"])].array
            elif p["var"].get("scalar"):
                a = f.data.source()[...]
            else:
                a = f.data.source()[(py_index(p["ix"]),)]
        except Exception as e:
            c.extra = dict(exc=repr(e)[:300])
            out = "raised:" + fw.exc_enum(e)
            e = None
            close_leaked()
            return out
        kind = "ma" if np.ma.isMA(a) else "nd"
        c.extra = dict(dtype=str(a.dtype), mask=np.ma.getmaskarray(a).astype(int).flatten().tolist(), arr=a)
        return f"kind={kind} vals={canon_array(a)}"
    if c.stream == "C07.apply":
        path = apply_file(p)
        c.extra = {}
        try:
            # cfdm's own masked read: what apply_masking has to reproduce (the oracle uses it
            # only where the reference library cannot read the file)
            m = [g for g in C.read(path, mask=True, unpack=p["unpack"], netcdf_backend=p["backend"])
                 if g.nc_get_variable() == "v"][0]
            c.extra["masked"] = state(m, p)
        except Exception as e:
            e = None
            close_leaked()
        try:
            r = [g for g in C.read(path, mask=False, unpack=p["unpack"], netcdf_backend=p["backend"])
                 if g.nc_get_variable() == "v"][0]
            c.extra["raw"] = state(r, p)
        except Exception as e:
            c.extra.update(exc=repr(e)[:300], where="read")
            out = "raised:" + fw.exc_enum(e)
            e = None
            close_leaked()
            return out
        try:
            if p["inplace"]:
                r.apply_masking(inplace=True)
                g = r
            else:
                g = r.apply_masking()
            out = f"recv={state(r, p)} res={state(g, p)}"
        except Exception as e:
            c.extra.update(exc=repr(e)[:300], where="apply")
            out = "raised:" + fw.exc_enum(e)
            e = None
            close_leaked()
            return out
        return out
    if c.stream == "C07.data":
        val = lambda x: (np.nan if x == "nan" else x)
        a = np.ma.array(np_values(p["dt"], p["arr"]), mask=list(p["mask"])) if any(p["mask"]) else np_values(p["dt"], p["arr"])
        kw = {}
        if p["dfill"] is not None:
            kw["fill_value"] = val(p["dfill"])
        d = C.Data(a, **kw)
        fills = {"N": None, "T": True, "F": False, "X": 5}.get(p["fills"]) if isinstance(p["fills"], str) else [val(x) for x in p["fills"]]
        if p["fills"] == "X" and len(p["arr"]) % 2:
            fills = "ab"
        args = dict(fill_values=fills, valid_min=p["vmin"], valid_max=p["vmax"], valid_range=p["vr"])
        try:
            if p["inplace"]:
                d.apply_masking(inplace=True, **args)
                e = d
            else:
                e = d.apply_masking(**args)
            return f"recv={canon_array(d.array)} res={canon_array(e.array)}"
        except Exception as ex:
            c.extra = dict(exc=repr(ex)[:300])
            return "raised:" + fw.exc_enum(ex)
    if c.stream == "C07.dtype":
        path = dtype_file(p)
        c.extra = {}
        try:
            fs = C.read(path, unpack=p["unpack"], netcdf_backend=p["backend"])
            f = [g for g in fs if g.nc_get_variable() == "v"][0]
            out = []
            for v in p["vars"]:
                if v["role"] == "field":
                    obj = f
                elif v["role"] == "bounds":
                    obj = construct_by_ncvar(f, v["name"][:-5]).bounds
                else:
                    obj = construct_by_ncvar(f, v["name"])
                d = obj.data
                acc = p["access"]
                if acc == "con":
                    adv, got = [obj.dtype], [obj.array.dtype]
                else:
                    adv = [d.dtype]   # before anything is fetched
                    if acc == "array":
                        got = [d.array.dtype]
                    elif acc == "sub":
                        e = d[(slice(0, 1),) * d.ndim]
                        got = [e.dtype, e.array.dtype]
                    else:
                        m = d.to_memory()
                        got = [m.dtype, m.array.dtype]
                    adv.append(d.dtype)   # ... and afterwards
                out.append("~".join(sorted({dcode(x) for x in adv})) + "/" + "~".join(sorted({dcode(x) for x in got})))
            return "|".join(out)
        except fw.HarnessError:
            raise
        except Exception as e:
            c.extra = dict(exc=repr(e)[:300])
            out = "raised:" + fw.exc_enum(e)
            e = None
            close_leaked()
            return out
    raise fw.HarnessError("unknown stream " + c.stream)


def dcode(dt):
    dt = np.dtype(dt)
    return dt.str[1:] if dt.kind in "iuf" else str(dt)


def construct_by_ncvar(f, name):
    for k, con in f.constructs.filter_by_data(todict=True).items():
        if con.nc_get_variable(None) == name:
            return con
    raise fw.HarnessError(f"construct for netCDF variable {name} not found")


def raw_array(x):
    """The data of a construct without the Data-level fill-value decoration."""
    return x.get_data(_fill_value=False).array


def state(f, p):
    parts = [canon_array(raw_array(f))]
    for c in p["cons"]:
        con = construct_by_ncvar(f, c["name"])
        s = canon_array(raw_array(con))
        s += "/" + (canon_array(raw_array(con.bounds)) if c["bounds"] is not None else "-")
        parts.append(s)
    return "|".join(parts)


# ---------------------------------------------------------------- agreement with the model
def _vals(s):
    return s[s.index("vals=[") + 6:-1].split(",") if "vals=[" in s else None


def agree(c):
    if c.impl_out == c.model_out:
        return True
    if c.stream == "C07.dtype":
        # the model line carries advertised/delivered/reference; the implementation the first two
        return c.impl_out == "|".join("/".join(x.split("/")[:2]) for x in str(c.model_out).split("|"))
    if c.stream == "C07.read" and c.impl_out.startswith("kind=") and c.model_out.startswith("kind="):
        # integer overflow / rounding in numpy's unpacking arithmetic is outside the model
        # (exact integers): where it occurs for this variable only the kind and the mask
        # pattern are compared, the values are left to the netCDF4 oracle
        p = c.payload
        if not (p["unpack"] and not unpack_exact(p["var"])):
            return False
        iv, mv = _vals(c.impl_out), _vals(c.model_out)
        if c.impl_out.split(" ")[0] != c.model_out.split(" ")[0] or len(iv) != len(mv):
            return False
        return all((a == "--") == (b == "--") for a, b in zip(iv, mv))
    return False


# ---------------------------------------------------------------- oracle (netCDF4 only)
def ref_read(path, name, mask, scale, index=None, strdt=None, group=False):
    import netCDF4
    ds = netCDF4.Dataset(path)
    try:
        v = (ds.groups["g"] if group else ds).variables[name]
        v.set_auto_mask(bool(mask))
        v.set_auto_scale(bool(scale))
        v.set_always_mask(False)
        a = v[...] if index is None else v[index]
        if isinstance(a, str):
            a = np.array(a)   # a 0-d variable-length string variable
        if v.dtype == "S1" and a.ndim >= 1 and v.dimensions[-1] == "strlen1":
            m = np.ma.getmaskarray(a).any(axis=-1)
            d = np.array([b"".join(row).decode() for row in np.ma.getdata(a).reshape(-1, a.shape[-1])],
                         dtype="U1").reshape(a.shape[:-1])
            a = np.ma.array(d, mask=m) if np.ma.isMA(a) else d
        return a
    finally:
        ds.close()


def same_values(a, b):
    """Unmasked elements identical (NaN equals NaN), masks identical."""
    a = np.ma.asanyarray(a)
    b = np.ma.asanyarray(b)
    if a.shape != b.shape:
        return f"shape {a.shape} != {b.shape}"
    ma, mb = np.ma.getmaskarray(a), np.ma.getmaskarray(b)
    if (ma != mb).any():
        return f"mask {ma.astype(int).tolist()} != reference {mb.astype(int).tolist()}"
    da, db = np.ma.getdata(a), np.ma.getdata(b)
    for x, y, m in zip(da.flatten().tolist(), db.flatten().tolist(), ma.flatten().tolist()):
        if m:
            continue
        if isinstance(x, bytes):
            x = x.decode()
        if isinstance(y, bytes):
            y = y.decode()
        if isinstance(x, float) and isinstance(y, float) and np.isnan(x) and np.isnan(y):
            continue
        if x != y:
            return f"value {x!r} != reference {y!r}"
    return None


def oracle(c):
    p = c.payload
    if c.stream == "C07.read":
        path = read_file(p)
        idx = None if p["ix"] is None else (py_index(p["ix"]),)
        try:
            ref = ref_read(path, "v", p["mask"], p["unpack"], idx, group=bool(p["var"].get("group")))
        except Exception as e:
            # the reference library itself cannot read this configuration (e.g. netCDF4 1.7
            # under numpy 2 fails to build the masked array of an _Unsigned variable): it
            # prescribes nothing, the comparison with the model is all there is - except that
            # an exception out of cfdm is still not a read
            if c.impl_out.startswith("raised:"):
                return (f"cfdm {c.impl_out} ({(c.extra or {}).get('exc')}); the reference library fails on this "
                        f"variable too ({repr(e)[:80]}), the model prescribes {c.model_out}")
            return None
        if c.impl_out.startswith("raised:"):
            return f"cfdm {c.impl_out} ({(c.extra or {}).get('exc') if isinstance(c.extra, dict) else ''}); reference reads {canon_array(ref)}"
        a = c.extra["arr"]
        d = same_values(a, ref)
        if d:
            return d
        rk = "ma" if np.ma.isMA(ref) else "nd"
        ik = "ma" if np.ma.isMA(a) else "nd"
        if rk != ik:
            return f"result kind {ik} != reference {rk}"
        rd, idt = ref.dtype, a.dtype
        if p["var"]["dt"] in ("S1", "str"):
            if idt.kind != "U" and not (np.ndim(a) == 0 and np.ma.is_masked(a) and np.ma.is_masked(ref)):
                # (a missing 0-d value is numpy's float64 masked constant, which has no string type)
                return f"dtype {idt} is not a unicode string type"
        elif rd != idt:
            return f"dtype {idt} != reference {rd}"
        return None
    if c.stream == "C07.apply":
        path = apply_file(p)
        names = [("v", p["field"])]
        for con in p["cons"]:
            names.append((con["name"], con["main"]))
            if con["bounds"] is not None:
                names.append((con["name"] + "_bnds", con["bounds"]))
        def st(arrs):
            it = iter(arrs)
            parts = [next(it)]
            for con in p["cons"]:
                s = next(it)
                s += "/" + (next(it) if con["bounds"] is not None else "-")
                parts.append(s)
            return "|".join(parts)
        try:
            want_res = st([canon_array(ref_read(path, nm, True, p["unpack"])) for nm, _ in names])
            want_raw = st([canon_array(ref_read(path, nm, False, p["unpack"])) for nm, _ in names])
        except Exception:
            # the reference cannot read this file: the masked read to reproduce is cfdm's own
            want_res = c.extra.get("masked")
            want_raw = c.extra.get("raw")
            if c.impl_out.startswith("raised:"):
                return (f"cfdm {c.impl_out} in {c.extra.get('where')} ({c.extra.get('exc')}); the reference library "
                        f"cannot read this file, cfdm's own masked read is {want_res}")
            if want_res is None or want_raw is None:
                return None
        want_recv = want_res if p["inplace"] else want_raw
        if c.impl_out.startswith("raised:"):
            return f"cfdm {c.impl_out} in {c.extra.get('where')} ({c.extra.get('exc')}); masked read is {want_res}"
        got_recv, got_res = c.impl_out.split(" ")
        got_recv, got_res = got_recv[5:], got_res[4:]
        if not p["inplace"] and p["cons"] and got_res != want_res:
            wm, wr = want_res.split("|"), want_raw.split("|")
            if got_res == "|".join(wm[:1] + wr[1:]) and got_recv == "|".join(wr[:1] + wm[1:]):
                return (f"copy-swap: the returned copy has the masked field data but unmasked constructs {got_res}; "
                        f"the receiver's constructs were masked instead {got_recv}")
        if got_res != want_res:
            return f"apply_masking gives {got_res}, the masked read is {want_res}"
        if got_recv != want_recv:
            return f"receiver afterwards {got_recv}, expected {want_recv}"
        return None
    if c.stream == "C07.data":
        # independent elementwise restatement, in Python
        def show(xs):
            return "[" + ",".join("--" if x is None else ("nan" if x == "nan" else str(x)) for x in xs) + "]"
        before = [None if m else x for x, m in zip(p["arr"], p["mask"])]
        vmin, vmax, vr = p["vmin"], p["vmax"], p["vr"]
        want = None
        if vr is not None and (vmin is not None or vmax is not None or len(vr) != 2):
            want = "raised:ValueError"
        elif p["fills"] == "X":
            want = "raised:TypeError"
        else:
            if vr is not None:
                vmin, vmax = vr
            fl = {"N": [], "F": [], "T": [] if p["dfill"] is None else [p["dfill"]]}.get(p["fills"]) if isinstance(p["fills"], str) else p["fills"]
            after = []
            for x in before:
                if x is None:
                    after.append(None)
                elif x == "nan":
                    after.append(None if "nan" in fl else "nan")
                else:
                    gone = x in [f for f in fl if f != "nan"] or (vmin is not None and x < vmin) or (vmax is not None and x > vmax)
                    after.append(None if gone else x)
            want = f"recv={show(after if p['inplace'] else before)} res={show(after)}"
        if c.impl_out != want:
            return f"Data.apply_masking gives {c.impl_out} ({(c.extra or {}).get('exc', '') if isinstance(c.extra, dict) else ''}), expected {want}"
        return None
    if c.stream == "C07.dtype":
        path = dtype_file(p)
        if c.impl_out.startswith("raised:"):
            return f"cfdm {c.impl_out} ({(c.extra or {}).get('exc') if isinstance(c.extra, dict) else ''})"
        bad = []
        mrefs = [x.split("/")[2] for x in str(c.model_out).split("|")] if c.model_out and "/" in str(c.model_out) else None
        for i, (v, o) in enumerate(zip(p["vars"], c.impl_out.split("|"))):
            adv, got = o.split("/")
            if adv != got:
                # what is announced before the data are fetched is not what is delivered
                bad.append(f"{v['name']}:advertised:{adv}!={got}")
            try:
                ref = dcode(ref_read(path, v["name"], True, p["unpack"]).dtype)
            except Exception:
                continue   # the reference library cannot read this variable: it prescribes nothing
            if got != ref:
                bad.append(f"{v['name']}:reference:{got}!={ref}")
            if mrefs is not None and mrefs[i] != ref:
                bad.append(f"{v['name']}:model-reference:{mrefs[i]}!={ref}")
        if bad:
            return "dtype " + ";".join(bad)
        return None
    return None


# ---------------------------------------------------------------- findings
def classify(c):
    """Signature of a known finding, from the failing input (and, where the input alone
    would be too broad, the kind of failure).  Failures that no known finding explains are
    grouped by stream and kind of failure (`unexplained:…`, never listed as known)."""
    sig = classify_known(c)
    if sig:
        return sig
    why = str(c.oracle_fail or "")
    kind = "raised" if str(c.impl_out).startswith("raised:") else (why.split(" ")[0].rstrip(":") or "model")
    return f"unexplained:{c.stream}:{kind}"


def classify_known(c):
    p = c.payload
    out = str(c.impl_out)
    raised = out.startswith("raised:")
    why = str(c.oracle_fail or "")
    if c.stream == "C07.read":
        var = p["var"]
        dt, A = var["dt"], var["attrs"]
        sel = [var["data"][i] for i in positions(p["ix"], len(var["data"]))]
        mv = A.get("missing_value")
        if raised:
            if dt == "str" and not p["mask"] and out in ("raised:AttributeError", "raised:KeyError"):
                return "read-mask-false-string-variable-raises"
            if text_scale(var) and out == "raised:TypeError":
                return "read-text-scale-factor-or-add-offset-raises"
            if p["route"] == "data" and mv is not None and (vector_mv(var) or ("text" in mv and not is_str(dt))) \
                    and out in ("raised:ValueError", "raised:TypeError"):
                return "data-array-raises-missing-value-unusable-as-fill-value"
            if var.get("scalar") and p["route"] == "data" and p["mask"] and (
                    (p["backend"] == "h5netcdf" and out == "raised:AttributeError")
                    or (is_str(dt) and out == "raised:TypeError")):
                # the masked constant: not writeable (h5netcdf), or float64 with a text fill value (both)
                return "scalar-missing-value-data-array-raises"
            return None
        # (open signatures are tried before those of repaired defects: a case that belongs to an open finding
        # must not be taken over by the signature of a fixed one, which suppresses nothing)
        if p["unpack"] and trivial_single(var) and (why.startswith("dtype") or why.startswith("value")):
            return "unpack-neutral-single-scale-or-offset-casts-to-attribute-dtype"
        if uns_true(var) and p["unpack"] and dt[0] == "f":
            return "unsigned-view-of-non-integer-data"
        if why.startswith("mask"):
            if is_str(dt) and p["backend"] == "h5netcdf" and p["mask"] and mv is not None and "text" in mv \
                    and mv["text"] in sel:
                return "h5netcdf-string-missing-value-applied"
            if dt == "str" and p["mask"] and "" in sel:
                return "vlen-string-empty-string-masked"
            if uns_true(var) and p["unpack"] and p["mask"] and dt[0] == "i" and "_FillValue" not in A \
                    and DEFAULT_FILL[dt] in sel:
                return "unsigned-view-default-fill-value-reinterpreted"
        return None
    if c.stream == "C07.dtype":
        if raised:
            # (every variable of the file is a candidate data variable, so any of them raises)
            if any(text_scale(v) for v in p["vars"]) and out == "raised:TypeError":
                return "read-text-scale-factor-or-add-offset-raises"
            return None
        if not why.startswith("dtype "):
            return None
        byname = {v["name"]: v for v in p["vars"]}
        kinds = set()
        for item in why[6:].split(";"):
            name, kind, rest = item.split(":")
            v = byname[name]
            a, b = rest.split("!=")
            if kind == "advertised" and a == head_advertised(v, p["unpack"]):
                # exactly what the reader without fixes/C07-unpacked-dtype.patch announces
                kinds.add("advertised")
            elif kind == "reference" and p["unpack"] and trivial_single(v) and b == dcode(viewed_dtype(v)):
                kinds.add("reference")
            else:
                return None
        if "advertised" in kinds:
            return "data-dtype-advertised-differs-from-delivered"
        return "unpack-neutral-single-scale-or-offset-casts-to-attribute-dtype"
    if c.stream == "C07.apply":
        allv = apply_vars(p)
        if raised and "in read" in why:
            if any(v["dt"] == "str" for _, v in allv) and out in ("raised:AttributeError", "raised:KeyError"):
                return "read-mask-false-string-variable-raises"
            if any(text_scale(v) for _, v in allv) and out == "raised:TypeError":
                return "read-text-scale-factor-or-add-offset-raises"
            return None
        if any(has_unsafe(v) or str_valid(v) for _, v in allv):
            return "apply-masking-attribute-not-safely-castable"
        if any(range_conflict(v) for _, v in allv):
            return "apply-masking-valid-range-with-valid-min-max-or-wrong-size"
        if any(transformed(v, p["unpack"]) for _, v in allv):
            return "apply-masking-after-unpacking-read"
        if any(con["bounds"] is not None and inherits(con["bounds"], con["main"]) for con in p["cons"]):
            return "apply-masking-bounds-inherit-parent-attributes"
        if any(v["dt"] == "str" and "" in v["data"] for _, v in allv) and not raised:
            return "vlen-string-empty-string-masked"
        if any(vector_mv(v) for _, v in allv):
            # last of the input-keyed findings: the proposed patch removes it, the others stay
            return "apply-masking-vector-missing-value"
        if why.startswith("copy-swap:"):
            return "field-apply-masking-copy-masks-receiver-constructs"
        if any(nan_fill(v) for _, v in allv) and not raised:
            return "apply-masking-nan-fill-value"
        return None
    return None


# ---------------------------------------------------------------- shrinking
def _still_fails(stream, payload, sig):
    c2 = from_payload(stream, payload)
    try:
        c2.impl_out = impl(c2)
        c2.oracle_fail = oracle(c2)
    except Exception:
        if os.environ.get("C07_DEBUG"):
            import traceback
            traceback.print_exc()
        return None
    if os.environ.get("C07_DEBUG"):
        print("shrink try", payload.get("ix"), c2.impl_out, c2.oracle_fail, classify(c2), sig)
    if c2.oracle_fail and classify(c2) == sig:
        if c2.line is not None:
            try:
                c2.model_out = fw.model_run([c2.line])[0]
            except Exception:
                pass
        return c2
    return None


def shrink(c, run):
    """Greedy reduction: a single selected element, then attributes / constructs dropped
    one at a time, keeping the same failure signature."""
    import copy
    if not c.oracle_fail:
        return None
    sig = classify(c)
    best = c
    p = copy.deepcopy(c.payload)
    if c.stream == "C07.read":
        n = len(p["var"]["data"])
        for i in ([] if p["var"].get("scalar") else positions(p["ix"], n)):
            q = dict(copy.deepcopy(p), ix=dict(l=[i]))
            r = _still_fails(c.stream, q, sig)
            if r is not None:
                best, p = r, q
                break
        for k in list(p["var"]["attrs"]) + ["uns"]:
            q = copy.deepcopy(p)
            if k == "uns":
                if not q["var"]["uns"]:
                    continue
                q["var"]["uns"] = None
            else:
                del q["var"]["attrs"][k]
            r = _still_fails(c.stream, q, sig)
            if r is not None:
                best, p = r, q
    elif c.stream == "C07.apply":
        for j in reversed(range(len(p["cons"]))):
            q = copy.deepcopy(p)
            del q["cons"][j]
            r = _still_fails(c.stream, q, sig)
            if r is not None:
                best, p = r, q
        for j in range(len(p["cons"])):
            if p["cons"][j]["bounds"] is not None:
                q = copy.deepcopy(p)
                q["cons"][j]["bounds"] = None
                r = _still_fails(c.stream, q, sig)
                if r is not None:
                    best, p = r, q
        def vars_of(q):
            out = [q["field"]]
            for con in q["cons"]:
                out.append(con["main"])
                if con["bounds"] is not None:
                    out.append(con["bounds"])
            return out
        for vi in range(len(vars_of(p))):
            for k in list(vars_of(p)[vi]["attrs"]):
                q = copy.deepcopy(p)
                del vars_of(q)[vi]["attrs"][k]
                r = _still_fails(c.stream, q, sig)
                if r is not None:
                    best, p = r, q
    return best if best is not c else None
