"""C01 — write then read returns the same field or domain construct.

Streams (one generated construct f x one option set gives one case of each)
  C01.write  abstract(f) + structural options -> model `writeField`
             vs abstract(file written by cfdm.write, opened with netCDF4 ONLY)
  C01.read   abstract(that file, netCDF4 only) -> model `readFile`
             vs abstract(cfdm.read(file))
  oracle     (every case of both streams' parent) cfdm.read(cfdm.write(f)) yields exactly one
             construct, `equals` both ways, structural fingerprint (harness/fingerprint.py,
             independent of equals) equal incl. data values, masks, dtypes, axis->construct
             mapping, and every netCDF variable / dimension name that had been set and that
             CF-netCDF can hold is found again on the corresponding component.

Names pinned on the input are compared literally, all other names up to a consistent bijection;
construct keys are compared up to a bijection; `coordinates`/`cell_measures`/
`ancillary_variables` tokens as multisets, `cell_methods` as a sequence.
"""
import atexit
import hashlib
import itertools
import json
import os
import re
import shutil
import tempfile

import numpy as np

from .. import fw
from .. import fingerprint as FP
from ..fw import Case
from ..gen import fields_C01 as GEN

REQUIRED = [
    "C01_roundtripB_partial",
    "C01_roundtrip_partial",
    "C01_names_keptB_partial",
    "accepts_spec",
    "acceptsB_spec",
    "C01_numeric_scalar_aux_counterexample",
    "C01_inserted_axis_counterexample",
    "C01_pinned_name_counterexample",
    "C01_old_inserted_axis_counterexample",
    "C01_old_eq_new_on_wf",
    "C01_cell_methods_parse_write",
    "C01_cell_methods_old_code_counterexample",
    "C01_dan_bounds_counterexample",
    "C01_vertical_datum_gm_old_code_counterexample",
]
BUDGET = {"quick": 1600, "thorough": 24000}
RULE = (
    "fields/domains from the seeded generator (harness/gen/fields.py + fields_C01.py): 0-4 data axes incl. size-1 and "
    "unlimited, extra size-1 axes, dimension / auxiliary (N-d, string, scalar) coordinates, bounds, climatology, cell "
    "measures (also external), field ancillaries, cell methods (every combination of within / where / over, intervals "
    "with and without units, comments), grid mappings (one or two, with equal / different / no datum), parametric vertical "
    "coordinates with N-d domain ancillaries with and without bounds in every axis order, coordinate references in every "
    "insertion order, ragged compression, domains, example fields 0-7; x options (6 formats, string, compress 0-9, shuffle, fletcher32, endian, "
    "coordinates, hdf5_chunks, external file; `scalar` is not a parameter of cfdm.write, it is an input of the model "
    "only). non-trivial = the construct has at least one metadata construct or cell method; distinct = distinct "
    "(stream, generator spec, options)"
)
ASSUMPTIONS = [
    "array contents are compared by identity (hash of dtype, values, mask); storage options, data types and bytes on "
    "disk are covered by the oracle on every case, not by the model",
    "the model covers fields with dimension/auxiliary coordinates, bounds, cell measures, field ancillaries, cell "
    "methods (the cell_methods attribute word by word), domain ancillaries and coordinate references (grid_mapping and "
    "formula_terms attributes incl. the bounds variable's, datums, computed_standard_name); domains, compression, "
    "geometries, non-name parameters of a formula-terms reference, two equal grid mappings, masked string data and "
    "constructs sharing one netCDF variable (other than a domain ancillary equal to a coordinate) are compared by the "
    "oracle only (tag outside-model)",
    "the round-trip theorem covers the class WFFieldB (decidable; the driver's C01.class sub-command reports membership) "
    "with NoSharedDan; outside it the model has no authority and the oracle alone decides",
    "netCDF names contain no '/' (groups are C11's) and only characters from [A-Za-z0-9_.- ]",
    "constructs that give a 0-d string variable next to another 0-d variable are written with string=False: such a "
    "NETCDF4 file with 0-d variable-length strings can crash netCDF4-python/HDF5 (segmentation fault, reproduced with "
    "netCDF4 alone) when it is re-opened repeatedly, which is what cfdm.read does for scalar coordinate variables",
]
TIME_LIMIT = {"quick": 170, "thorough": 1400}
QUICK_JOBS = 8

_cfdm = None


def cfdm():
    global _cfdm
    if _cfdm is None:
        import cfdm as m
        m.log_level("DISABLE")
        _cfdm = m
    return _cfdm


_scratch = None


def _tables_text():
    """lean/Cfdm/Generated/CoordRefTables.lean from NetCDFRead.cf_coordinate_reference_coordinates /
    cf_datum_parameters of the cfdm under test (static tables: the tie is regeneration)."""
    from cfdm.read_write.netcdf import NetCDFRead
    r = NetCDFRead(cfdm().implementation())
    table = r.cf_coordinate_reference_coordinates()
    datum = r.cf_datum_parameters()
    q = lambda x: json.dumps(str(x))
    rows = ",\n   ".join("(" + q(k) + ", [" + ", ".join(q(x) for x in v) + "])" for k, v in table.items())
    return (
        "/- GENERATED by harness/corr/C01.py:pre() from /repo/cfdm/read_write/netcdf/netcdfread.py\n"
        "   (NetCDFRead.cf_coordinate_reference_coordinates, NetCDFRead.cf_datum_parameters).  Do not edit. -/\n"
        "namespace Cfdm.Generated\n\n"
        "/-- canonical name of a coordinate reference -> standard names of the coordinates it applies to. -/\n"
        "def coordRefCoordinates : List (String × List String) :=\n  [" + rows + "]\n\n"
        "/-- Datum-defining parameter names. -/\n"
        "def datumParameters : List String :=\n  [" + ", ".join(q(x) for x in datum) + "]\n\n"
        "end Cfdm.Generated\n"
    )


def pre():
    scratch()
    fw.write_if_changed(fw.LEAN / "Cfdm" / "Generated" / "CoordRefTables.lean", _tables_text())


def scratch():
    global _scratch
    if _scratch is None or not os.path.isdir(_scratch):
        _scratch = tempfile.mkdtemp(prefix="verif_c01_")
        atexit.register(shutil.rmtree, _scratch, True)
    return _scratch


_counter = [0]


def tmpfile(tag):
    _counter[0] += 1
    return os.path.join(scratch(), f"{tag}_{os.getpid()}_{_counter[0]}.nc")


# --------------------------------------------------------------------------
# tokens
# --------------------------------------------------------------------------
SAFE = re.compile(r"^[A-Za-z0-9_.\- ]+$")
RESERVED = {"bounds", "climatology", "coordinates", "cell_measures", "ancillary_variables", "cell_methods",
            "formula_terms", "grid_mapping", "geometry", "nodes", "node_count", "part_node_count", "interior_ring",
            "compress", "sample_dimension", "instance_dimension", "dimensions", "external_variables",
            "coordinate_interpolation", "bounds_tie_points", "mesh", "location", "location_index_set",
            "add_offset", "scale_factor", "featureType", "Conventions"}


def _h(s):
    return hashlib.sha1(s.encode()).hexdigest()[:12]


def enc(s):
    """A name in the protocol: blanks as '·'; anything outside the safe set makes the case
    'outside' (returned as None)."""
    if s is None:
        return "_"
    if not SAFE.match(s) or s in ("_", "n"):
        return None
    return s.replace(" ", "·")


def dec(s):
    return None if s == "_" else s.replace("·", " ")


def norm_val(v):
    """Canonical form of a property / attribute value: what netCDF can hold.
    numeric scalars by value, size-1 arrays as scalars, arrays with dtype kind and values."""
    if isinstance(v, bytes):
        v = v.decode()
    if isinstance(v, str):
        return ["s", v]
    if isinstance(v, (bool, np.bool_)):
        return ["n", float(v)]
    if isinstance(v, (int, float, np.integer, np.floating)):
        x = float(v)
        return ["n", "nan" if x != x else x]
    if type(v).__name__ == "Data":
        return ["d", norm_val(v.array), str(v.get_units(None))]
    a = np.asarray(v)
    if a.dtype.kind in "SUO":
        if a.size == 1:
            return ["s", str(a.reshape(-1)[0])]
        return ["sa", [str(x) for x in a.reshape(-1)]]
    if a.size == 1:
        return norm_val(a.reshape(-1)[0].item())
    return ["a", a.dtype.kind, [float(x) for x in a.reshape(-1)]]


def tok(v):
    return "v" + _h(json.dumps(norm_val(v), sort_keys=True))


def data_id(a):
    """Identity of an array's contents: dtype, values where not masked, mask — not the shape
    (the shape follows from the dimensions spanned)."""
    a = np.ma.asanyarray(a)
    mask = np.ma.getmaskarray(a).reshape(-1)
    data = np.ma.getdata(a).reshape(-1)
    if data.dtype.kind in "SUO":
        vals = ["" if m else str(x) for x, m in zip(data.tolist(), mask.tolist())]
        body = "str|" + "\x00".join(vals)
        is_str = True
    else:
        filled = np.where(mask, np.zeros((), dtype=data.dtype), data)
        body = f"{data.dtype.kind}{data.dtype.itemsize}|" + hashlib.sha1(np.ascontiguousarray(filled).tobytes()).hexdigest()
        is_str = False
    body += "|" + hashlib.sha1(np.ascontiguousarray(mask).tobytes()).hexdigest()
    return int(hashlib.sha1(body.encode()).hexdigest()[:12], 16), is_str


def mix_id(d, n):
    """The identity of a bounds array includes the size of its trailing dimension (the model
    carries no shapes: MBounds.nverts is an input of the writer only)."""
    if d is None:
        return None
    return int(hashlib.sha1(f"{d[0]}|{n}".encode()).hexdigest()[:12], 16), d[1]


LITERAL_PROPS = ("standard_name", "grid_mapping_name")


def ptok(k, v):
    """Token of a property value; `standard_name` is kept literally (it is the default netCDF
    variable name), and so is `grid_mapping_name` (the reader looks it up in a table)."""
    if k in LITERAL_PROPS and isinstance(v, str) and SAFE.match(v) and v not in ("_", "n"):
        return v.replace(" ", "·")
    return tok(v)


def pct(s):
    """Percent-encoding of an arbitrary word (cell method words and qualifier values)."""
    out = []
    for ch in s:
        if ch.isascii() and (ch.isalnum() or ch in "_.-"):
            out.append(ch)
        elif ord(ch) < 256:
            out.append("%%%02X" % ord(ch))
        else:
            raise Outside("non-latin-1-word")
    return "".join(out)


def unpct(s):
    return re.sub(r"%([0-9A-Fa-f]{2})", lambda m: chr(int(m.group(1), 16)), s)


def props_tokens(p):
    return {str(k): ptok(str(k), v) for k, v in p.items()}


class Outside(Exception):
    pass


def _name(s):
    e = enc(s)
    if e is None:
        raise Outside("unsafe-name")
    return e


def show_props(p):
    if not p:
        return "_"
    return "|".join(f"{_name(k)}~{p[k]}" for k in sorted(p))


def show_names(l):
    return "n" if not l else "+".join(_name(x) for x in l)


def show_arr(d):
    return "_" if d is None else f"{d[0]}:{int(d[1])}"


# --------------------------------------------------------------------------
# abstraction of live cfdm objects (public accessors only)
# --------------------------------------------------------------------------
CTYPES = {"dimension_coordinate": "dim", "auxiliary_coordinate": "aux", "cell_measure": "msr", "field_ancillary": "fan",
          "domain_ancillary": "dan"}
QUAL_ORDER = ["within", "where", "over", "interval", "comment"]


def abs_cell_method(cm):
    """Qualifier values as the strings `CellMethod.__str__` writes (an interval is `str(Data)`)."""
    quals = []
    q = cm.qualifiers()
    for k in QUAL_ORDER:
        if k not in q:
            continue
        if k == "interval":
            for d in q[k]:
                quals.append(("interval", str(d)))
        else:
            quals.append((k, str(q[k])))
    for k in q:
        if k not in QUAL_ORDER:
            raise Outside("cell-method-qualifier")
    for k, v in quals:
        w = v.split(" ")
        if "" in w or any(re.search(r"[()\s]", x) for x in w) or (k != "comment" and k != "interval" and len(w) != 1) \
                or (k == "interval" and len(w) > 2):
            # not a sequence of words: the string model does not apply
            raise Outside("cell-method-qualifier-words")
    return dict(axes=[str(a) for a in cm.get_axes(())], method=cm.get_method(None), quals=quals)


def abs_data(d):
    if d is None:
        return None
    a = d.array
    if np.ma.is_masked(a) and np.ma.getdata(a).dtype.kind in "SUO":
        # a masked string is written as an empty string, which netCDF4 (the independent reader of
        # the file) does not mask: the identities of the two arrays cannot be compared
        raise Outside("masked-string-data")
    return data_id(a)


def abs_construct(c, axes):
    t = CTYPES.get(c.construct_type)
    if t is None:
        raise Outside("construct-type:" + c.construct_type)
    out = dict(type=t, ncvar=c.nc_get_variable(None), props=props_tokens(c.properties()), axes=list(axes), bounds=None,
               clim=False, measure=None, ext=False)
    d = c.get_data(None)
    if d is not None and d.get_compression_type():
        raise Outside("compressed-construct")
    out["data"] = abs_data(d)
    if t in ("dim", "aux", "dan"):
        if t != "dan" and (c.get_geometry(None) is not None or c.get_interior_ring(None) is not None):
            raise Outside("geometry")
        b = c.get_bounds(None)
        if b is not None:
            bd = b.get_data(None)
            if bd is None:
                raise Outside("bounds-without-data")
            out["bounds"] = dict(ncvar=b.nc_get_variable(None), ncdim=b.nc_get_dimension(None),
                                 data=mix_id(abs_data(bd), int(bd.shape[-1])),
                                 nverts=int(bd.shape[-1]), props=props_tokens(b.properties()))
        try:
            out["clim"] = bool(c.is_climatology()) if t != "dan" else False
        except Exception:
            out["clim"] = False
    if t == "msr":
        out["measure"] = c.get_measure(None)
        out["ext"] = bool(c.nc_get_external())
    return out


def abs_ref(f, r, coord_keys, dan_keys):
    """A coordinate reference; raises Outside for what the model leaves out."""
    cc = r.coordinate_conversion
    params = dict(cc.parameters())
    datum = dict(r.datum.parameters())
    if any(v is None for v in params.values()) or any(v is None for v in datum.values()):
        raise Outside("reference-parameter-none")
    is_ft = bool(params.get("standard_name", False))
    is_gm = bool(params.get("grid_mapping_name", False))
    if is_ft and is_gm:
        raise Outside("reference-both-formula-terms-and-grid-mapping")
    for k in ("standard_name", "grid_mapping_name"):
        if k in params and not (isinstance(params[k], str) and params[k] and SAFE.match(params[k])):
            raise Outside("reference-name-parameter")
    if is_ft and any(k not in ("standard_name", "computed_standard_name") for k in params):
        # written as scalar variables by _write_scalar_data: not modelled
        raise Outside("formula-terms-reference-with-parameters")
    coords = sorted(r.coordinates())
    if any(k not in coord_keys for k in coords):
        raise Outside("reference-coordinate-key-dangling")
    terms = list(cc.domain_ancillaries().items())
    if any(k is not None and k not in dan_keys for _, k in terms):
        raise Outside("reference-term-key-dangling")
    if getattr(r.datum, "nc_get_variable", lambda d=None: None)(None) is not None:
        raise Outside("datum-ncvar")
    return dict(ncvar=r.nc_get_variable(None), coords=coords, params=props_tokens(params), datum=props_tokens(datum),
                terms=[(str(t), k) for t, k in terms])


def abstract_field(f):
    """dict for a Field (raises Outside when the construct is not in the modelled class)."""
    if type(f).__name__ != "Field":
        raise Outside("domain")
    if not f.has_data():
        raise Outside("field-without-data")
    if f.data.get_compression_type():
        raise Outside("compression")
    da = f.constructs.data_axes()
    P = props_tokens(f.properties())
    P.pop("Conventions", None)
    out = dict(nc=f.nc_get_variable(None), P=P, D=abs_data(f.data),
               DA=list(f.get_data_axes()), A=[], C=[], M=[], R=[])
    for k, a in f.domain_axes(todict=True).items():
        if a.get_size(None) is None:
            raise Outside("axis-without-size")
        out["A"].append(dict(key=k, size=int(a.get_size()), ncdim=a.nc_get_dimension(None), unl=bool(a.nc_is_unlimited())))
    for k, c in f.constructs.filter_by_type("dimension_coordinate", "auxiliary_coordinate", "cell_measure", "field_ancillary",
                                             "domain_ancillary", "domain_topology", "cell_connectivity", todict=True).items():
        if k not in da:
            raise Outside("construct-without-axes")
        e = abs_construct(c, da[k])
        e["key"] = k
        out["C"].append(e)
    for k, cm in f.cell_methods(todict=True).items():
        out["M"].append(abs_cell_method(cm))
    coord_keys = set(f.coordinates(todict=True))
    dan_keys = set(f.domain_ancillaries(todict=True))
    refs = f.coordinate_references(todict=True)
    for k, r in refs.items():
        e = abs_ref(f, r, coord_keys, dan_keys)
        e["key"] = k
        out["R"].append(e)
    gms = [json.dumps([e["params"], e["datum"], e["coords"]], sort_keys=True) for e in out["R"] if "grid_mapping_name" in e["params"]]
    if len(set(gms)) != len(gms):
        raise Outside("equal-grid-mappings-share-a-variable")
    used = [k for e in out["R"] for _, k in e["terms"] if k is not None]
    if len(set(used)) != len(used):
        raise Outside("domain-ancillary-used-by-two-terms")
    return out


def show_bounds(b):
    if b is None:
        return "_"
    return "&".join([_name(b["ncvar"]), _name(b["ncdim"]), show_arr(b["data"]), str(b["nverts"]), show_props(b["props"])])


def show_cms(ms):
    if not ms:
        return "n"
    out = []
    for m in ms:
        q = "_" if not m["quals"] else "|".join(f"{k}~{pct(v)}" for k, v in m["quals"])
        out.append("^".join([show_names(m["axes"]), _name(m["method"]), q]))
    return "&".join(out)


def show_terms(ts):
    return "n" if not ts else "+".join(f"{_name(t)}:{_name(k)}" for t, k in ts)


def show_refs(rs):
    return ",".join(";".join([_name(r["key"]), _name(r["ncvar"]), show_names(r["coords"]), show_props(r["params"]),
                              show_props(r["datum"]), show_terms(r["terms"])]) for r in rs)


def field_tokens(a):
    A = ",".join(";".join([_name(x["key"]), str(x["size"]), _name(x["ncdim"]), str(int(x["unl"]))]) for x in a["A"])
    C = ",".join(";".join([_name(c["key"]), c["type"], _name(c["ncvar"]), show_arr(c["data"]), show_names(c["axes"]),
                           show_bounds(c["bounds"]), str(int(c["clim"])), _name(c["measure"]), str(int(c["ext"])),
                           show_props(c["props"])]) for c in a["C"])
    return (f"nc={_name(a['nc'])} P={show_props(a['P'])} D={show_arr(a['D'])} DA={show_names(a['DA'])} "
            f"A=[{A}] C=[{C}] M={show_cms(a['M'])} R=[{show_refs(a['R'])}]")


# --------------------------------------------------------------------------
# abstraction of a file, netCDF4 only
# --------------------------------------------------------------------------
def cell_method_words(s):
    """The words of a `cell_methods` attribute: the reader's two substitutions, then `split()`."""
    s = re.sub(r"\((?=[^\s])", "( ", s)
    s = re.sub(r"(?<=[^\s])\)", " )", s)
    return s.split()


def parse_x(s):
    """`term: value value term: value` or a sole word (CF attributes formula_terms / grid_mapping)
    -> list of (key, [values]); None when the string has neither form."""
    w = s.split()
    if len(w) == 1 and not w[0].endswith(":"):
        return [(w[0], [])]
    out = []
    for x in w:
        if x.endswith(":"):
            out.append((x[:-1], []))
        elif not out:
            return None
        else:
            out[-1][1].append(x)
    if any(not v for _, v in out):
        return None
    return out


REF_ATTRS = ("bounds", "climatology", "coordinates", "cell_measures", "ancillary_variables", "cell_methods",
             "formula_terms", "grid_mapping")
OUTSIDE_ATTRS = ("geometry", "nodes", "node_count", "part_node_count", "interior_ring",
                 "compress", "sample_dimension", "instance_dimension", "dimensions", "coordinate_interpolation", "mesh")


def abstract_file(path):
    """dict for a dataset, through netCDF4 only."""
    import netCDF4

    nc = netCDF4.Dataset(path, "r")
    try:
        if nc.groups:
            return dict(outside="groups")
        outside = None
        strlen = set()
        used_other = set()
        V = []
        for name, v in nc.variables.items():
            dims = list(v.dimensions)
            is_char = v.dtype == "S1" or (hasattr(v.dtype, "kind") and v.dtype.kind == "S")
            is_str = v.dtype == str or is_char
            if is_char and len(dims) >= 1:
                strlen.add(dims[-1])
                dims = dims[:-1]
            used_other.update(dims)
            attrs = {a: v.getncattr(a) for a in v.ncattrs()}
            for a in OUTSIDE_ATTRS:
                if a in attrs:
                    outside = outside or ("file-attr:" + a)
            try:
                v.set_auto_maskandscale(True)
                arr = v[...]
                if is_char and v.ndim >= 1:
                    raw = np.ma.getdata(arr)
                    if raw.shape[-1] == 0:
                        arr = np.zeros(raw.shape[:-1], dtype="U1")
                    else:
                        arr = netCDF4.chartostring(np.ma.filled(arr, b""))
                        arr = np.char.rstrip(arr)
                elif v.dtype == str:
                    arr = np.asarray(arr, dtype=object)
                    arr = np.array([str(x) for x in arr.reshape(-1)], dtype=object).reshape(arr.shape) if arr.size else arr
                did = data_id(arr)
            except Exception:
                did = None
            var = dict(name=name, dims=dims, is_str=bool(is_str), data=did,
                       attrs={k: ptok(k, x) for k, x in attrs.items() if k not in REF_ATTRS},
                       bounds=attrs.get("bounds"), clim=attrs.get("climatology"),
                       coords=str(attrs.get("coordinates", "")).split(),
                       measures=[], anc=str(attrs.get("ancillary_variables", "")).split(), cms=[], ft=[], gm=[])
            if "cell_measures" in attrs:
                w = str(attrs["cell_measures"]).split()
                if len(w) % 2 or not all(x.endswith(":") for x in w[0::2]):
                    outside = outside or "cell_measures-format"
                else:
                    var["measures"] = [(w[i][:-1], w[i + 1]) for i in range(0, len(w), 2)]
            if "cell_methods" in attrs:
                var["cms"] = cell_method_words(str(attrs["cell_methods"]))
            if "formula_terms" in attrs:
                x = parse_x(str(attrs["formula_terms"]))
                if x is None or any(len(v) != 1 for _, v in x) or len({t for t, _ in x}) != len(x):
                    outside = outside or "formula_terms-format"
                else:
                    var["ft"] = [(t, v[0]) for t, v in x]
            if "grid_mapping" in attrs:
                x = parse_x(str(attrs["grid_mapping"]))
                if x is None:
                    outside = outside or "grid_mapping-format"
                else:
                    var["gm"] = [(t, list(v)) for t, v in x]
            V.append(var)
        sizes = {name: len(d) for name, d in nc.dimensions.items()}
        byname = {v["name"]: v for v in V}
        done = set()
        # bounds variables: named by a bounds / climatology attribute, or by the formula_terms of a
        # bounds variable for a term whose variable it is not
        bnames = []
        for v in list(V):
            bnames += [v["bounds"], v["clim"]]
        for v in list(V):
            for b in (v["bounds"],):
                if b in byname and byname[b]["ft"]:
                    own = dict(v["ft"])
                    bnames += [n for t, n in byname[b]["ft"] if own.get(t) != n]
        for b in bnames:
            if b in byname and b not in done and byname[b]["dims"]:
                done.add(b)
                byname[b]["data"] = mix_id(byname[b]["data"], sizes.get(byname[b]["dims"][-1], 0))
        # grid mapping variables carry no data
        for v in list(V):
            for g, _ in v["gm"]:
                if g in byname and not byname[g]["dims"]:
                    byname[g]["data"] = None
                    byname[g]["is_str"] = False
        for v in V:
            if v["bounds"] in byname and v["ft"] and not byname[v["bounds"]]["ft"]:
                outside = outside or "bounds-variable-without-formula_terms"
        D = []
        for name, d in nc.dimensions.items():
            if name in strlen and name not in used_other:
                continue
            D.append(dict(name=name, size=len(d), unl=bool(d.isunlimited())))
        G = {}
        E = []
        for a in nc.ncattrs():
            if a == "Conventions":
                continue
            if a == "external_variables":
                E = str(nc.getncattr(a)).split()
                continue
            if a == "featureType":
                outside = outside or "featureType"
            G[a] = tok(nc.getncattr(a))
        # a 0-d char variable with no data written is a container (grid mapping / domain / geometry)
        return dict(D=D, V=V, G=G, E=E, outside=outside)
    finally:
        nc.close()


def show_words(ws):
    return "n" if not ws else "+".join(pct(w) for w in ws)


def show_gm(gm):
    return "n" if not gm else "&".join(_name(g) if not cs else _name(g) + "^" + show_names(cs) for g, cs in gm)


def file_tokens(a):
    D = ",".join(f"{_name(d['name'])}:{d['size']}:{int(d['unl'])}" for d in a["D"])
    vs = []
    for v in a["V"]:
        ms = "n" if not v["measures"] else "+".join(f"{_name(m)}:{_name(x)}" for m, x in v["measures"])
        ft = "n" if not v["ft"] else "+".join(f"{_name(t)}:{_name(x)}" for t, x in v["ft"])
        vs.append(";".join([_name(v["name"]), show_names(v["dims"]), str(int(v["is_str"])),
                            "_" if v["data"] is None else str(v["data"][0]), show_props(v["attrs"]), _name(v["bounds"]),
                            _name(v["clim"]), show_names(v["coords"]), ms, show_names(v["anc"]), show_words(v["cms"]),
                            ft, show_gm(v["gm"])]))
    return f"D=[{D}] V=[{','.join(vs)}] G={show_props(a['G'])} E={show_names(a['E'])}"


# --------------------------------------------------------------------------
# parsing the model's output
# --------------------------------------------------------------------------
def _kv(s):
    out = {}
    for t in s.split():
        k, _, v = t.partition("=")
        out[k] = v
    return out


def _names(s):
    return [] if s == "n" else [dec(x) for x in s.split("+")]


def _props(s):
    if s == "_":
        return {}
    return {dec(t.split("~")[0]): t.split("~")[1] for t in s.split("|")}  # values stay encoded (as in abstract_*)


def _quals(s):
    if s == "_":
        return []
    return [(dec(t.split("~")[0]), unpct(t.split("~")[1])) for t in s.split("|")]


def _cms(s):
    if s == "n":
        return []
    out = []
    for t in s.split("&"):
        ax, m, q = t.split("^")
        out.append(dict(axes=_names(ax), method=dec(m), quals=_quals(q)))
    return out


def _body(s):
    s = s[1:-1]
    return s.split(",") if s else []


def parse_file(s):
    kv = _kv(s)
    D = []
    for t in _body(kv["D"]):
        n, size, u = t.split(":")
        D.append(dict(name=dec(n), size=int(size), unl=u == "1"))
    V = []
    for t in _body(kv["V"]):
        n, dims, st, d, at, b, cl, co, ms, an, cm, ft, gm = t.split(";")
        V.append(dict(name=dec(n), dims=_names(dims), is_str=st == "1", data=None if d == "_" else int(d), attrs=_props(at),
                      bounds=dec(b), clim=dec(cl), coords=_names(co),
                      measures=[] if ms == "n" else [tuple(dec(y) for y in x.split(":")) for x in ms.split("+")],
                      anc=_names(an), cms=[] if cm == "n" else [unpct(w) for w in cm.split("+")],
                      ft=[] if ft == "n" else [tuple(dec(y) for y in x.split(":")) for x in ft.split("+")],
                      gm=[] if gm == "n" else [(dec(x.split("^")[0]), _names(x.split("^")[1]) if "^" in x else []) for x in gm.split("&")]))
    return dict(D=D, V=V, G=_props(kv["G"]), E=_names(kv["E"]))


def parse_field(s):
    kv = _kv(s)
    d = kv["D"].split(":")
    A = []
    for t in _body(kv["A"]):
        k, size, ncd, u = t.split(";")
        A.append(dict(key=dec(k), size=int(size), ncdim=dec(ncd), unl=u == "1"))
    Cs = []
    for t in _body(kv["C"]):
        k, ty, v, da, ax, b, cl, m, ex, p = t.split(";")
        bb = None
        if b != "_":
            bv, bd, ba, bn, bp = b.split("&")
            bb = dict(ncvar=dec(bv), ncdim=dec(bd), data=(int(ba.split(":")[0]), ba.split(":")[1] == "1"), nverts=int(bn), props=_props(bp))
        Cs.append(dict(key=dec(k), type=ty, ncvar=dec(v), data=None if da == "_" else (int(da.split(":")[0]), da.split(":")[1] == "1"),
                       axes=_names(ax), bounds=bb, clim=cl == "1", measure=dec(m), ext=ex == "1", props=_props(p)))
    R = []
    for t in _body(kv.get("R", "[]")):
        k, v, cs, ps, ds, ts = t.split(";")
        R.append(dict(key=dec(k), ncvar=dec(v), coords=_names(cs), params=_props(ps), datum=_props(ds),
                      terms=[] if ts == "n" else [tuple(dec(y) for y in x.split(":")) for x in ts.split("+")]))
    return dict(nc=dec(kv["nc"]), P=_props(kv["P"]), D=(int(d[0]), d[1] == "1"), DA=_names(kv["DA"]), A=A, C=Cs, M=_cms(kv["M"]), R=R)


# --------------------------------------------------------------------------
# canonical forms and comparison up to renaming
# --------------------------------------------------------------------------
def canon_file(a, ren=None):
    """Canonical JSON-able form of an abstract file under a renaming of names."""
    r = (lambda x: ren.get(x, x)) if ren else (lambda x: x)
    D = sorted([r(d["name"]), d["size"], d["unl"]] for d in a["D"])
    V = []
    for v in a["V"]:
        did = v["data"][0] if isinstance(v["data"], tuple) else v["data"]
        V.append([r(v["name"]), [r(x) for x in v["dims"]], v["is_str"], did, sorted(v["attrs"].items()),
                  r(v["bounds"]) if v["bounds"] else None, r(v["clim"]) if v["clim"] else None,
                  sorted(r(x) for x in v["coords"]), sorted([m, r(x)] for m, x in v["measures"]),
                  sorted(r(x) for x in v["anc"]),
                  [_ren_word(w, r) for w in v["cms"]],
                  sorted([t, r(x)] for t, x in v["ft"]),
                  [[r(g), sorted(r(x) for x in cs)] for g, cs in v["gm"]]])
    V.sort(key=lambda x: json.dumps(x, sort_keys=True, default=str))
    return dict(D=D, V=V, G=sorted(a["G"].items()), E=sorted(r(x) for x in a["E"]))


def _ren_word(w, r):
    """An axis word `name:` of a cell_methods attribute under the renaming."""
    if w.endswith(":") and w not in ("interval:", "comment:"):
        return r(w[:-1]) + ":"
    return w


def var_signature(v):
    did = v["data"][0] if isinstance(v["data"], tuple) else v["data"]
    return json.dumps([len(v["dims"]), v["is_str"], did, sorted(v["attrs"].items()), bool(v["bounds"]), bool(v["clim"]),
                       len(v["coords"]), len(v["measures"]), len(v["anc"]), len(v["cms"]), sorted(t for t, _ in v["ft"]),
                       [len(cs) for _, cs in v["gm"]]], sort_keys=True)


def match_files(model, real, pinned):
    """Is there a bijection of the names not in `pinned` that turns `model` into `real`?
    Returns None if yes, else a short description."""
    if canon_file(model) == canon_file(real):
        return None
    if len(model["V"]) != len(real["V"]) or len(model["D"]) != len(real["D"]):
        return f"{len(model['V'])} variables / {len(model['D'])} dimensions in the model, {len(real['V'])} / {len(real['D'])} in the file"
    gm = {}
    gr = {}
    for v in model["V"]:
        gm.setdefault(var_signature(v), []).append(v)
    for v in real["V"]:
        gr.setdefault(var_signature(v), []).append(v)
    if sorted(gm) != sorted(gr) or any(len(gm[k]) != len(gr[k]) for k in gm):
        return "variables differ beyond their names: " + _first_diff(canon_file(model), canon_file(real))
    groups = sorted(gm)
    target = canon_file(real)
    count = 0
    for perms in itertools.product(*[itertools.permutations(range(len(gm[k]))) for k in groups]):
        count += 1
        if count > 500:
            break
        ren = {}
        ok = True
        for k, perm in zip(groups, perms):
            for i, j in enumerate(perm):
                a, b = gm[k][i], gr[k][j]
                for x, y in [(a["name"], b["name"])] + list(zip(a["dims"], b["dims"])):
                    if ren.get(x, y) != y:
                        ok = False
                    ren[x] = y
        if not ok:
            continue
        if len(set(ren.values())) != len(ren):
            continue
        if any(x != y and (x in pinned or y in pinned) for x, y in ren.items()):
            continue
        if canon_file(model, ren) == target:
            return None
    return "no consistent renaming: " + _first_diff(canon_file(model), canon_file(real))


def _first_diff(a, b):
    d = FP.diff(a, b)
    return "; ".join(d[:3]) if d else "?"


def canon_field(a):
    """Canonical form of an abstract field independent of construct keys: a construct key is
    replaced by the construct's netCDF variable name (every construct has one after a read),
    an axis key by its netCDF dimension name or, for a scalar coordinate's axis, by `=`+ the
    variable name of the coordinate spanning exactly that axis."""
    ax = {}
    for x in a["A"]:
        if x["ncdim"] is not None:
            ax[x["key"]] = "d:" + x["ncdim"]
    for c in a["C"]:
        if len(c["axes"]) == 1 and c["axes"][0] not in ax and c["type"] in ("dim", "aux"):
            ax.setdefault(c["axes"][0], "=" + str(c["ncvar"]))
    r = lambda k: ax.get(k, "?" + k)
    A = sorted([r(x["key"]), x["size"], x["ncdim"], x["unl"]] for x in a["A"])
    C = []
    for c in a["C"]:
        b = c["bounds"]
        C.append([c["type"], c["ncvar"], list(c["data"]) if c["data"] else None, [r(x) for x in c["axes"]],
                  None if b is None else [b["ncvar"], b["ncdim"], list(b["data"]), b["nverts"], sorted(b["props"].items())],
                  c["clim"], c["measure"], c["ext"], sorted(c["props"].items())])
    C.sort(key=lambda x: json.dumps(x, sort_keys=True, default=str))
    M = [[[ax.get(x, x) for x in m["axes"]], m["method"], [list(q) for q in m["quals"]]] for m in a["M"]]
    kv = {c["key"]: [c["type"], c["ncvar"]] for c in a["C"]}
    R = []
    for x in a.get("R", []):
        R.append([x["ncvar"], sorted(json.dumps(kv.get(k, ["?", k])) for k in set(x["coords"])), sorted(x["params"].items()),
                  sorted(x["datum"].items()), sorted([t, kv.get(k, ["?", k])[1] if k is not None else None] for t, k in x["terms"])])
    R.sort(key=lambda x: json.dumps(x, sort_keys=True, default=str))
    return dict(nc=a["nc"], P=sorted(a["P"].items()), D=list(a["D"]), DA=[r(x) for x in a["DA"]], A=A, C=C, M=M, R=R)


# --------------------------------------------------------------------------
# options
# --------------------------------------------------------------------------
FORMATS = ["NETCDF4", "NETCDF4_CLASSIC", "NETCDF3_CLASSIC", "NETCDF3_64BIT", "NETCDF3_64BIT_OFFSET", "NETCDF3_64BIT_DATA"]
CLASSIC_OK = {"i1", "i2", "i4", "f4", "f8"}
DATA64_OK = CLASSIC_OK | {"u1", "u2", "u4", "i8", "u8"}


def random_opts(rng, plain=False):
    o = dict(fmt="NETCDF4", string=True, compress=0, shuffle=True, fletcher32=False, endian="native", coordinates=False,
             scalar=True, hdf5_chunks="4MiB", external=False)
    if plain:
        return o
    o["fmt"] = rng.choice(FORMATS)
    o["string"] = rng.random() < 0.5
    if o["fmt"].startswith("NETCDF4"):
        o["compress"] = rng.choice([0, 0, 1, 4, 9, rng.randint(0, 9)])
        o["shuffle"] = rng.random() < 0.7
        o["fletcher32"] = rng.random() < 0.3
        o["hdf5_chunks"] = rng.choice(["4MiB", "contiguous", 1024, "64 B"])
        if o["hdf5_chunks"] == "contiguous":
            # the HDF5 library has no filters on contiguous storage
            o["compress"] = 0
            o["fletcher32"] = False
        o["endian"] = rng.choice(["native", "little", "big"])  # netCDF3 files only take 'native'
    o["coordinates"] = rng.random() < 0.3
    # `scalar` is a parameter of NetCDFWrite.write only, not of cfdm.write: always True here
    o["external"] = rng.random() < 0.5
    return o


def dtypes_of(f):
    out = set()
    xs = [f] + list(f.constructs.filter_by_data(todict=True).values())
    for x in xs:
        for d in (x.get_data(None) if hasattr(x, "get_data") else None, ):
            if d is not None and d.dtype.kind in "iuf":
                out.add(f"{d.dtype.kind}{d.dtype.itemsize}")
        b = x.get_bounds(None) if hasattr(x, "get_bounds") else None
        if b is not None and b.get_data(None) is not None:
            d = b.data
            if d.dtype.kind in "iuf":
                out.add(f"{d.dtype.kind}{d.dtype.itemsize}")
    return out


def n_string_scalars(f):
    """(number of string-valued 0-d variables the file will have, number of 0-d variables)."""
    try:
        data_axes = set(f.get_data_axes(default=()))
    except Exception:
        data_axes = set()
    da = f.constructs.data_axes()
    nstr = nscalar = 0
    for k, c in f.constructs.filter_by_data(todict=True).items():
        d = c.get_data(None)
        if d is None or len(da.get(k, ())) != 1 or da[k][0] in data_axes:
            continue
        if f.domain_axes(todict=True)[da[k][0]].get_size(None) != 1:
            continue
        nscalar += 1
        if d.dtype.kind in "SUO":
            nstr += 1
    if hasattr(f, "has_data") and f.has_data() and f.data.ndim == 0:
        nscalar += 1
        if f.data.dtype.kind in "SUO":
            nstr += 1
    return nstr, nscalar


def n_unlimited(f):
    return sum(1 for a in f.domain_axes(todict=True).values() if a.nc_is_unlimited())


def storable(f, fmt):
    """Can the format hold the construct's data types and unlimited axes? (the property is about
    constructs 'whose data types netCDF can store')"""
    dt = dtypes_of(f)
    if fmt in ("NETCDF4",):
        return True
    if fmt == "NETCDF3_64BIT_DATA":
        ok = dt <= DATA64_OK
    else:
        ok = dt <= CLASSIC_OK
    if not ok:
        return False
    if fmt != "NETCDF4":
        # one unlimited dimension, and it must be the leading one of every variable
        nu = n_unlimited(f)
        if nu > 1:
            return False
        if nu == 1:
            da = f.constructs.data_axes()
            unl = [k for k, a in f.domain_axes(todict=True).items() if a.nc_is_unlimited()][0]
            allaxes = list(da.values())
            if hasattr(f, "get_data_axes"):
                allaxes.append(tuple(f.get_data_axes(default=())))
            for axes in allaxes:
                if unl in axes and axes[0] != unl:
                    return False
    return True


def write_kwargs(o, path):
    kw = dict(fmt=o["fmt"], string=o["string"], compress=o["compress"], shuffle=o["shuffle"], fletcher32=o["fletcher32"],
              endian=o["endian"], coordinates=o["coordinates"], hdf5_chunks=o["hdf5_chunks"])
    if o.get("external"):
        kw["external"] = path[:-3] + "_ext.nc"
    return kw


# --------------------------------------------------------------------------
# the work shared by the streams of one (spec, options) pair
# --------------------------------------------------------------------------
_cache = {}


def realise(spec, opts):
    """Build f, write it, abstract the file, read it back.  Cached per (spec, opts)."""
    key = json.dumps([spec, opts], sort_keys=True)
    if key in _cache:
        return _cache[key]
    C = cfdm()
    r = dict(f=None, path=None, write_exc=None, read_exc=None, g=None, file=None, absf=None, outside=None, ext=None)
    f = GEN.build(spec)
    r["f"] = f
    if not storable(f, opts["fmt"]):
        opts = dict(opts, fmt="NETCDF4")
    nstr, nscalar = n_string_scalars(f)
    if opts["fmt"] == "NETCDF4" and opts["string"] and nstr >= 1 and nscalar >= 2:
        # netCDF4-python / HDF5 crash (segmentation fault; reproduced with netCDF4 alone on a file
        # cfdm wrote): a dataset with 0-d variable-length string variables that is opened again
        # and again while another handle is open.  cfdm.read opens the file once more per scalar
        # coordinate variable it reads, and such a file can kill the process; the harness cannot
        # observe a crash, so a construct that gives a 0-d string variable next to another 0-d
        # variable is written with character arrays (string=False).  Reported, not a cfdm finding.
        opts = dict(opts, string=False)
    if opts["hdf5_chunks"] == "contiguous" and (n_unlimited(f) or (hasattr(f, "data") and f.has_data() and f.data.get_compression_type())):
        # HDF5 stores unlimited dimensions chunked only
        opts = dict(opts, hdf5_chunks="4MiB")
    r["opts"] = opts
    try:
        r["absf"] = abstract_field(f)
    except Outside as e:
        r["outside"] = str(e)
    path = tmpfile("rt")
    r["path"] = path
    kw = write_kwargs(opts, path)
    r["ext"] = kw.get("external")
    has_ext = any(c.nc_get_external() for c in f.constructs.filter_by_type("cell_measure", todict=True).values())
    if not has_ext:
        kw.pop("external", None)
        r["ext"] = None
    elif not r["ext"]:
        # without an external file the data of an external cell measure are, by design, not
        # written anywhere: the round trip is only asked for with the external file
        kw["external"] = path[:-3] + "_ext.nc"
        r["ext"] = kw["external"]
    try:
        C.write(f, path, **kw)
    except Exception as e:
        r["write_exc"] = e
        _store(key, r)
        return r
    try:
        r["file"] = abstract_file(path)
    except Outside as e:
        r["file"] = dict(outside=str(e))
    try:
        rk = {}
        if r["ext"] and os.path.exists(r["ext"]):
            rk["external"] = r["ext"]
        if type(f).__name__ == "Domain":
            rk["domain"] = True
        r["g"] = C.read(path, **rk)
    except Exception as e:
        r["read_exc"] = e
    r["g_plain"] = r["g"]
    if r["ext"] and os.path.exists(r["ext"]) and r["read_exc"] is None:
        # the read stream compares the file on its own (no external file resolved)
        try:
            r["g_plain"] = C.read(path)
        except Exception as e:
            r["g_plain"] = None
    _store(key, r)
    return r


def _store(key, r):
    if len(_cache) > 64:
        _cache.clear()
    _cache[key] = r
    for p in (r.get("path"), r.get("ext")):
        # files are read lazily: keep them until the cache entry is dropped; the scratch
        # directory is removed at exit
        pass


def pinned_names(a):
    out = set()
    if a["nc"]:
        out.add(a["nc"])
    for x in a["A"]:
        if x["ncdim"]:
            out.add(x["ncdim"])
    for c in a["C"]:
        if c["ncvar"]:
            out.add(c["ncvar"])
        if c["bounds"]:
            for k in ("ncvar", "ncdim"):
                if c["bounds"][k]:
                    out.add(c["bounds"][k])
    for x in a.get("R", []):
        if x["ncvar"]:
            out.add(x["ncvar"])
    return out


# --------------------------------------------------------------------------
# cases
# --------------------------------------------------------------------------
def mk_cases(spec, opts):
    payload = dict(spec=spec, opts=opts)
    r = realise(spec, opts)
    tags = ["kind:" + spec["kind"]] + ["mut:" + m for m in spec.get("muts", ())]
    o = r["opts"]
    tags += ["fmt:" + o["fmt"], f"scalar:{int(o['scalar'])}", f"coordinates:{int(o['coordinates'])}", f"string:{int(o['string'])}"]
    if spec.get("domain"):
        tags.append("domain")
    f = r["f"]
    nontrivial = len(f.constructs.filter_by_data(todict=True)) > 0 or bool(f.constructs.filter_by_type("cell_method", todict=True))
    cases = []
    # write stream (carries the oracle)
    line = None
    if r["outside"] is None:
        try:
            line = f"C01.write sc={int(o['scalar'])} co={int(o['coordinates'])} " + field_tokens(r["absf"])
        except Outside as e:
            r["outside"] = str(e)
    wt = list(tags)
    if line is None:
        wt.append("outside-model:" + str(r["outside"]))
    cases.append(Case("C01.write", payload, line, key=json.dumps(["w", spec, opts], sort_keys=True), nontrivial=nontrivial, tags=wt))
    # read stream
    if r["write_exc"] is None and r["file"] is not None:
        rline = None
        why = r["file"].get("outside")
        if why is None:
            try:
                rline = "C01.read " + file_tokens(r["file"])
            except Outside as e:
                why = str(e)
        rt = list(tags)
        if rline is None:
            rt.append("outside-model:" + str(why))
        cases.append(Case("C01.read", payload, rline, key=json.dumps(["r", spec, opts], sort_keys=True), nontrivial=nontrivial, tags=rt))
    return cases


def gen(rng, tier, n):
    pairs = max(1, n // 2)
    for i in range(pairs):
        spec = GEN.random_spec(rng, tier)
        opts = random_opts(rng, plain=(rng.random() < 0.3))
        try:
            GEN.build(spec)
        except Exception:
            # the generator could not build this construct through the API: not a case
            continue
        for c in mk_cases(spec, opts):
            yield c


def from_payload(stream, payload):
    cs = mk_cases(payload["spec"], payload["opts"])
    for c in cs:
        if c.stream == stream:
            return c
    return cs[0]


# --------------------------------------------------------------------------
# implementation side
# --------------------------------------------------------------------------
def impl(case):
    r = realise(case.payload["spec"], case.payload["opts"])
    if case.stream == "C01.write":
        if r["write_exc"] is not None:
            return "raised:" + fw.exc_enum(r["write_exc"])
        if r["file"] is None or r["file"].get("outside"):
            return "outside:" + str((r["file"] or {}).get("outside"))
        return json.dumps(canon_file(r["file"]), sort_keys=True, default=str)
    # read
    if _dangling_reference(case.line):
        # a `bounds` / `climatology` attribute that names no variable of the file (a property called like a
        # reference attribute ends up there): a structurally non-compliant dataset is property C13's subject
        # and the reader's handling of it is in C13's model, not in this one; the oracle still judges the case
        return "outside:dangling-reference"
    if r["read_exc"] is not None:
        return "raised:" + fw.exc_enum(r["read_exc"])
    out = []
    if r.get("g_plain") is None:
        return "raised:other"
    for g in r["g_plain"]:
        try:
            out.append(canon_field(abstract_field(g)))
        except Outside as e:
            return "outside:" + str(e)
    return json.dumps(out, sort_keys=True, default=str)


def _dangling_reference(line):
    try:
        body = line.split(" V=[", 1)[1].split("] ", 1)[0]
    except Exception:
        return False
    ents = [e.split(";") for e in body.split(",")]
    names = {e[0] for e in ents}
    return any(len(e) > 6 and ((e[5] != "_" and e[5] not in names) or (e[6] != "_" and e[6] not in names)) for e in ents)


def agree(case):
    m = case.model_out
    i = case.impl_out
    if m is None:
        return True
    if m.startswith("outside:") or (i or "").startswith("outside:"):
        return True
    r = realise(case.payload["spec"], case.payload["opts"])
    if case.stream == "C01.write":
        if m.startswith("raised:") or i.startswith("raised:"):
            # the model has two error classes of its own; the real writer's exception type for a
            # refused name is a RuntimeError from the netCDF library
            return m.startswith("raised:") and i.startswith("raised:")
        why = match_files(parse_file(m), r["file"], pinned_names(r["absf"]))
        case.extra = why
        return why is None
    if i.startswith("raised:"):
        # cfdm.read raised: the model's reader has no exceptions; the oracle of the sibling
        # write case reports the failure
        return True
    real = json.loads(i)
    first = None
    for pred in m.split(" %%OLD%% "):
        # the prediction for the reader with the proposed patches, then (when different) for the reader as it is
        fields = [] if pred == "none" else [canon_field(parse_field(x)) for x in pred.split(" ## ")]
        a = json.loads(json.dumps(fields, sort_keys=True, default=str))
        if a == real:
            return True
        first = first or _first_diff(a, real)
    case.extra = first
    return False


# --------------------------------------------------------------------------
# oracle: read(write(f)) is f
# --------------------------------------------------------------------------
def _norm_fp(x):
    """Normalise what netCDF cannot distinguish: python/numpy scalar types of attribute values,
    size-1 arrays vs scalars."""
    if isinstance(x, dict):
        return {k: (_fill_norm(v) if k == "fill_value" else _norm_fp(v)) for k, v in x.items()}
    if isinstance(x, tuple):
        x = list(x)
    if isinstance(x, list):
        if len(x) == 3 and x[0] == "scalar":
            return _norm_fp(x[2])
        if len(x) == 3 and x[0] == "array" and isinstance(x[2], list):
            flat = np.asarray(x[2]).reshape(-1).tolist() if x[2] else []
            if len(flat) == 1:
                return _norm_fp(flat[0])
            return ["array", "num" if x[1][0] in "iuf" else x[1], [_norm_fp(v) for v in flat]]
        return [_norm_fp(v) for v in x]
    if isinstance(x, str):
        m = re.match(r"^np\.\w+\((.*)\)$", x)
        if m:
            x = m.group(1)
        try:
            return json.dumps(_norm_fp(json.loads(x)), sort_keys=True)
        except Exception:
            try:
                return json.dumps(float(x))
            except Exception:
                return x
    if isinstance(x, bool):
        return x
    if isinstance(x, (int, float)):
        return float(x)
    return x


def _round6(x):
    try:
        return float(f"{float(x):.6g}")
    except Exception:
        return x


def _fill_norm(v):
    """`repr` of a fill value (python float or numpy scalar of the data's type) -> a number
    rounded to what a float32 holds."""
    if isinstance(v, str):
        m = re.match(r"^np\.\w+\((.*)\)$", v)
        if m:
            v = m.group(1)
    return _round6(v)


def _strip_fp(fp):
    """Drop what the round trip is not asked to keep: the Conventions property, the
    `external` status (a cell measure read with its external file is no longer external)."""
    fp = dict(fp)
    fp["props"] = [p for p in fp.get("props", []) if p[0] != "Conventions"]
    cons = []
    for s in fp.get("constructs", []):
        c = json.loads(s)
        c.pop("external", None)
        cons.append(json.dumps(c, sort_keys=True, default=str))
    fp["constructs"] = sorted(cons)
    return fp


def _equal_up_to_tied_labels(f, fa, fb):
    """The fingerprint labels the axes A0, A1, … in the order of a key-independent signature
    (size, position in the data, coordinates); axes with *equal* signatures are labelled in
    insertion order, which a round trip may change.  Accept a permutation of such tied labels."""
    try:
        labels, sig = FP._axis_labels(f)
    except Exception:
        return False
    groups = {}
    for k, sg in sig.items():
        groups.setdefault(sg, []).append(labels[k])
    tied = [sorted(v) for v in groups.values() if len(v) > 1]
    if not tied:
        return False
    target = json.dumps(fa, sort_keys=True, default=str)
    count = 0
    for perms in itertools.product(*[itertools.permutations(t) for t in tied]):
        count += 1
        if count > 200:
            break
        m = {}
        for t, pm in zip(tied, perms):
            m.update(dict(zip(t, pm)))
        def ren(x):
            if isinstance(x, dict):
                return {k: ren(v) for k, v in x.items()}
            if isinstance(x, list):
                return [ren(v) for v in x]
            if isinstance(x, str):
                if re.fullmatch(r"A\d+", x):
                    return m.get(x, x)
                if x[:1] in "[{":
                    try:
                        return json.dumps(ren(json.loads(x)), sort_keys=True)
                    except Exception:
                        return x
            return x
        fb2 = ren(fb)
        # lists of constructs / axes are sorted in the fingerprint: sort again after renaming
        for key in ("constructs", "axes", "refs"):
            if isinstance(fb2.get(key), list):
                fb2[key] = sorted(fb2[key], key=lambda v: json.dumps(v, sort_keys=True, default=str))
        fa2 = dict(fa)
        for key in ("constructs", "axes", "refs"):
            if isinstance(fa2.get(key), list):
                fa2[key] = sorted(fa2[key], key=lambda v: json.dumps(v, sort_keys=True, default=str))
        if json.dumps(fb2, sort_keys=True, default=str) == json.dumps(fa2, sort_keys=True, default=str):
            return True
    return False


def fp_of(x):
    return _norm_fp(_strip_fp(FP.fingerprint(x, names=False)))


def names_lost(f, g):
    """Every netCDF name set on f that CF-netCDF can hold must be found on the corresponding
    component of g.  Components are matched by their name-free fingerprints."""
    lost = []
    if f.nc_get_variable(None) is not None and g.nc_get_variable(None) != f.nc_get_variable(None):
        lost.append(("field ncvar", f.nc_get_variable(None), g.nc_get_variable(None)))

    def groups(x):
        out = {}
        da = x.constructs.data_axes()
        labels, _ = FP._axis_labels(x)
        for k, c in x.constructs.filter_by_data(todict=True).items():
            fp = FP.fp_construct(c, names=False)
            fp.pop("external", None)
            fp["axes"] = [labels[a] for a in da.get(k, ())]
            out.setdefault(json.dumps(_norm_fp(fp), sort_keys=True, default=str), []).append(c)
        for k, c in x.coordinate_references(todict=True).items():
            out.setdefault("ref:" + str(sorted(c.coordinate_conversion.parameters().items(), key=str)), []).append(c)
        return out

    def nm(c):
        out = [("ncvar", c.nc_get_variable(None))]
        b = c.get_bounds(None) if hasattr(c, "get_bounds") else None
        if b is not None:
            out.append(("bounds ncvar", b.nc_get_variable(None)))
            out.append(("bounds ncdim", b.nc_get_dimension(None)))
        return out

    gf, gg = groups(f), groups(g)
    # a name set on two components of f can be kept by one of them only (netCDF names are unique)
    import collections as _c
    cnt = _c.Counter()
    for cs in gf.values():
        for c in cs:
            for what, a in nm(c):
                if a is not None and not what.endswith("ncdim"):
                    cnt[a] += 1
    if f.nc_get_variable(None) is not None:
        cnt[f.nc_get_variable(None)] += 1
    dup = {a for a, k in cnt.items() if k > 1}
    # constructs with equal content on the same axes (whatever their type) are written once
    # (`_already_in_file`, by design — e.g. the formula term `a` of example_field(1) is its
    # coordinate): only one of their names can be in the file
    notype = _c.Counter()
    def _nt(sig):
        if sig.startswith("ref:"):
            return sig
        d = json.loads(sig)
        d.pop("type", None)
        return json.dumps(d, sort_keys=True, default=str)
    for sig, cs in gf.items():
        notype[_nt(sig)] += len(cs)
    for sig, cs in gf.items():
        if notype[_nt(sig)] > 1:
            for c in cs:
                for what, a in nm(c):
                    if a is not None:
                        dup.add(a)
    for sig, cs in gf.items():
        ds = gg.get(sig, [])
        if len(ds) != len(cs):
            continue  # structural difference: reported by the fingerprint
        ok = False
        for perm in itertools.permutations(range(len(ds))):
            bad = []
            for i, j in enumerate(perm):
                for (what, a), (_, b) in zip(nm(cs[i]), nm(ds[j])):
                    if a is not None and a != b and a not in dup:
                        bad.append((what, a, b))
            if not bad:
                ok = True
                break
            first_bad = bad
        if not ok:
            lost += first_bad
    # dimension names: only where netCDF has a dimension of its own to name, i.e. the axis is
    # spanned by the data (or by a construct with two or more axes) and has no dimension
    # coordinate whose variable name must, by the CF rule for coordinate variables, be the
    # dimension name.
    da = f.constructs.data_axes()
    try:
        data_axes = set(f.get_data_axes(default=()))
    except Exception:
        data_axes = set(f.domain_axes(todict=True))
    dimc = {da[k][0] for k in f.dimension_coordinates(todict=True) if k in da and len(da[k]) == 1}
    lf, _ = FP._axis_labels(f)
    lg, _ = FP._axis_labels(g)
    inv = {}
    for k, l in lg.items():
        inv.setdefault(l, []).append(k)
    gax = g.domain_axes(todict=True)
    for k, a in f.domain_axes(todict=True).items():
        n = a.nc_get_dimension(None)
        if n is None or k in dimc or k not in data_axes:
            continue
        cands = inv.get(lf[k], [])
        if cands and all(gax[c].nc_get_dimension(None) != n for c in cands):
            lost.append(("axis ncdim", n, str([gax[c].nc_get_dimension(None) for c in cands])))
    return lost


def oracle(case):
    if case.stream != "C01.write":
        return None
    r = realise(case.payload["spec"], case.payload["opts"])
    f = r["f"]
    if r["write_exc"] is not None:
        return f"cfdm.write raised {type(r['write_exc']).__name__}: {str(r['write_exc'])[:150]}"
    if r["read_exc"] is not None:
        return f"cfdm.read raised {type(r['read_exc']).__name__}: {str(r['read_exc'])[:150]}"
    gs = r["g"]
    if len(gs) != 1:
        return f"read returned {len(gs)} constructs"
    g = gs[0]
    if type(g).__name__ != type(f).__name__:
        return f"read returned a {type(g).__name__}"
    ref = f
    if not r["opts"]["scalar"]:
        # scalar=False is documented to turn size-1 dimension coordinates into coordinate variables
        # with a dimension of their own, which the data then span: compare with f so transformed.
        ref = insert_scalar_axes(f)
    fa, fb = fp_of(ref), fp_of(g)
    msgs = []
    if fa != fb and not _equal_up_to_tied_labels(ref, fa, fb):
        msgs.append("fingerprint: " + "; ".join(FP.diff(fa, fb)[:3]))
    try:
        e1 = bool(ref.equals(g))
        e2 = bool(g.equals(ref))
    except Exception as e:
        msgs.append(f"equals raised {type(e).__name__}")
        e1 = e2 = True
    if not (e1 and e2):
        msgs.append(f"equals {e1}/{e2}")
    if not msgs:
        try:
            lost = names_lost(ref, g)
        except Exception as e:
            lost = [("name comparison raised", type(e).__name__, str(e))]
        if lost:
            msgs.append("names: " + "; ".join(f"{w} {a!r} -> {b!r}" for w, a, b in lost[:3]))
    return "; ".join(msgs) if msgs else None


def insert_scalar_axes(f):
    if not hasattr(f, "insert_dimension"):
        return f
    g = f.copy()
    da = g.constructs.data_axes()
    data_axes = list(g.get_data_axes(default=()))
    dimc = {da[k][0] for k in g.dimension_coordinates(todict=True) if k in da and len(da[k]) == 1}
    for a in sorted(g.domain_axes(todict=True)):
        if a not in data_axes and a in dimc:
            g = g.insert_dimension(a, position=0)
    return g


# --------------------------------------------------------------------------
# known-finding signatures
# --------------------------------------------------------------------------
# A failure is attributed to a known finding only if it *disappears* when the input class of that
# finding is removed from the construct (harness/gen/fields_C01.py FIXES) — the classes are tried in
# this order, cumulatively; the signature is that of the class whose removal made the oracle
# pass.  A failure that survives the removal of every known class is unclassified (VIOLATION).
def _ragged_sig(detail):
    if detail.startswith("cfdm.write raised"):
        return "ragged-compressed-field-write-raises"
    if detail.startswith("read returned"):
        return "ragged-compressed-field-read-returns-several-constructs"
    return "ragged-compressed-field-read-back-differs"


CHAIN = [
    # (fix, predicate on the built construct, signature or function of the failure detail)
    ("uncompress", lambda f: [1] if GEN.is_compressed(f) else [], _ragged_sig),
    ("unlimited_unspanned", GEN.unlimited_unspanned, "unlimited-axis-spanned-by-no-variable-has-size-0"),
    ("one_external", GEN.several_external, "several-external-cell-measures-get-renamed-dimensions-in-the-external-file"),
    ("dup_scalar", GEN.dup_scalar_keys,
     lambda d: "equal-scalar-coordinates-share-one-variable-read-fails" if d.startswith("cfdm.read raised")
     else "equal-scalar-coordinates-share-one-variable-axes-confused"),
    ("aux_on_dimcoord_scalar_axis", GEN.aux_on_dimcoord_scalar_axis,
     lambda d: "auxiliary-coordinate-on-inserted-axis-written-as-scalar-coordinate" if "/axes: lengths" in d
     else "size1-axis-outside-data-spanned-by-several-constructs"),
    ("multi_scalar", GEN.multi_scalar_axes, "size1-axis-outside-data-spanned-by-several-constructs"),
    ("numeric_scalar_aux", GEN.numeric_scalar_aux_keys, "numeric-scalar-auxiliary-coordinate-read-as-dimension-coordinate"),
    ("reserved_props", GEN.reserved_props, "property-named-like-a-reference-attribute"),
    ("size1_vector_props", GEN.size1_vector_props, "size-1-vector-property-read-as-scalar"),
    ("cm_unitless_interval", GEN.cm_unitless_interval, "cell-method-interval-without-units-followed-by-interval-or-comment"),
    ("dan_bounds", GEN.dan_bounds_unencodable, "domain-ancillary-bounds-not-named-by-bounds-formula-terms"),
    ("scalar_parametric", GEN.scalar_parametric,
     lambda d: "scalar-parametric-vertical-coordinate-read-raises-indexerror" if d.startswith("cfdm.read raised IndexError") else None),
    ("cm_unspanned", GEN.cm_unspanned, "equals-compares-cell-method-axis-without-constructs-by-key"),
    ("cm_free_name_clash", GEN.cm_free_name_clash, "cell-method-over-a-name-that-is-also-a-netcdf-name-read-as-axis"),
    ("bounds_ncdim", GEN.bounds_ncdim_clash, "bounds-dimension-name-replaced-by-existing-dimension-of-same-size"),
    ("ft_none_terms", GEN.ft_none_terms, "formula-term-without-domain-ancillary-dropped"),
    ("ft_datum", GEN.ft_datum_alone,
     lambda d: "vertical-datum-grid-mapping-variable-read-as-field" if d.startswith("read returned")
     else "vertical-datum-without-matching-grid-mapping-adds-coordinate-reference"),
    ("ft_datum_missing", GEN.ft_datum_missing, "grid-mapping-datum-copied-onto-formula-terms-reference"),
    ("ft_csn", GEN.ft_csn_missing, "computed-standard-name-copied-onto-coordinate"),
    ("ft_coords", GEN.ft_extra_coords,
     lambda d: "computed-standard-name-checked-on-wrong-coordinate" if "Standard name could not be computed" in d
     else "formula-terms-reference-coordinates-reduced-to-owning-coordinate"),
    ("gm_coords", GEN.gm_coords_not_inferable, "grid-mapping-coordinates-not-those-inferred-from-standard-names"),
]


def _oracle_of(spec, opts):
    cs = mk_cases(spec, opts)
    return oracle(cs[0])


def classify(case):
    if case.stream != "C01.write":
        return None
    spec, opts = case.payload["spec"], case.payload["opts"]
    r = realise(spec, opts)
    detail = case.oracle_fail if case.oracle_fail is not None else oracle(case)
    if not detail:
        return None
    f = r["f"]
    def names_sig(d, rr, model_out):
        """names-only failure explained by `_netcdf_name`: every lost variable name is present in
        the written file as the name of ANOTHER object and the construct got <name>_<k>."""
        if not d or not d.startswith("names:") or not rr.get("g") or len(rr["g"]) != 1 or not rr.get("file") or "V" not in rr["file"]:
            return None
        try:
            lost = names_lost(rr["f"], rr["g"][0])
        except Exception:
            return None
        if not lost:
            return None
        taken = {v["name"] for v in rr["file"]["V"]} | {x["name"] for x in rr["file"]["D"]}
        ok = True
        for w, a, b in lost:
            if w == "bounds ncdim":
                continue
            if not (isinstance(b, str) and re.fullmatch(re.escape(a.replace(" ", "_")) + r"_\d+", b) and a.replace(" ", "_") in taken):
                ok = False
        if not ok:
            return None
        if any(w == "bounds ncdim" for w, _, _ in lost):
            if not GEN.bounds_ncdim_clash(rr["f"]):
                return None
            return "bounds-dimension-name-replaced-by-existing-dimension-of-same-size"
        return "netcdf-name-already-in-use-when-requested"

    sg = names_sig(detail, r, case.model_out)
    if sg:
        return sg
    def has_fill(f):
        return any("_FillValue" in x.properties() for x in [f] + list(f.constructs.filter_by_data(todict=True).values()))

    # option-level classes first (fix = another option value), then the construct-level chain
    OPT_CHAIN = [
        (lambda o: o["endian"] != "native", dict(endian="native"),
         lambda d: "endian-non-native-character-or-string-variable" if d.startswith("cfdm.write raised")
         else "endian-non-native-data-type-byte-order-on-read"),
        (lambda o: o["fmt"] == "NETCDF4_CLASSIC" and has_fill(f), dict(fmt="NETCDF4"),
         lambda d: "netcdf4-classic-fill-value-property-write-fails" if "Attempt to define fill value" in d else None),
    ]
    spec2 = dict(spec)
    opts2 = dict(r["opts"])
    cur = detail
    for pred, change, sig in OPT_CHAIN:
        if not pred(opts2):
            continue
        opts2 = dict(opts2, **change)
        try:
            nxt = _oracle_of(spec2, opts2)
        except Exception:
            return None
        if nxt is None:
            return sig(cur)
        cur = nxt
    fixes = list(spec.get("fix", ()))
    cur_f = f
    for fix, pred, sig in CHAIN:
        # is the class (still) in the construct, as the fixes applied so far have left it?
        try:
            present = bool(pred(cur_f))
        except Exception:
            present = False
        if not present:
            continue
        fixes = fixes + [fix]
        spec2 = dict(spec2, fix=fixes)
        try:
            cur_f = GEN.build(spec2)
        except Exception:
            return None
        try:
            nxt = _oracle_of(spec2, opts2)
        except Exception:
            return None
        if nxt is None:
            found = sig(cur) if callable(sig) else sig
            if found:
                return found
            # the removal of this class made the failure go away, but the symptom is not one of this
            # class (e.g. the removal took a coordinate reference out together with the real cause):
            # put the class back and look at the remaining ones
            fixes = fixes[:-1]
            spec2 = dict(spec2, fix=fixes)
            try:
                cur_f = GEN.build(spec2)
            except Exception:
                return None
            continue
        sg = names_sig(nxt, realise(spec2, opts2), None)
        if sg:
            return sg
        cur = nxt
    # unexplained: one VIOLATION per symptom class rather than one per case
    return "unexplained:" + re.sub(r"[0-9]+", "#", re.sub(r"'[^']*'", "'…'", detail))[:60]
    return None


# --------------------------------------------------------------------------
# shrinking: fewer mutations, fewer generator features, plain options
# --------------------------------------------------------------------------
def _symptom(d):
    return re.sub(r"[0-9]+", "#", re.sub(r"'[^']*'", "'…'", d or ""))[:25]


def shrink(case, run):
    if case.stream != "C01.write" or not case.oracle_fail:
        return None
    spec = dict(case.payload["spec"])
    opts = dict(case.payload["opts"])
    want = _symptom(case.oracle_fail)

    def fails(sp, op):
        try:
            d = _oracle_of(sp, op)
        except Exception:
            return False
        return bool(d) and _symptom(d) == want

    plain = random_opts(None, plain=True)
    for k in list(opts):
        if opts[k] != plain.get(k, opts[k]):
            trial = dict(opts, **{k: plain[k]})
            if fails(spec, trial):
                opts = trial
    changed = True
    while changed:
        changed = False
        for m in list(spec.get("muts", ())):
            trial = dict(spec, muts=[x for x in spec["muts"] if x != m])
            if fails(trial, opts):
                spec, changed = trial, True
        for a in list(spec.get("allow", ())):
            trial = dict(spec, allow=[x for x in spec["allow"] if x != a])
            if fails(trial, opts):
                spec, changed = trial, True
        if spec.get("max_axes", 1) > 1:
            trial = dict(spec, max_axes=spec["max_axes"] - 1)
            if fails(trial, opts):
                spec, changed = trial, True
    cs = mk_cases(spec, opts)
    c = cs[0]
    c.impl_out = impl(c)
    if c.line is not None:
        try:
            c.model_out = fw.model_run([c.line])[0]
        except Exception:
            c.model_out = None
    c.oracle_fail = oracle(c)
    return c if c.oracle_fail else None
